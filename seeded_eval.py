#!/usr/bin/env python3
"""Confirm a seeded change in its scratch worktree and run the property's checks against it.

usage: seeded_eval.py <ID> <scratch worktree> "<demo command>" [<other check ids>...]
Steps: (scratch) clean checkout + demo only -> demo passes; + patch -> 40+10 tests pass and demo fails;
       scratch clone of /repo + patch in a mount namespace (nsrun.sh) -> ./check <ID> quick (and the other ids)
Writes /verif/seeded/<ID>/{patch.diff,demo.diff,README.md,meta.json}.
"""
import json, os, shutil, subprocess, sys, time

def sh(cmd, cwd=None, timeout=1800):
    p = subprocess.run(cmd, shell=True, cwd=cwd, stdout=subprocess.PIPE, stderr=subprocess.STDOUT, text=True, timeout=timeout)
    return p.returncode, p.stdout

def main():
    pid, wt, demo_cmd = sys.argv[1], sys.argv[2], sys.argv[3]
    others = sys.argv[4:]
    out = os.path.join(wt, "out")
    dest = os.path.join("/verif/seeded", pid + os.environ.get("SEEDED_SUFFIX", ""))
    os.makedirs(dest, exist_ok=True)
    tmp_out = wt.rstrip("/") + ".out"
    if os.path.isdir(out):
        shutil.rmtree(tmp_out, ignore_errors=True)
        shutil.copytree(out, tmp_out)
    env_prefix = "CARGO_TARGET_DIR=%s/target " % wt
    meta = {"property": pid, "ran": []}
    def step(name, cmd, cwd):
        rc, o = sh(cmd, cwd)
        meta["ran"].append({"step": name, "cmd": cmd, "rc": rc, "tail": o[-600:]})
        return rc, o
    # scratch: clean
    step("reset", "git checkout -q -- . && git clean -fdq -e out", wt)
    rc, _ = step("apply demo", "git apply %s/demo.diff" % tmp_out, wt)
    if rc != 0:
        meta["verdict"] = "demo.diff does not apply"
    else:
        rc_ok, o = step("demo without the change", env_prefix + demo_cmd, wt)
        step("apply patch", "git apply %s/patch.diff" % tmp_out, wt)
        rc_tests, o_tests = step("suite with the change", env_prefix + "cargo test --workspace --offline 2>&1 | grep -E 'test result|FAILED|failed' | head -20", wt)
        rc_bad, o = step("demo with the change", env_prefix + demo_cmd, wt)
        meta["demo_passes_without"] = rc_ok == 0
        meta["demo_fails_with"] = rc_bad != 0
    # run the checks against a scratch clone of /repo with the change applied, inside a private
    # mount namespace (nsrun.sh): /repo itself is never modified
    results = {}
    for cid in [pid] + others:
        t0 = time.time()
        rc, o = sh("/verif/nsrun.sh %s/patch.diff ./check %s quick" % (tmp_out, cid), "/verif", timeout=3600)
        lines = [l for l in o.splitlines() if l.startswith("VIOLATION") or l.startswith("MACHINERY") or l.startswith("  [")]
        results[cid] = {"rc": rc, "wall_s": round(time.time() - t0, 1), "lines": lines[:6]}
    meta["checks"] = results
    meta["detected_by"] = [c for c, r in results.items() if r["rc"] == 1]
    for f in ("patch.diff", "demo.diff", "README.md"):
        if os.path.exists(os.path.join(tmp_out, f)):
            shutil.copy(os.path.join(tmp_out, f), os.path.join(dest, f))
    with open(os.path.join(dest, "meta.json"), "w") as f:
        json.dump(meta, f, indent=1)
    print(json.dumps({k: meta.get(k) for k in ("property", "demo_passes_without", "demo_fails_with", "detected_by")}))
    for c, r in results.items():
        print(c, r["rc"], r["wall_s"], r["lines"][:3])

main()
