#!/usr/bin/env python3
"""Hand-written mutation campaign: small property-breaking edits applied to /repo one at a time.

For each mutant: apply (exact string replacement), run the repository's own suite (mutants the
suite kills are recorded and skipped), run the quick check(s) of the properties it should break,
revert. Results are appended to /verif/mutation_campaign.md. Nothing is ever committed to /repo.

usage: mutants.py [name-substring ...]
"""
import json, os, subprocess, sys, time

REPO = "/repo"

# (name, file, old, new, [properties expected to report it])
M = [
 ("c01-skip-tail-rereg", "src/io_loop/mod.rs", "            if self.inner.has_data_to_write() && have_written_to_socket {\n                trace!(\"reregistering socket for readable or writable\");\n                self.poll\n                    .reregister(\n                        stream,\n                        STREAM,\n                        Ready::readable() | Ready::writable(),\n                        PollOpt::edge(),\n                    )\n                    .context(RegisterWithPollHandleSnafu)?;\n            } else if had_data_to_write && !self", "            if self.inner.has_data_to_write() && have_written_to_socket && had_data_to_write {\n                trace!(\"reregistering socket for readable or writable\");\n                self.poll\n                    .reregister(\n                        stream,\n                        STREAM,\n                        Ready::readable() | Ready::writable(),\n                        PollOpt::edge(),\n                    )\n                    .context(RegisterWithPollHandleSnafu)?;\n            } else if had_data_to_write && !self", ["C01", "C04"]),
 ("c01-drain-plus-one", "src/io_loop/mod.rs", "self.outbuf.drain_written(pos);", "self.outbuf.drain_written(usize::min(pos + 1, len));", ["C01"]),
 ("c01-no-drain-on-wouldblock", "src/io_loop/mod.rs", "                        self.outbuf.drain_written(pos);\n                        return Ok(());", "                        return Ok(());", ["C01"]),
 ("c02-chunk-ge", "src/io_loop/channel_handle.rs", "while content.len() > self.frame_max {", "while content.len() >= self.frame_max {", []),
 ("c02-always-final-chunk", "src/io_loop/channel_handle.rs", "if !content.is_empty() {\n            trace!(\n                \"sending final", "if true {\n            trace!(\n                \"sending final", ["C02"]),
 ("c02-overhead-7", "src/io_loop/channel_handle.rs", "const FRAME_OVERHEAD: usize = 8;", "const FRAME_OVERHEAD: usize = 7;", ["C02"]),
 ("c02-swap-mandatory-immediate", "src/channel.rs", "mandatory: publish.mandatory,\n            immediate: publish.immediate,", "mandatory: publish.immediate,\n            immediate: publish.mandatory,", ["C02"]),
 ("c02-header-len-plus-one", "src/io_loop/channel_handle.rs", ".send_content_header(class_id, content.len(), properties)?;", ".send_content_header(class_id, content.len() + 1, properties)?;", ["C02"]),
 ("c03-empty-buf-on-done", "src/io_loop/content_collector.rs", "                    Ordering::Equal => {\n                        Ok(Content::Done(T::new(\n                            channel_id,\n                            start,\n                            buf,", "                    Ordering::Equal => {\n                        Ok(Content::Done(T::new(\n                            channel_id,\n                            start,\n                            body.clone(),", ["C03"]),
 ("c03-delivery-wrong-channel-id", "src/io_loop/content_collector.rs", "        Delivery::new(channel_id, start, buf, properties)\n    }\n}\n\nimpl ContentType for Return", "        Delivery::new(channel_id.wrapping_add(0) ^ 0, start, buf, properties)\n    }\n}\n\nimpl ContentType for Return", []),
 ("c03-redelivered-dropped", "src/delivery.rs", "redelivered: deliver.redelivered,", "redelivered: false,", ["C03"]),
 ("c03-get-message-count", "src/io_loop/content_collector.rs", "let message_count = get_ok.message_count;", "let message_count = get_ok.message_count.saturating_sub(1);", ["C03"]),
 ("c04-generic-ack-wrong-slot", "src/io_loop/connection_state.rs", "                let slot = slot_get(inner, n)?;\n                trace!(\n                    \"trying to send method to client for channel {}: {:?}\",", "                let slot = slot_get(inner, 1)?;\n                trace!(\n                    \"trying to send method to client for channel {}: {:?}\",", ["C04"]),
 ("c04-purge-count", "src/channel.rs", "        self.call::<_, QueuePurgeOk>(purge)\n            .map(|ok| ok.message_count)", "        self.call::<_, QueuePurgeOk>(purge)\n            .map(|ok| ok.message_count.min(1000))", ["C04"]),
 ("c04-declare-counts-swapped", "src/channel.rs", "        let ok = self.call::<_, QueueDeclareOk>(declare)?;\n        Ok(Queue::new(\n            self,\n            ok.queue,\n            Some(ok.message_count),\n            Some(ok.consumer_count),\n        ))\n    }\n\n    /// Asynchronously declare", "        let ok = self.call::<_, QueueDeclareOk>(declare)?;\n        Ok(Queue::new(\n            self,\n            ok.queue,\n            Some(ok.consumer_count),\n            Some(ok.message_count),\n        ))\n    }\n\n    /// Asynchronously declare", ["C04", "C12"]),
 ("c05-close-result-before-join", "src/connection.rs", "            join_handle.join().map_err(|_| Error::IoThreadPanic)??;\n\n            // join ended cleanly; return the result of closing the connection.\n            close_result", "            let joined = join_handle.join().map_err(|_| Error::IoThreadPanic)?;\n            close_result?;\n            joined", ["C05"]),
 ("c05-write-error-as-wouldblock", "src/io_loop/mod.rs", "                    _ => return Err(err).context(IoErrorWritingSocketSnafu),", "                    io::ErrorKind::BrokenPipe => return Ok(()),\n                    _ => return Err(err).context(IoErrorWritingSocketSnafu),", ["C05", "C01"]),
 ("c06-size-pos", "src/frame_buffer.rs", "const AMQP_FRAME_SIZE_POS: std::ops::Range<usize> = 3..7;", "const AMQP_FRAME_SIZE_POS: std::ops::Range<usize> = 3..7;\n    #[allow(dead_code)]\n    const UNUSED: usize = 0;", []),
 ("c06-advance-before-handler", "src/frame_buffer.rs", "                    handler(frame)?;\n                    self.buf.advance(frame_size);", "                    self.buf.advance(frame_size);\n                    handler(frame)?;", []),
 ("c06-no-rest-check", "src/frame_buffer.rs", "            if rest.is_empty() {\n                return Ok(frame);\n            }", "            let _ = rest;\n            return Ok(frame);", []),
 ("c06-size-plus-7", "src/frame_buffer.rs", "Some(size as usize + 8)", "Some(size as usize + 7)", ["C06"]),
 ("c07-exception-without-seal", "src/io_loop/connection_state.rs", "        inner.push_method(0, AmqpConnection::Close(close));\n        inner.seal_writes();\n        *self = ConnectionState::ClientException;", "        inner.push_method(0, AmqpConnection::Close(close));\n        *self = ConnectionState::ClientException;", ["C07"]),
 ("c07-codes-swapped", "src/io_loop/connection_state.rs", "                let text = format!(\"illegal channel {} method {:?}\", n, method);\n                self.client_exception(inner, AMQPHardError::NOTALLOWED, text)?;", "                let text = format!(\"illegal channel {} method {:?}\", n, method);\n                self.client_exception(inner, AMQPHardError::NOTIMPLEMENTED, text)?;", ["C07"]),
 ("c07-unknown-tag-ignored", "src/io_loop/connection_state.rs", "            // Server sending content body as part of a deliver.\n            AMQPFrame::Body(n, body) => {\n                let slot = slot_get_mut(inner, n)?;\n                if let Some(collected) = slot.collector.collect_body(body)? {\n                    match collected {\n                        CollectorResult::Delivery((consumer_tag, delivery)) => {\n                            let tx =\n                                slot.consumers\n                                    .get(&consumer_tag)\n                                    .context(UnknownConsumerTagSnafu {\n                                        channel_id: n,\n                                        consumer_tag,\n                                    })?;\n                            send(tx, ConsumerMessage::Delivery(delivery))?;", "            // Server sending content body as part of a deliver.\n            AMQPFrame::Body(n, body) => {\n                let slot = slot_get_mut(inner, n)?;\n                if let Some(collected) = slot.collector.collect_body(body)? {\n                    match collected {\n                        CollectorResult::Delivery((consumer_tag, delivery)) => {\n                            if let Some(tx) = slot.consumers.get(&consumer_tag) {\n                                send(tx, ConsumerMessage::Delivery(delivery))?;\n                            }", ["C07"]),
 ("c08-no-seal-on-client-close", "src/io_loop/mod.rs", "            IoLoopMessage::ConnectionClose(buf) => {\n                self.outbuf.append(buf);\n                self.seal_writes();", "            IoLoopMessage::ConnectionClose(buf) => {\n                self.outbuf.append(buf);", ["C08"]),
 ("c08-done-before-flush", "src/io_loop/mod.rs", "                    \"writes should be sealed after getting a server close request\"\n                );\n                !self.inner.has_data_to_write()\n            }\n        }\n    }\n\n    fn run_io_loop", "                    \"writes should be sealed after getting a server close request\"\n                );\n                true\n            }\n        }\n    }\n\n    fn run_io_loop", ["C08", "C05"]),
 ("c08-closeok-after-seal", "src/io_loop/connection_state.rs", "                inner.push_method(0, AmqpConnection::CloseOk(ConnectionCloseOk {}));\n                inner.seal_writes();\n                let reply_code = close.reply_code;", "                inner.seal_writes();\n                inner.push_method(0, AmqpConnection::CloseOk(ConnectionCloseOk {}));\n                let reply_code = close.reply_code;", ["C08"]),
 ("c08-wrong-variant-to-channels", "src/io_loop/connection_state.rs", "                    send(&slot.tx, Err(Error::ClientClosedConnection))?;", "                    send(&slot.tx, Err(Error::ClientClosedChannel))?;", ["C08"]),
 ("c09-drain-on-channel-close", "src/io_loop/connection_state.rs", "                let mut slot = slot_remove(inner, n)?;\n                let make_err = || Error::ServerClosedChannel {", "                let mut slot = slot_remove(inner, n)?;\n                for _ in inner.chan_slots.drain() {}\n                let make_err = || Error::ServerClosedChannel {", ["C09"]),
 ("c09-closeok-on-channel0", "src/io_loop/connection_state.rs", "                inner.push_method(n, AmqpChannel::CloseOk(ChannelCloseOk {}));", "                inner.push_method(0, AmqpChannel::CloseOk(ChannelCloseOk {}));", ["C09"]),
 ("c09-consumers-not-notified", "src/io_loop/connection_state.rs", "                send(&slot.tx, Err(make_err()))?;\n                for (_, tx) in slot.consumers.drain() {\n                    send(&tx, ConsumerMessage::ServerClosedChannel(make_err()))?;\n                }", "                send(&slot.tx, Err(make_err()))?;\n                slot.consumers.clear();", ["C09", "C11"]),
 ("c10-ge-channel-max", "src/io_loop/channel_slots.rs", "if channel_id == 0 || channel_id > self.channel_max {", "if channel_id == 0 || channel_id >= self.channel_max {", ["C10"]),
 ("c10-remove-forgets-freed", "src/io_loop/channel_slots.rs", "        let entry = self.slots.remove(&channel_id)?;\n        self.freed_channel_ids.insert(channel_id);", "        let entry = self.slots.remove(&channel_id)?;", ["C10"]),
 ("c10-alloc-no-rollback", "src/io_loop/mod.rs", "                    // send failed - clear the allocated channel\n                    self.chan_slots.remove(handle.channel_id());", "                    // send failed - clear the allocated channel\n                    let _ = handle;", []),
 ("c11-cancelok-although-nowait", "src/io_loop/connection_state.rs", "                if !cancel.nowait {\n                    inner.push_method(n, AmqpBasic::CancelOk(CancelOk { consumer_tag }));\n                }", "                inner.push_method(n, AmqpBasic::CancelOk(CancelOk { consumer_tag }));", ["C11"]),
 ("c11-cancel-flag-not-set", "src/consumer.rs", "        self.cancelled.set(true);\n        self.channel.basic_cancel(&self)", "        self.channel.basic_cancel(&self)", ["C11", "C12"]),
 ("c11-wrong-terminal-on-client-channel-close", "src/io_loop/connection_state.rs", "                        send(&tx, ConsumerMessage::ClientClosedChannel)?;", "                        send(&tx, ConsumerMessage::ClientCancelled)?;", ["C11"]),
 ("c12-exchange-nowait-passive-swapped", "src/channel.rs", "AmqpExchange::Declare(options.into_declare(type_, exchange.clone(), false, true));", "AmqpExchange::Declare(options.into_declare(type_, exchange.clone(), true, false));", ["C12"]),
 ("c12-bind-to-destination-swapped", "src/exchange.rs", "        self.channel\n            .exchange_bind(destination.name(), self.name(), routing_key, arguments)", "        self.channel\n            .exchange_bind(self.name(), destination.name(), routing_key, arguments)", ["C12"]),
 ("c12-nack-all-requeue-dropped", "src/channel.rs", "            delivery_tag: 0,\n            multiple: true,\n            requeue,\n        }))", "            delivery_tag: 0,\n            multiple: true,\n            requeue: false,\n        }))", ["C12"]),
 ("c12-ack-multiple-flag", "src/delivery.rs", "        channel.basic_ack(self, true)", "        channel.basic_ack(self, false)", ["C12"]),
 ("c13-clear-handler-on-send", "src/io_loop/connection_state.rs", "    let confirm = if let Some(tx) = &slot.pub_confirm_handler {\n        match tx.try_send(confirm) {\n            Ok(()) => return,", "    let confirm = if let Some(tx) = slot.pub_confirm_handler.take() {\n        match tx.try_send(confirm) {\n            Ok(()) => return,", ["C13"]),
 ("c13-ack-as-nack", "src/io_loop/connection_state.rs", "                try_send_confirm(slot, Confirm::Ack(confirm));", "                try_send_confirm(slot, Confirm::Nack(confirm));", ["C13"]),
 ("c13-multiple-dropped", "src/io_loop/connection_state.rs", "                    delivery_tag: nack.delivery_tag,\n                    multiple: nack.multiple,", "                    delivery_tag: nack.delivery_tag,\n                    multiple: false,", ["C13"]),
 ("c14-exact-ge", "src/confirm.rs", "        if payload.delivery_tag == self.parent.expected {", "        if payload.delivery_tag <= self.parent.expected {", ["C14"]),
 ("c14-get-not-remove", "src/confirm.rs", "            self.next = self.parent.out_of_order.remove(&self.parent.expected);\n            return Some((self.to_confirm)(payload.delivery_tag));", "            self.next = self.parent.out_of_order.get(&self.parent.expected).cloned();\n            return Some((self.to_confirm)(payload.delivery_tag));", []),
 ("c15-max-for-min-heartbeat", "src/connection_options.rs", "let heartbeat = u16::min(tune.heartbeat, self.heartbeat);", "let heartbeat = u16::max(tune.heartbeat, self.heartbeat);", ["C15"]),
 ("c15-promote-one-side", "src/connection_options.rs", "let frame_max1 = promote_0_u32(self.frame_max);", "let frame_max1 = self.frame_max;", ["C15"]),
 ("c15-floor-le", "src/connection_options.rs", "if frame_max < u32::from(FRAME_MIN_SIZE) {", "if frame_max <= u32::from(FRAME_MIN_SIZE) {", ["C15"]),
 ("c15-channel-max-from-server", "src/io_loop/mod.rs", "let channel_max = tune_ok.channel_max;", "let channel_max = if tune_ok.channel_max == u16::max_value() { tune_ok.channel_max } else { tune_ok.channel_max + 1 };", ["C15"]),
 ("c16-mechanism-contains", "src/connection_options.rs", "server.split(' ').any(|s| s == client)", "server.contains(client)", ["C16"]),
 ("c16-no-capabilities", "src/connection_options.rs", "        set_cap(\"connection.blocked\");", "", ["C16"]),
 ("c16-timeout-not-cleared", "src/io_loop/mod.rs", "        self.connection_timeout = None;\n        match state {", "        match state {", []),
 ("c17-factor-3", "src/io_loop/heartbeat_timers.rs", "const MAX_MISSED_SERVER_HEARTBEATS: u32 = 2;", "const MAX_MISSED_SERVER_HEARTBEATS: u32 = 3;", ["C17"]),
 ("c17-rx-tx-swapped", "src/io_loop/heartbeat_timers.rs", "        let tx = Heartbeat::start(HeartbeatKind::Tx, interval, timer);", "        let tx = Heartbeat::start(HeartbeatKind::Tx, MAX_MISSED_SERVER_HEARTBEATS * interval, timer);", ["C17"]),
 ("c17-no-tx-stamp", "src/io_loop/mod.rs", "                    self.heartbeats.record_tx_activity();\n                    n", "                    n", []),
 ("c17-heartbeat-when-busy", "src/io_loop/mod.rs", "                        if self.outbuf.is_empty() {\n                            debug!(\"sending heartbeat\");", "                        if true {\n                            debug!(\"sending heartbeat\");", []),
 ("c18-deregister-channel0", "src/io_loop/mod.rs", "                debug!(\"passed high water mark for buffered writes; blocking channels internally\",);\n                self.inner.deregister_nonzero_channels(&self.poll)?;", "                debug!(\"passed high water mark for buffered writes; blocking channels internally\",);\n                self.inner.deregister_nonzero_channels(&self.poll)?;\n                self.poll.deregister(stream).context(DeregisterWithPollHandleSnafu)?;", ["C18"]),
 ("c18-flag-not-reset", "src/io_loop/mod.rs", "                self.inner.reregister_nonzero_channels(&self.poll)?;\n                listening_to_channels = true;", "                self.inner.reregister_nonzero_channels(&self.poll)?;", ["C18"]),
 ("c18-high-water-ge-low", "src/io_loop/mod.rs", "if listening_to_channels && self.inner.outbuf.len() > self.buffered_writes_high_water {", "if listening_to_channels && self.inner.outbuf.len() > self.buffered_writes_high_water.saturating_mul(64) {", ["C18"]),
 ("c19-ports-swapped", "src/connection.rs", "url.set_port(Some(url.port().unwrap_or(5672)))", "url.set_port(Some(url.port().unwrap_or(5671)))", []),
 ("c19-vhost-not-decoded", "src/connection.rs", "options = options.virtual_host(percent_decode(vhost));", "options = options.virtual_host(vhost);", []),
 ("c19-timeout-seconds", "src/connection.rs", "Some(Duration::from_millis(v))", "Some(Duration::from_secs(v))", []),
 ("c19-channel-max-into-heartbeat", "src/connection.rs", "                    options = options.channel_max(v);", "                    options = options.heartbeat(v);", []),
 ("c20-channel-wakeup-error", "src/io_loop/mod.rs", "                    // the dropped channel will propogate an appropriate message back out to\n                    // the channel handle.\n                    return Ok(());", "                    // the dropped channel will propogate an appropriate message back out to\n                    // the channel handle.\n                    return EventLoopClientDroppedSnafu.fail();", ["C20", "C09"]),
 ("c20-alloc-after-close-answers", "src/io_loop/mod.rs", "            Token(0) => match &state {\n                ConnectionState::Steady(ch0_slot) => {\n                    self.inner.handle_channel0_readable(ch0_slot)?\n                }\n                // The channel 0 slot was dropped", "            Token(0) => match &state {\n                ConnectionState::Steady(ch0_slot) => {\n                    self.inner.handle_channel0_readable(ch0_slot)?\n                }\n                ConnectionState::ServerClosing(_) => return EventLoopClientDroppedSnafu.fail(),\n                // The channel 0 slot was dropped", ["C20"]),
]


def sh(cmd, cwd=None, timeout=3600):
    p = subprocess.run(cmd, shell=True, cwd=cwd, stdout=subprocess.PIPE, stderr=subprocess.STDOUT, text=True, timeout=timeout)
    return p.returncode, p.stdout


def main():
    want = sys.argv[1:]
    rows = []
    rc, o = sh("git status --porcelain", REPO)
    if o.strip():
        print("refusing: /repo has local changes")
        sys.exit(2)
    for name, f, old, new, props in M:
        if want and not any(w in name for w in want):
            continue
        path = os.path.join(REPO, f)
        s = open(path).read()
        if s.count(old) != 1:
            rows.append((name, "NOT-APPLICABLE (pattern count %d)" % s.count(old), "", ""))
            print(rows[-1])
            continue
        open(path, "w").write(s.replace(old, new))
        try:
            rc, o = sh("cargo build --offline 2>&1 | tail -3", REPO)
            rc, o = sh("cargo test --workspace --offline 2>&1 | grep -E 'test result|error(\\[|:)' | head -5", REPO)
            ok = o.count("test result: ok") >= 2 and "FAILED" not in o and "error" not in o
            if not ok:
                # the two wall-clock heartbeat tests are flaky on a busy machine: retry once
                rc, o = sh("cargo test --workspace --offline 2>&1 | grep -E 'test result|error(\\[|:)' | head -5", REPO)
                ok = o.count("test result: ok") >= 2 and "FAILED" not in o and "error" not in o
            if not ok:
                rows.append((name, "killed by the repository's own suite / does not compile", "", o.strip().replace("\n", " | ")[:160]))
                print(rows[-1])
                continue
            det, miss, detail = [], [], []
            targets = props if props else [name[:3].upper()]
            for pid in targets:
                rc, o = sh("./check %s quick" % pid, "/verif")
                first = [l for l in o.splitlines() if l.startswith("  [")][:1]
                if rc == 1:
                    det.append(pid)
                    detail.append("%s: %s" % (pid, first[0].strip()[:140] if first else ""))
                elif rc == 0:
                    miss.append(pid)
                else:
                    miss.append(pid + "(machinery)")
            rows.append((name, "suite passes", "caught by " + ",".join(det) if det else "NOT CAUGHT", "; ".join(detail) + (" | missed by " + ",".join(miss) if miss and det else "")))
            print(rows[-1])
        finally:
            sh("git checkout -- .", REPO)
            sh("git checkout -- evidence; rm -rf replays", "/verif")
    with open("/verif/mutation_campaign.md", "a") as out:
        out.write("\n## run %s\n\n| mutant | suite | verdict | detail |\n|---|---|---|---|\n" % time.strftime("%Y-%m-%d %H:%M"))
        for r in rows:
            out.write("| %s | %s | %s | %s |\n" % tuple(str(x).replace("|", "/") for x in r))


if __name__ == "__main__":
    main()
