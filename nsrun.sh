#!/bin/bash
# nsrun.sh <patch file | -> <command...>
# Runs <command> in /verif inside a private mount namespace in which /repo is a scratch clone of
# /repo's HEAD with <patch file> applied, and /verif/{harness,target,out,evidence,replays} are scratch
# copies. Nothing in the real /repo or /verif is touched; everything is removed afterwards.
# Used to evaluate seeded changes while /repo itself must stay as it is.
set -e
patch="$1"; shift
d=$(mktemp -d /tmp/ns.XXXXXX)
trap 'rm -rf "$d"' EXIT
git clone -q /repo "$d/repo"
if [ "$patch" != "-" ]; then git -C "$d/repo" apply "$patch"; fi
mkdir -p /verif/replays /verif/out
cp -a /verif/target "$d/target"; cp -a /verif/harness "$d/harness"
mkdir "$d/out" "$d/replays"; cp -a /verif/evidence "$d/evidence"
unshare -m bash -c "mount --bind $d/repo /repo && mount --bind $d/target /verif/target && mount --bind $d/harness /verif/harness && mount --bind $d/out /verif/out && mount --bind $d/evidence /verif/evidence && mount --bind $d/replays /verif/replays && cd /verif && $*"
