#!/bin/bash
# Re-run every seeded change against the quick check of the property it breaks (in a private
# mount namespace, see nsrun.sh). Prints one line per change; exit 1 if any is no longer reported.
# usage: seeded_regress.sh [glob] [-j N]   (N changes at a time, default 4: each run has its own
# scratch copies of /repo, the harness and the build output, so they do not interfere)
cd /verif
glob="*"; jobs=4
while [ -n "$1" ]; do
  case "$1" in
    -j) jobs=$2; shift; shift;;
    *) glob=$1; shift;;
  esac
done
one() {
  d=$1; id=$(basename "$d"); prop=${id:0:3}
  out=$(./nsrun.sh /verif/$d/patch.diff "./check $prop quick" 2>&1)
  line=$(echo "$out" | grep -E "^  \[" | head -1 | cut -c1-150)
  if echo "$out" | grep -q "^VIOLATION property=$prop"; then echo "$id caught: $line"; else echo "$id NOT CAUGHT ($(echo "$out" | grep -E "^$prop quick|MACHINERY|error" | head -2 | tr '\n' ' '))"; fi
}
export -f one
log=$(mktemp /tmp/seeded_regress.XXXXXX)
ls -d seeded/*/ | while read d; do id=$(basename "$d"); [[ "$id" == $glob ]] && echo "$d"; done | xargs -P "$jobs" -I{} bash -c 'one {}' | tee "$log"
bad=0; grep -q "NOT CAUGHT" "$log" && bad=1
rm -f "$log"
exit $bad
