#!/bin/bash
# Re-run every seeded change against the quick check of the property it breaks (in a private
# mount namespace, see nsrun.sh). Prints one line per change; exit 1 if any is no longer reported.
cd /verif
bad=0
for d in seeded/*/; do
  id=$(basename "$d"); prop=${id:0:3}
  [ -n "$1" ] && [[ "$id" != $1 ]] && continue
  out=$(./nsrun.sh /verif/$d/patch.diff "./check $prop quick" 2>&1)
  line=$(echo "$out" | grep -E "^  \[" | head -1 | cut -c1-150)
  if echo "$out" | grep -q "^VIOLATION property=$prop"; then echo "$id caught: $line"; else echo "$id NOT CAUGHT ($(echo "$out" | grep -E "^$prop quick|MACHINERY|error" | head -2 | tr '\n' ' '))"; bad=1; fi
done
exit $bad
