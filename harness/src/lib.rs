//! Shared pieces of the amiquip verification harness.
pub mod report;
pub mod wire;
pub mod par;
pub mod sim;
