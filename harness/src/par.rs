//! Tiny fork-join helper over std threads.
use std::sync::atomic::{AtomicUsize, Ordering};
use std::sync::Mutex;

pub fn n_workers() -> usize {
    std::env::var("VERIF_WORKERS")
        .ok()
        .and_then(|s| s.parse().ok())
        .unwrap_or_else(|| std::thread::available_parallelism().map(|n| n.get()).unwrap_or(4))
        .max(1)
}

/// Run `f(i)` for every i in 0..n on up to `n_workers()` threads (dynamic distribution),
/// returning the results in index order.
pub fn par_map<T: Send, F: Fn(usize) -> T + Sync>(n: usize, f: F) -> Vec<T> {
    let next = AtomicUsize::new(0);
    let out: Mutex<Vec<Option<T>>> = Mutex::new((0..n).map(|_| None).collect());
    let w = n_workers().min(n.max(1));
    std::thread::scope(|s| {
        for _ in 0..w {
            s.spawn(|| loop {
                let i = next.fetch_add(1, Ordering::SeqCst);
                if i >= n {
                    break;
                }
                let r = f(i);
                out.lock().unwrap()[i] = Some(r);
            });
        }
    });
    out.into_inner().unwrap().into_iter().map(|o| o.unwrap()).collect()
}
