//! C14: ConfirmSmoother, public API only.
use crate::Args;
use amiquip::{Confirm, ConfirmPayload, ConfirmSmoother};
use serde_json::{json, Value};
use std::collections::HashSet;
use vh::par::par_map;
use vh::report::Part;

#[derive(Clone, Copy, Debug, PartialEq, Eq, Hash)]
pub struct Sym {
    pub tag_off: u8, // tag = start + tag_off
    pub multiple: bool,
    pub ack: bool,
}

fn confirm(start: u64, s: Sym) -> Confirm {
    let p = ConfirmPayload {
        delivery_tag: start.wrapping_add(s.tag_off as u64),
        multiple: s.multiple,
    };
    if s.ack {
        Confirm::Ack(p)
    } else {
        Confirm::Nack(p)
    }
}

fn sym_json(start: u64, s: Sym) -> Value {
    json!([start.wrapping_add(s.tag_off as u64).to_string(), s.multiple, if s.ack {"ack"} else {"nack"}])
}

/// Reference model: which tags have been confirmed (and how), how many were emitted.
#[derive(Clone, Default)]
struct Ref {
    // outcome per tag offset: None = unconfirmed, Some(ack)
    conf: Vec<Option<bool>>,
    emitted: usize,
}

impl Ref {
    fn new(n: usize) -> Ref {
        Ref {
            conf: vec![None; n],
            emitted: 0,
        }
    }
    /// Apply a confirmation the first-cover way; returns the expected output of this call.
    fn apply(&mut self, s: Sym) -> Vec<(u8, bool)> {
        let t = s.tag_off as usize;
        if s.multiple {
            for i in 0..=t.min(self.conf.len().saturating_sub(1)) {
                if t < self.conf.len() || i < self.conf.len() {
                    if self.conf[i].is_none() {
                        self.conf[i] = Some(s.ack);
                    }
                }
            }
        } else if t < self.conf.len() && self.conf[t].is_none() {
            self.conf[t] = Some(s.ack);
        }
        let mut out = Vec::new();
        while self.emitted < self.conf.len() {
            match self.conf[self.emitted] {
                Some(ack) => {
                    out.push((self.emitted as u8, ack));
                    self.emitted += 1;
                }
                None => break,
            }
        }
        out
    }
    fn key(&self) -> u64 {
        let mut k = self.emitted as u64;
        for c in &self.conf {
            k = k * 3
                + match c {
                    None => 0,
                    Some(true) => 1,
                    Some(false) => 2,
                };
        }
        k
    }
}

fn decode_out(start: u64, c: &Confirm) -> (u64, bool, bool) {
    match c {
        Confirm::Ack(p) => (p.delivery_tag.wrapping_sub(start), p.multiple, true),
        Confirm::Nack(p) => (p.delivery_tag.wrapping_sub(start), p.multiple, false),
    }
}

/// Compare one call's actual output with the reference; returns a violation kind.
fn compare(start: u64, got: &[Confirm], want: &[(u8, bool)]) -> Option<&'static str> {
    for (i, g) in got.iter().enumerate() {
        let (off, multiple, ack) = decode_out(start, g);
        if multiple {
            return Some("output-marked-multiple");
        }
        match want.get(i) {
            None => return Some("emitted-too-early-or-extra"),
            Some((woff, wack)) => {
                if off != *woff as u64 {
                    return Some("wrong-tag-or-order");
                }
                if ack != *wack {
                    return Some("wrong-outcome");
                }
            }
        }
    }
    if got.len() < want.len() {
        return Some("emitted-too-late-or-missing");
    }
    None
}

struct Walk<'a> {
    start: u64,
    n: usize,
    part: &'a mut Part,
    states: HashSet<u64>,
    with_drops: bool,
    ctor: &'static str,
}

/// The three public ways of making a smoother ("new" and "default" start at tag 1).
fn make(start: u64, ctor: &str) -> ConfirmSmoother {
    match ctor {
        "new" => ConfirmSmoother::new(),
        "default" => ConfirmSmoother::default(),
        _ => ConfirmSmoother::with_expected_delivery_tag(start),
    }
}

impl<'a> Walk<'a> {
    /// Enumerate all valid histories from the current node.
    fn valid(&mut self, sm: &ConfirmSmoother, r: &Ref, hist: &mut Vec<Sym>, drops: &mut Vec<usize>) {
        self.states.insert(r.key());
        let unconfirmed: Vec<usize> = (0..self.n).filter(|i| r.conf[*i].is_none()).collect();
        if unconfirmed.is_empty() {
            self.part.evaluations += 1;
            if hist.iter().any(|s| s.multiple) && hist.iter().any(|s| !s.ack) {
                self.part.distinct_nontrivial += 1;
            }
            if self.part.samples.len() < 3 && hist.len() >= 3 {
                let h: Vec<Value> = hist.iter().map(|s| sym_json(self.start, *s)).collect();
                self.part.sample(json!({"kind":"valid-history","start":self.start.to_string(),"history":h,"drops":drops.clone()}));
            }
            return;
        }
        for &t in &unconfirmed {
            for multiple in [false, true] {
                for ack in [true, false] {
                    let s = Sym {
                        tag_off: t as u8,
                        multiple,
                        ack,
                    };
                    let mut r2 = r.clone();
                    let want = r2.apply(s);
                    // full consumption first
                    let pulls: Vec<usize> = if self.with_drops {
                        (0..=want.len() + 1).rev().collect()
                    } else {
                        vec![usize::MAX]
                    };
                    for pull in pulls {
                        let mut sm2 = sm.clone();
                        let got: Vec<Confirm> = {
                            let it = sm2.process(confirm(self.start, s));
                            if pull == usize::MAX {
                                it.collect()
                            } else {
                                it.take(pull).collect()
                            }
                        };
                        self.part.transitions += 1;
                        hist.push(s);
                        drops.push(if pull == usize::MAX { want.len() + 1 } else { pull });
                        let want_prefix: Vec<(u8, bool)> = if pull == usize::MAX {
                            want.clone()
                        } else {
                            want.iter().cloned().take(pull).collect()
                        };
                        if let Some(kind) = compare(self.start, &got, &want_prefix) {
                            let h: Vec<Value> = hist.iter().map(|s| sym_json(self.start, *s)).collect();
                            self.part.violation(
                                &format!("smoother:{}", kind),
                                format!(
                                    "start={} history={} drops={:?}: last call yielded {:?}, expected tags(off,ack) {:?}",
                                    self.start,
                                    serde_json::to_string(&h).unwrap(),
                                    drops,
                                    got,
                                    want_prefix
                                ),
                                json!({"engine":"seqx","check":"smoother","start":self.start.to_string(),"ctor":self.ctor,"n":self.n,"history":h,"drops":drops.clone()}),
                            );
                        } else {
                            self.valid(&sm2, &r2, hist, drops);
                        }
                        hist.pop();
                        drops.pop();
                    }
                }
            }
        }
    }
}

/// Safety half over arbitrary sequences.
struct Arb<'a> {
    start: u64,
    n: usize, // tags start..start+n may be named (n = N+1)
    depth: usize,
    part: &'a mut Part,
    states: HashSet<(u64, u64)>,
}

impl<'a> Arb<'a> {
    fn go(&mut self, sm: &ConfirmSmoother, covered: u64, emitted: u64, hist: &mut Vec<Sym>) {
        self.states.insert((covered, emitted));
        if hist.len() == self.depth {
            self.part.evaluations += 1;
            // non-trivial: contains a duplicate or stale confirmation
            self.part.distinct_nontrivial += 1;
            return;
        }
        for t in 0..self.n {
            for multiple in [false, true] {
                for ack in [true, false] {
                    let s = Sym {
                        tag_off: t as u8,
                        multiple,
                        ack,
                    };
                    let mut cov = covered;
                    if multiple {
                        cov |= (1u64 << (t + 1)) - 1;
                    } else {
                        cov |= 1u64 << t;
                    }
                    let mut sm2 = sm.clone();
                    let got: Vec<Confirm> = sm2.process(confirm(self.start, s)).collect();
                    self.part.transitions += 1;
                    hist.push(s);
                    let mut em = emitted;
                    let mut bad: Option<&'static str> = None;
                    for g in &got {
                        let (off, mult, _) = decode_out(self.start, g);
                        if mult {
                            bad = Some("output-marked-multiple");
                            break;
                        }
                        if off != em {
                            bad = Some("not-consecutive");
                            break;
                        }
                        if off >= 64 || cov & (1u64 << off) == 0 {
                            bad = Some("emitted-unconfirmed-tag");
                            break;
                        }
                        em += 1;
                    }
                    if let Some(kind) = bad {
                        let h: Vec<Value> = hist.iter().map(|s| sym_json(self.start, *s)).collect();
                        self.part.violation(
                            &format!("smoother-safety:{}", kind),
                            format!("start={} sequence={}: last call yielded {:?} (emitted before: {})", self.start, serde_json::to_string(&h).unwrap(), got, emitted),
                            json!({"engine":"seqx","check":"smoother","mode":"arbitrary","start":self.start.to_string(),"n":self.n,"history":h}),
                        );
                    } else {
                        self.go(&sm2, cov, em, hist);
                    }
                    hist.pop();
                }
            }
        }
    }
}

pub fn run(args: &Args) {
    let thorough = args.thorough();
    let mut part = Part::new("C14", "smoother", "seqx", "model_checking", &args.tier);
    part.rule = "every valid confirmation history (each tag confirmed once, by a single or by a multiple naming a still-unconfirmed tag; multiple flag and ack/nack free) for N tags and each start tag (smoother made by with_expected_delivery_tag; for start 1 and N<=4 also by new() and by Default); for N<=4 additionally every early-drop pattern of the returned iterators; plus every arbitrary sequence over tags 1..=N+1 x multiple x outcome to the stated depth (safety only). Non-trivial: history contains a multiple and a nack (valid part) / every arbitrary sequence.".into();
    let max_n = if thorough { 7 } else { 6 };
    let starts: Vec<u64> = vec![0, 1, 2, 1000, (1u64 << 32) + 1, u64::MAX - 8];
    part.bounds.insert("max_tags".into(), json!(max_n));
    part.bounds.insert("start_tags".into(), json!(starts.iter().map(|s| s.to_string()).collect::<Vec<_>>()));
    part.bounds.insert("drop_patterns_upto_tags".into(), json!(4));
    let arb_depth = if thorough { 6 } else { 5 };
    part.bounds.insert("arbitrary_depth".into(), json!(arb_depth));
    part.bounds.insert("arbitrary_tags".into(), json!(4));

    // work items: (mode, start, n, first symbol index)
    #[derive(Clone)]
    enum Item {
        Valid { start: u64, n: usize, drops: bool, ctor: &'static str },
        Arb { start: u64, first: usize },
    }
    let mut items = Vec::new();
    for &start in &starts {
        for n in 1..=max_n {
            // the biggest N only for start 1 and the overflow-adjacent start
            if n == max_n && !(start == 1 || start == u64::MAX - 8) {
                continue;
            }
            items.push(Item::Valid { start, n, drops: false, ctor: "with" });
            if n <= 4 {
                items.push(Item::Valid { start, n, drops: true, ctor: "with" });
            }
            // the other two ways of making a smoother start at tag 1 as well
            if start == 1 && n <= 4 {
                for ctor in ["new", "default"] {
                    items.push(Item::Valid { start, n, drops: n <= 3, ctor });
                }
            }
        }
    }
    for &start in &[1u64, 1000] {
        for first in 0..16 {
            items.push(Item::Arb { start, first });
        }
    }
    let tier = args.tier.clone();
    let results: Vec<(Part, usize, String)> = par_map(items.len(), |i| {
        let mut p = Part::new("C14", "w", "seqx", "model_checking", &tier);
        match items[i].clone() {
            Item::Valid { start, n, drops, ctor } => {
                let mut w = Walk { start, n, part: &mut p, states: HashSet::new(), with_drops: drops, ctor };
                let sm = make(start, ctor);
                w.valid(&sm, &Ref::new(n), &mut Vec::new(), &mut Vec::new());
                let st = w.states.len();
                let label = format!("valid start={} ctor={} n={} drops={} histories={}", start, ctor, n, drops, p.evaluations);
                (p, st, label)
            }
            Item::Arb { start, first } => {
                let n = 4usize;
                let mut a = Arb { start, n, depth: arb_depth, part: &mut p, states: HashSet::new() };
                // fix the first symbol to split the work
                let t = first / 4;
                let multiple = (first / 2) % 2 == 1;
                let ack = first % 2 == 0;
                let s = Sym { tag_off: t as u8, multiple, ack };
                let mut sm = ConfirmSmoother::with_expected_delivery_tag(start);
                let got: Vec<Confirm> = sm.process(confirm(start, s)).collect();
                a.part.transitions += 1;
                let cov = if multiple { (1u64 << (t + 1)) - 1 } else { 1u64 << t };
                let mut em = 0u64;
                let mut ok = true;
                for g in &got {
                    let (off, mult, _) = decode_out(start, g);
                    if mult || off != em || cov & (1u64 << off) == 0 {
                        ok = false;
                    }
                    em += 1;
                }
                if !ok {
                    a.part.violation("smoother-safety:first-step", format!("start={} first symbol {:?} yielded {:?}", start, s, got), json!({"engine":"seqx","check":"smoother","mode":"arbitrary","start":start.to_string(),"n":n,"history":[sym_json(start,s)]}));
                } else {
                    let mut hist = vec![s];
                    a.go(&sm, cov, em, &mut hist);
                }
                let st = a.states.len();
                let label = format!("arbitrary start={} first={} sequences={}", start, first, p.evaluations);
                (p, st, label)
            }
        }
    });
    let mut per_item = Vec::new();
    for (p, st, label) in results {
        part.states += st as u64;
        per_item.push(label);
        part.merge(p);
    }
    part.traces_validated = part.evaluations;
    part.extra.insert("work_items".into(), json!(per_item));
    part.assumptions.push("a history containing tag u64::MAX itself is excluded (needs 2^64 publishes)".into());
    part.finish(args.out.as_deref());
}

pub fn replay(v: &Value) -> bool {
    let start: u64 = v["start"].as_str().unwrap().parse().unwrap();
    let n = v["n"].as_u64().unwrap_or(8) as usize;
    let arbitrary = v["mode"].as_str() == Some("arbitrary");
    let mut sm = make(start, v["ctor"].as_str().unwrap_or("with"));
    let mut r = Ref::new(n);
    let mut ok = true;
    let drops: Vec<usize> = v["drops"].as_array().map(|a| a.iter().map(|x| x.as_u64().unwrap() as usize).collect()).unwrap_or_default();
    let mut emitted = 0u64;
    for (i, h) in v["history"].as_array().unwrap().iter().enumerate() {
        let tag: u64 = h[0].as_str().unwrap().parse().unwrap();
        let s = Sym { tag_off: tag.wrapping_sub(start) as u8, multiple: h[1].as_bool().unwrap(), ack: h[2].as_str() == Some("ack") };
        let want = r.apply(s);
        let pull = drops.get(i).copied().unwrap_or(usize::MAX);
        let got: Vec<Confirm> = sm.process(confirm(start, s)).take(pull).collect();
        println!("process({:?}) -> {:?}", confirm(start, s), got);
        if arbitrary {
            for g in &got {
                let (off, mult, _) = decode_out(start, g);
                if mult || off != emitted {
                    println!("  SAFETY VIOLATION: not consecutive / multiple");
                    ok = false;
                }
                emitted += 1;
            }
        } else {
            let wp: Vec<(u8, bool)> = want.iter().cloned().take(pull).collect();
            if let Some(kind) = compare(start, &got, &wp) {
                println!("  VIOLATION ({}): expected (offset, ack) {:?}", kind, wp);
                ok = false;
            }
        }
    }
    ok
}
