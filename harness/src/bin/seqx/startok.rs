//! C16 (E1 part): `make_start_ok` over mechanism / locale lists x auth x information.
use crate::Args;
use amiquip::verif::probe::{open, start_ok};
use amiquip::{AmqpValue, Auth, ConnectionOptions, Error, FieldTable};
use amq_protocol::protocol::connection::Start;
use serde_json::{json, Value};
use vh::report::Part;

fn tokens() -> Vec<&'static str> {
    vec!["PLAIN", "AMQPLAIN", "EXTERNAL", "PLAINX", "XPLAIN", "plain", "en_US", "en_GB", "fr_FR", "en_US_x", "en"]
}

/// every list of up to `k` tokens joined by single spaces, plus the empty list and a few
/// lists with doubled / leading / trailing spaces
fn lists(k: usize, toks: &[&'static str]) -> Vec<String> {
    let mut out = vec![String::new()];
    let mut layer: Vec<Vec<&str>> = vec![vec![]];
    for _ in 0..k {
        let mut next = Vec::new();
        for l in &layer {
            for t in toks {
                let mut n = l.clone();
                n.push(*t);
                next.push(n);
            }
        }
        for n in &next {
            out.push(n.join(" "));
        }
        layer = next;
    }
    out.push(" PLAIN".into());
    out.push("PLAIN ".into());
    out.push("AMQPLAIN  PLAIN".into());
    out.push(" en_US".into());
    out.push("fr_FR  en_US".into());
    out
}

fn offers(list: &str, want: &str) -> bool {
    list.split(' ').any(|t| t == want)
}

pub fn run(args: &Args) {
    let mut part = Part::new("C16", "startok", "seqx", "exploration", &args.tier);
    part.rule = "make_start_ok for every mechanism list and every locale list of up to 2 (thorough 3) tokens over an 11-token alphabet (incl. PLAINX / XPLAIN / case variants, doubled and leading/trailing spaces) x auth {Plain default, Plain custom, External} x requested locale {en_US, fr_FR} x information {none, some}; expected by whitespace-token equality. Every combination is distinct.".into();
    let k = if args.thorough() { 3 } else { 2 };
    let toks = tokens();
    let mechs = lists(k, &toks);
    let locs = lists(2, &toks);
    part.bounds.insert("lists".into(), json!([mechs.len(), locs.len()]));
    let mut sp = FieldTable::new();
    sp.insert("product".into(), AmqpValue::LongString("x".into()));
    let auths = vec![Auth::default(), Auth::Plain { username: "u".into(), password: "p w".into() }, Auth::External];
    for (ai, auth) in auths.iter().enumerate() {
        for want_loc in ["en_US", "fr_FR"] {
            for info in [None, Some("hello".to_string())] {
                let options = ConnectionOptions::<Auth>::default().auth(auth.clone()).locale(want_loc).information(info.clone()).virtual_host("v");
                let mech = if ai == 2 { "EXTERNAL" } else { "PLAIN" };
                let resp = match ai {
                    0 => "\u{0}guest\u{0}guest".to_string(),
                    1 => "\u{0}u\u{0}p w".to_string(),
                    _ => String::new(),
                };
                for m in &mechs {
                    for l in &locs {
                        part.evaluations += 1;
                        part.distinct_nontrivial += 1;
                        let start = Start { version_major: 0, version_minor: 9, server_properties: sp.clone(), mechanisms: m.clone(), locales: l.clone() };
                        let r = start_ok(&options, start);
                        let case = json!({"auth": ai, "locale": want_loc, "info": info, "mechanisms": m, "locales": l});
                        let verdict: Option<String> = match (offers(m, mech), offers(l, want_loc), &r) {
                            (false, _, Err(Error::UnsupportedAuthMechanism { .. })) => None,
                            (true, false, Err(Error::UnsupportedLocale { .. })) => None,
                            (true, true, Ok((ok, props))) => {
                                let caps = match ok.client_properties.get("capabilities") {
                                    Some(AmqpValue::FieldTable(t)) => t.get("consumer_cancel_notify") == Some(&AmqpValue::Boolean(true)) && t.get("connection.blocked") == Some(&AmqpValue::Boolean(true)),
                                    _ => false,
                                };
                                let info_ok = match &info {
                                    Some(i) => ok.client_properties.get("information") == Some(&AmqpValue::LongString(i.clone())),
                                    None => !ok.client_properties.contains_key("information"),
                                };
                                if ok.mechanism != mech || ok.response != resp || ok.locale != want_loc || !caps || !info_ok || props != &sp {
                                    Some(format!("wrong StartOk {:?}", ok))
                                } else {
                                    None
                                }
                            }
                            (a, b, r) => Some(format!("offered mech {} locale {} but got {:?}", a, b, r.as_ref().map(|x| &x.0))),
                        };
                        if let Some(d) = verdict {
                            part.violation("startok:wrong", format!("{}: {}", case, d), json!({"engine":"seqx","check":"startok","case":case}));
                        }
                    }
                }
                let o = open(&options);
                if o.virtual_host != "v" || o.insist || !o.capabilities.is_empty() {
                    part.violation("startok:open", format!("{:?}", o), json!({"engine":"seqx","check":"startok","case":{}}));
                }
            }
        }
    }
    // Connection.Open carries the virtual host exactly as configured: nothing is decoded,
    // trimmed or normalised on the way (names with %-sequences, slashes, blanks, non-ASCII)
    for vh in ["/", "v", "sales%2Feu", "100%25", "%2F", "%zz", "50%", "a/b", "/lead", "trail/", " v ", "caf\u{e9}", "caf%C3%A9", "a+b", ""] {
        part.evaluations += 1;
        part.distinct_nontrivial += 1;
        let o = open(&ConnectionOptions::<Auth>::default().virtual_host(vh));
        if o.virtual_host != vh {
            part.violation("startok:open-vhost", format!("virtual_host({:?}) -> Connection.Open carries {:?}", vh, o.virtual_host), json!({"engine":"seqx","check":"startok","case":{"vhost":vh}}));
        }
    }
    part.sample(json!({"auth":0,"locale":"en_US","mechanisms":"AMQPLAIN PLAINX","locales":"fr_FR en_US"}));
    part.sample(json!({"auth":2,"locale":"fr_FR","mechanisms":"XPLAIN EXTERNAL","locales":"en_US_x fr_FR"}));
    part.finish(args.out.as_deref());
}

pub fn replay(v: &Value) -> bool {
    println!("case {} (re-run `seqx startok` to re-judge the whole table)", v["case"]);
    false
}
