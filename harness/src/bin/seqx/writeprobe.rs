//! C01 (E1 part): the outbound buffer and `write_to_stream` under every placement of a
//! bounded number of short accepts / would-blocks / errors, with frames queued between calls.
use crate::Args;
use amiquip::verif::probe::WriteProbe;
use amiquip::{Error, IoStream};
use amq_protocol::frame::AMQPFrame;
use amq_protocol::protocol::queue;
use amq_protocol::protocol::AMQPClass;
use mio::{Evented, Poll, PollOpt, Ready, Token};
use serde_json::{json, Value};
use std::io;
use vh::par::par_map;
use vh::report::Part;
use vh::wire::{frame_bytes, split_envelopes, PROTOCOL_HEADER};

#[derive(Clone, Copy, Debug, PartialEq, Eq)]
pub enum Cut {
    Short,
    WouldBlock,
    Error,
}

pub struct Sink {
    pub got: Vec<u8>,
    cuts: Vec<(usize, Cut)>,
    block_next: bool,
    fail_next: bool,
    pub blocked_last: bool,
}

impl io::Read for Sink {
    fn read(&mut self, _: &mut [u8]) -> io::Result<usize> {
        Err(io::ErrorKind::WouldBlock.into())
    }
}

impl io::Write for Sink {
    fn write(&mut self, buf: &[u8]) -> io::Result<usize> {
        self.blocked_last = false;
        if self.fail_next {
            self.fail_next = false;
            return Err(io::Error::new(io::ErrorKind::BrokenPipe, "injected"));
        }
        if self.block_next {
            self.block_next = false;
            self.blocked_last = true;
            return Err(io::ErrorKind::WouldBlock.into());
        }
        let pos = self.got.len();
        let mut limit = usize::MAX;
        let mut kind = None;
        for (p, k) in &self.cuts {
            if *p > pos && *p < limit {
                limit = *p;
                kind = Some(*k);
            }
        }
        let n = buf.len().min(limit.saturating_sub(pos));
        self.got.extend_from_slice(&buf[..n]);
        if self.got.len() == limit {
            match kind {
                Some(Cut::WouldBlock) => self.block_next = true,
                Some(Cut::Error) => self.fail_next = true,
                _ => {}
            }
        }
        Ok(n)
    }
    fn flush(&mut self) -> io::Result<()> {
        Ok(())
    }
}

impl Evented for Sink {
    fn register(&self, _: &Poll, _: Token, _: Ready, _: PollOpt) -> io::Result<()> {
        Ok(())
    }
    fn reregister(&self, _: &Poll, _: Token, _: Ready, _: PollOpt) -> io::Result<()> {
        Ok(())
    }
    fn deregister(&self, _: &Poll) -> io::Result<()> {
        Ok(())
    }
}

impl IoStream for Sink {}

fn frames() -> Vec<(&'static str, Vec<u8>)> {
    let hb = frame_bytes(&AMQPFrame::Heartbeat(0));
    let method = frame_bytes(&AMQPFrame::Method(
        1,
        AMQPClass::Queue(queue::AMQPMethod::Purge(queue::Purge { ticket: 0, queue: "q".into(), nowait: true })),
    ));
    let body = |n: usize| frame_bytes(&AMQPFrame::Body(2, (0..n).map(|i| (i * 13 + 1) as u8).collect()));
    vec![("heartbeat", hb), ("method", method), ("body40", body(40)), ("body4096", body(4096)), ("body9000", body(9000))]
}

/// program: frame indices with the write-call number before which each is queued
pub fn run_one(prog: &[(usize, usize)], cuts: &[(usize, Cut)]) -> Option<(String, String)> {
    let fr = frames();
    let mut probe = WriteProbe::new();
    let mut sink = Sink { got: Vec::new(), cuts: cuts.to_vec(), block_next: false, fail_next: false, blocked_last: false };
    let mut expected: Vec<u8> = PROTOCOL_HEADER.to_vec();
    let mut queued = 0usize;
    let mut call = 0usize;
    let has_error_cut = cuts.iter().any(|(_, k)| *k == Cut::Error);
    loop {
        for (f, at) in prog {
            if *at == call {
                let b = fr[*f].1.clone();
                expected.extend_from_slice(&b);
                // each handle hands over exactly one or more whole frames
                probe.queue(b);
                queued += 1;
            }
        }
        let r = match std::panic::catch_unwind(std::panic::AssertUnwindSafe(|| probe.write(&mut sink))) {
            Ok(r) => r,
            Err(e) => return Some(("write:panic".into(), format!("write_to_stream panicked: {}", crate::slots::panic_msg(&e)))),
        };
        call += 1;
        if sink.got.len() > expected.len() || sink.got[..] != expected[..sink.got.len()] {
            let at = sink.got.iter().zip(expected.iter()).position(|(a, b)| a != b).unwrap_or(expected.len());
            return Some(("write:bytes-differ".into(), format!("after write call {} the transport holds {} bytes, expected a prefix of {}; first difference at offset {}", call, sink.got.len(), expected.len(), at)));
        }
        match r {
            Ok(()) => {}
            Err(Error::IoErrorWritingSocket { .. }) if has_error_cut => {
                // transport failed: what was accepted must be header + whole frames prefix (checked above)
                return None;
            }
            Err(e) => return Some(("write:unexpected-error".into(), format!("write_to_stream returned {:?}", e))),
        }
        if sink.got.len() + probe.pending() != expected.len() {
            return Some(("write:lost-or-duplicated".into(), format!("after write call {}: accepted {} + pending {} != queued {}", call, sink.got.len(), probe.pending(), expected.len())));
        }
        if probe.pending() > 0 && !sink.blocked_last {
            return Some(("write:stopped-early".into(), format!("write call {} returned with {} bytes pending although the transport did not say would-block", call, probe.pending())));
        }
        if queued == prog.len() && probe.pending() == 0 {
            break;
        }
        if call > 64 {
            return Some(("write:no-progress".into(), "64 write calls".into()));
        }
    }
    if has_error_cut && cuts.iter().all(|(p, _)| *p < expected.len()) {
        return Some(("write:error-swallowed".into(), "the transport reported an error but every write call succeeded".into()));
    }
    if sink.got != expected {
        return Some(("write:incomplete".into(), format!("{} of {} bytes on the transport at the end", sink.got.len(), expected.len())));
    }
    let (envs, used, err) = split_envelopes(&sink.got[8..]);
    if err.is_some() || used + 8 != sink.got.len() || envs.len() != prog.len() {
        return Some(("write:not-whole-frames".into(), format!("transport content does not split into {} whole frames: {:?}", prog.len(), err)));
    }
    None
}

fn cuts_json(c: &[(usize, Cut)]) -> Value {
    json!(c.iter().map(|(p, k)| json!([p, match k { Cut::Short => "short", Cut::WouldBlock => "wouldblock", Cut::Error => "error" }])).collect::<Vec<_>>())
}

fn programs() -> Vec<(&'static str, Vec<(usize, usize)>)> {
    vec![
        ("header-only", vec![]),
        ("hb", vec![(0, 0)]),
        ("hb-method", vec![(0, 0), (1, 0)]),
        ("method-then-hb-later", vec![(1, 0), (0, 1)]),
        ("three-small", vec![(1, 0), (2, 0), (0, 0)]),
        ("three-small-staggered", vec![(1, 0), (2, 1), (0, 2)]),
        ("small-late", vec![(1, 1), (0, 1)]),
        ("big", vec![(1, 0), (3, 0), (0, 1)]),
        ("two-big", vec![(3, 0), (4, 1), (1, 2)]),
    ]
}

fn positions(total: usize, prog: &[(usize, usize)]) -> Vec<usize> {
    if total <= 300 {
        return (1..total).collect();
    }
    let fr = frames();
    let mut s = std::collections::BTreeSet::new();
    let mut off = 8usize;
    for d in [1usize, 3, 7, 8] {
        s.insert(d);
    }
    for (f, _) in prog {
        for d in [-1isize, 0, 1, 3, 7, 8] {
            let p = off as isize + d;
            if p > 0 {
                s.insert(p as usize);
            }
        }
        s.insert(off + fr[*f].1.len() / 2);
        off += fr[*f].1.len();
        s.insert(off - 1);
    }
    for k in 1..=(total / 4096) {
        for d in [-1isize, 0, 1] {
            s.insert((k * 4096) as isize as usize + d as usize);
        }
    }
    s.into_iter().filter(|p| *p < total).collect()
}

pub fn run(args: &Args) {
    std::panic::set_hook(Box::new(|_| {}));
    let thorough = args.thorough();
    let mut part = Part::new("C01", "writeprobe", "seqx", "model_checking", &args.tier);
    part.rule = "programs of 0-3 real frames (8 B to 9 KB) queued before chosen write calls on a real output buffer (starting with the protocol header), written through the real write_to_stream into a scripted transport: every placement of up to 2 (thorough: 3) cuts over every byte offset (streams <= 300 B) or the boundary menu, each cut a short accept, a would-block or (one per script) an error. After every call: transport content is a prefix of header+frames in order, accepted+pending = queued, a call only returns with data pending after a would-block. Non-trivial: at least one cut.".into();
    let progs = programs();
    let fr = frames();
    let max_cuts = if thorough { 3 } else { 2 };
    part.bounds.insert("max_cuts".into(), json!(max_cuts));
    part.bounds.insert("programs".into(), json!(progs.iter().map(|(n, p)| json!([n, p])).collect::<Vec<_>>()));
    let mut tasks: Vec<(usize, Option<usize>)> = Vec::new();
    let mut pos_per: Vec<Vec<usize>> = Vec::new();
    for (pi, (_, prog)) in progs.iter().enumerate() {
        let total: usize = 8 + prog.iter().map(|(f, _)| fr[*f].1.len()).sum::<usize>();
        let pos = positions(total, prog);
        tasks.push((pi, None));
        for i in 0..pos.len() {
            tasks.push((pi, Some(i)));
        }
        pos_per.push(pos);
    }
    let kinds = [Cut::Short, Cut::WouldBlock, Cut::Error];
    let tier = args.tier.clone();
    let results = par_map(tasks.len(), |t| {
        let (pi, first) = tasks[t];
        let (name, prog) = &progs[pi];
        let pos = &pos_per[pi];
        let mut p = Part::new("C01", "w", "seqx", "model_checking", &tier);
        let mut go = |cuts: &[(usize, Cut)], p: &mut Part| {
            // at most one error cut, and it must be the last cut (nothing happens after it)
            let errs = cuts.iter().filter(|(_, k)| *k == Cut::Error).count();
            if errs > 1 || (errs == 1 && cuts.last().unwrap().1 != Cut::Error) {
                return;
            }
            p.evaluations += 1;
            if !cuts.is_empty() {
                p.distinct_nontrivial += 1;
            }
            if let Some((k, d)) = run_one(prog, cuts) {
                p.violation(&k, format!("program {} cuts {}: {}", name, cuts_json(cuts), d), json!({"engine":"seqx","check":"writeprobe","program":pi,"cuts":cuts_json(cuts)}));
            }
        };
        match first {
            None => go(&[], &mut p),
            Some(i) => {
                let a = pos[i];
                for ka in kinds {
                    go(&[(a, ka)], &mut p);
                    if max_cuts >= 2 {
                        for (j, &b) in pos.iter().enumerate().skip(i + 1) {
                            for kb in kinds {
                                go(&[(a, ka), (b, kb)], &mut p);
                                if max_cuts >= 3 && pos.len() <= 120 {
                                    for &c in &pos[j + 1..] {
                                        for kc in kinds {
                                            go(&[(a, ka), (b, kb), (c, kc)], &mut p);
                                        }
                                    }
                                }
                            }
                        }
                    }
                }
            }
        }
        p
    });
    for p in results {
        part.merge(p);
    }
    part.sample(json!({"program":"three-small-staggered","queue":[["method",0],["body40",1],["heartbeat",2]],"cuts":[[3,"wouldblock"],[29,"short"]]}));
    part.sample(json!({"program":"two-big","cuts":[[4096,"wouldblock"],[4112,"error"]]}));
    part.states = part.evaluations;
    part.transitions = part.evaluations;
    part.traces_validated = part.evaluations;
    part.finish(args.out.as_deref());
}

pub fn replay(v: &Value) -> bool {
    let progs = programs();
    let (name, prog) = &progs[v["program"].as_u64().unwrap() as usize];
    let cuts: Vec<(usize, Cut)> = v["cuts"].as_array().unwrap().iter().map(|c| (c[0].as_u64().unwrap() as usize, match c[1].as_str().unwrap() { "short" => Cut::Short, "wouldblock" => Cut::WouldBlock, _ => Cut::Error })).collect();
    println!("program {} {:?} cuts {:?}", name, prog, cuts);
    match run_one(prog, &cuts) {
        Some((k, d)) => {
            println!("VIOLATION {}: {}", k, d);
            false
        }
        None => {
            println!("ok");
            true
        }
    }
}
