//! C02 (E1 part): what a publish hands to the I/O thread, observed at the channel's queue.
use crate::Args;
use amiquip::verif::probe::{ChannelProbe, TapMsg};
use amiquip::{AmqpProperties, AmqpValue, Channel, FieldTable, Publish};
use amq_protocol::frame::AMQPFrame;
use amq_protocol::protocol::basic::AMQPMethod as Basic;
use amq_protocol::protocol::AMQPClass;
use serde_json::{json, Value};
use vh::par::par_map;
use vh::report::Part;
use vh::wire::{split_envelopes, Env};

pub const NPROPS: usize = 14;

pub fn props_from_mask(mask: u32, boundary: bool) -> AmqpProperties {
    let long = |c: char| -> String { std::iter::repeat(c).take(255).collect() };
    let s = |short: &str, c: char| -> String { if boundary { long(c) } else { short.to_string() } };
    let mut p = AmqpProperties::default();
    if mask & 1 != 0 {
        p = p.with_content_type(s("text/plain", 'a'));
    }
    if mask & 2 != 0 {
        p = p.with_content_encoding(s("gzip", 'b'));
    }
    if mask & 4 != 0 {
        let mut t = FieldTable::new();
        t.insert("k".to_string(), AmqpValue::LongString("v".to_string()));
        if boundary {
            t.insert("n".to_string(), AmqpValue::LongLongInt(i64::MIN));
            let mut inner = FieldTable::new();
            inner.insert("b".to_string(), AmqpValue::Boolean(true));
            t.insert("t".to_string(), AmqpValue::FieldTable(inner));
        }
        p = p.with_headers(t);
    }
    if mask & 8 != 0 {
        p = p.with_delivery_mode(if boundary { 255 } else { 2 });
    }
    if mask & 16 != 0 {
        p = p.with_priority(if boundary { 0 } else { 9 });
    }
    if mask & 32 != 0 {
        p = p.with_correlation_id(s("corr-1", 'c'));
    }
    if mask & 64 != 0 {
        p = p.with_reply_to(s("reply.q", 'd'));
    }
    if mask & 128 != 0 {
        p = p.with_expiration(s("60000", '9'));
    }
    if mask & 256 != 0 {
        p = p.with_message_id(s("m-1", 'e'));
    }
    if mask & 512 != 0 {
        p = p.with_timestamp(if boundary { u64::MAX } else { 1_600_000_000 });
    }
    if mask & 1024 != 0 {
        p = p.with_type_(s("kind", 'f'));
    }
    if mask & 2048 != 0 {
        p = p.with_user_id(s("guest", 'g'));
    }
    if mask & 4096 != 0 {
        p = p.with_app_id(s("app", 'h'));
    }
    if mask & 8192 != 0 {
        p = p.with_cluster_id(s("cl", 'i'));
    }
    p
}

pub struct Expect<'a> {
    pub chan: u16,
    pub exchange: &'a str,
    pub routing_key: &'a str,
    pub mandatory: bool,
    pub immediate: bool,
    pub body: &'a [u8],
    pub props: &'a AmqpProperties,
    pub frame_max: usize, // 0 = unlimited
}

/// Check that `envs` starts with exactly the frames of one publish; returns how many
/// envelopes it consumed, or a violation.
pub fn check_publish(envs: &[Env], e: &Expect) -> Result<usize, (String, String)> {
    let bad = |k: &str, d: String| Err((format!("publish:{}", k), d));
    if envs.len() < 2 {
        return bad("missing-frames", format!("{} frames for a publish", envs.len()));
    }
    for (i, env) in envs.iter().enumerate() {
        if env.chan != e.chan {
            return bad("wrong-channel", format!("frame {} on channel {} expected {}", i, env.chan, e.chan));
        }
    }
    match envs[0].decode() {
        Some(AMQPFrame::Method(_, AMQPClass::Basic(Basic::Publish(p)))) => {
            if p.exchange != e.exchange {
                return bad("exchange", format!("exchange {:?} expected {:?}", p.exchange, e.exchange));
            }
            if p.routing_key != e.routing_key {
                return bad("routing-key", format!("routing key {:?} expected {:?}", p.routing_key, e.routing_key));
            }
            if p.mandatory != e.mandatory || p.immediate != e.immediate {
                return bad("flags", format!("mandatory/immediate {}/{} expected {}/{}", p.mandatory, p.immediate, e.mandatory, e.immediate));
            }
            if p.ticket != 0 {
                return bad("ticket", format!("ticket {}", p.ticket));
            }
        }
        other => return bad("first-frame-not-publish", format!("first frame {:?}", other.map(|f| vh::wire::brief(&f)))),
    }
    match envs[1].decode() {
        Some(AMQPFrame::Header(_, class_id, h)) => {
            if class_id != 60 || h.class_id != 60 {
                return bad("header-class", format!("class {}", class_id));
            }
            if h.body_size != e.body.len() as u64 {
                return bad("header-body-size", format!("body_size {} for a {}-byte body", h.body_size, e.body.len()));
            }
            if &h.properties != e.props {
                return bad("header-properties", format!("properties {:?} expected {:?}", h.properties, e.props));
            }
        }
        other => return bad("second-frame-not-header", format!("second frame {:?}", other.map(|f| vh::wire::brief(&f)))),
    }
    let mut got = 0usize;
    let mut used = 2usize;
    while got < e.body.len() {
        let env = match envs.get(used) {
            Some(env) => env,
            None => return bad("body-short", format!("{} of {} body bytes framed", got, e.body.len())),
        };
        if env.ty != 3 {
            return bad("body-interrupted", format!("frame type {} after {} of {} body bytes", env.ty, got, e.body.len()));
        }
        if e.frame_max != 0 && env.wire_len() > e.frame_max {
            return bad("frame-too-long", format!("body frame of {} bytes with frame_max {}", env.wire_len(), e.frame_max));
        }
        if env.payload.is_empty() {
            return bad("empty-body-frame", "zero-length body frame inside a body".into());
        }
        if got + env.payload.len() > e.body.len() || env.payload[..] != e.body[got..got + env.payload.len()] {
            return bad("body-bytes", format!("body frame {} does not continue the body at offset {}", used - 2, got));
        }
        got += env.payload.len();
        used += 1;
    }
    // nothing of this publish may follow: a further body frame would be an extra one
    if let Some(env) = envs.get(used) {
        if env.ty == 3 {
            return bad("extra-body-frame", format!("{}-byte body frame after the body was complete ({} bytes)", env.payload.len(), e.body.len()));
        }
    }
    Ok(used)
}

fn tapped_envs(probe: &ChannelProbe) -> Result<Vec<Env>, (String, String)> {
    let mut envs = Vec::new();
    for m in probe.tap() {
        match m {
            TapMsg::Send(bytes) => {
                let (e, used, err) = split_envelopes(&bytes);
                if err.is_some() || used != bytes.len() || e.is_empty() {
                    return Err(("publish:buffer-not-whole-frames".into(), format!("a buffer handed to the I/O thread is not whole frames ({} bytes, {} parsed, {:?})", bytes.len(), used, err)));
                }
                envs.extend(e);
            }
            other => return Err(("publish:unexpected-message".into(), format!("{:?}", other))),
        }
    }
    Ok(envs)
}

fn body_of(len: usize) -> Vec<u8> {
    (0..len).map(|i| ((i * 31 + 7) % 251) as u8).collect()
}

#[allow(clippy::too_many_arguments)]
fn one(p: &mut Part, probe: &ChannelProbe, ch: &Channel, chan: u16, frame_max: usize, exchange: &str, rk: &str, mandatory: bool, immediate: bool, body: &[u8], props: &AmqpProperties, label: Value) {
    p.evaluations += 1;
    p.distinct_nontrivial += 1;
    // (the message is built the way an application would: by the constructors where they
    // can express it, as a struct literal otherwise)
    let msg = if mandatory || immediate {
        Publish { body, routing_key: rk.to_string(), mandatory, immediate, properties: props.clone() }
    } else if *props == AmqpProperties::default() {
        Publish::new(body, rk)
    } else {
        Publish::with_properties(body, rk, props.clone())
    };
    let r = std::panic::catch_unwind(std::panic::AssertUnwindSafe(|| ch.basic_publish(exchange, msg)));
    let r = match r {
        Ok(r) => r,
        Err(e) => {
            p.violation("publish:panic", format!("{}: basic_publish panicked: {}", label, crate::slots::panic_msg(&e)), json!({"engine":"seqx","check":"publish","case":label}));
            return;
        }
    };
    let verdict = match r {
        Err(e) => Err(("publish:error".into(), format!("{:?}", e))),
        Ok(()) => tapped_envs(probe).and_then(|envs| {
            let e = Expect { chan, exchange, routing_key: rk, mandatory, immediate, body, props, frame_max };
            check_publish(&envs, &e).and_then(|used| if used == envs.len() { Ok(()) } else { Err(("publish:extra-frames".into(), format!("{} frames, {} belong to the publish", envs.len(), used))) })
        }),
    };
    if let Err((k, d)) = verdict {
        p.violation(&k, format!("{}: {}", label, d), json!({"engine":"seqx","check":"publish","case":label}));
    }
}

pub fn run(args: &Args) {
    std::panic::set_hook(Box::new(|_| {}));
    let thorough = args.thorough();
    let mut part = Part::new("C02", "publish", "seqx", "exploration", &args.tier);
    part.rule = "real Channel::basic_publish / Exchange::publish calls on a real channel handle whose queue to the I/O thread is tapped: frame_max in {4096,4097,8192,131072,0} x body lengths {0,1,2,P-1,P,P+1,2P-1,2P,2P+1,3P,3P+1,5P+7} (P=frame_max-8) x mandatory x immediate x exchange/routing-key classes; all 2^14 subsets of the 14 basic properties (fixed values) plus boundary values; pairs of consecutive publishes. Every case is distinct and non-trivial.".into();
    let fmaxes: Vec<usize> = vec![4096, 4097, 8192, 131072, 0];
    part.bounds.insert("frame_max".into(), json!(fmaxes));
    let long: String = std::iter::repeat('k').take(255).collect();
    let names: Vec<(String, String)> = vec![("".into(), "".into()), ("x".into(), "rk".into()), (long.clone(), long.clone()), ("éx".into(), "ключ.#".into())];
    // (1) lengths x frame_max x flags x names
    let results = par_map(fmaxes.len(), |fi| {
        let fm = fmaxes[fi];
        let mut p = Part::new("C02", "w", "seqx", "exploration", "quick");
        let chan = 3 + fi as u16;
        let (probe, ch) = ChannelProbe::open(fm, chan, 4096);
        let _ = probe.tap();
        let pp = if fm == 0 { 70000 } else { fm - 8 };
        let mut lens = vec![0, 1, 2, pp - 1, pp, pp + 1, 2 * pp - 1, 2 * pp, 2 * pp + 1, 3 * pp, 3 * pp + 1, 5 * pp + 7];
        if thorough {
            lens.extend([3, pp - 2, pp + 2, 4 * pp, 7 * pp - 1, 8 * pp]);
        }
        let props = props_from_mask(0b101, false);
        for &len in &lens {
            let body = body_of(len);
            for mandatory in [false, true] {
                for immediate in [false, true] {
                    for (ex, rk) in &names {
                        one(&mut p, &probe, &ch, chan, fm, ex, rk, mandatory, immediate, &body, &props, json!({"frame_max":fm,"len":len,"mandatory":mandatory,"immediate":immediate,"exchange_len":ex.len(),"props_mask":5}));
                    }
                }
            }
        }
        // consecutive publishes: contiguous groups in order
        for &(l1, l2) in &[(0usize, 0usize), (0, pp + 1), (pp, 0), (2 * pp + 1, 1), (1, 3 * pp)] {
            let (b1, b2) = (body_of(l1), body_of(l2 + 1)[1..].to_vec());
            let p1 = props_from_mask(1, false);
            let p2 = props_from_mask(2, false);
            p.evaluations += 1;
            p.distinct_nontrivial += 1;
            let r1 = ch.basic_publish("e1", Publish { body: &b1, routing_key: "a".into(), mandatory: true, immediate: false, properties: p1.clone() });
            let r2 = amiquip::Exchange::direct(&ch).publish(Publish { body: &b2, routing_key: "b".into(), mandatory: false, immediate: true, properties: p2.clone() });
            let verdict = match (r1, r2) {
                (Ok(()), Ok(())) => tapped_envs(&probe).and_then(|envs| {
                    let e1 = Expect { chan, exchange: "e1", routing_key: "a", mandatory: true, immediate: false, body: &b1, props: &p1, frame_max: fm };
                    let u1 = check_publish(&envs, &e1)?;
                    let e2 = Expect { chan, exchange: "", routing_key: "b", mandatory: false, immediate: true, body: &b2, props: &p2, frame_max: fm };
                    let u2 = check_publish(&envs[u1..], &e2)?;
                    if u1 + u2 == envs.len() { Ok(()) } else { Err(("publish:extra-frames".into(), format!("{} frames, {}+{} belong to the two publishes", envs.len(), u1, u2))) }
                }),
                (a, b) => Err(("publish:error".into(), format!("{:?} {:?}", a.err(), b.err()))),
            };
            if let Err((k, d)) = verdict {
                p.violation(&k, format!("two publishes ({}, {}) frame_max {}: {}", l1, l2, fm, d), json!({"engine":"seqx","check":"publish","case":{"frame_max":fm,"pair":[l1,l2]}}));
            }
        }
        std::mem::forget(ch); // dropping would send Channel.Close and wait for a reply
        p
    });
    for p in results {
        part.merge(p);
    }
    // (2) all property subsets
    let chunks = 64usize;
    let results = par_map(chunks, |c| {
        let mut p = Part::new("C02", "w", "seqx", "exploration", "quick");
        let (probe, ch) = ChannelProbe::open(4096, 1, 64);
        let _ = probe.tap();
        let body = body_of(5);
        for mask in (c * (1 << NPROPS) / chunks)..((c + 1) * (1 << NPROPS) / chunks) {
            let props = props_from_mask(mask as u32, false);
            one(&mut p, &probe, &ch, 1, 4096, "ex", "rk", false, false, &body, &props, json!({"frame_max":4096,"len":5,"props_mask":mask}));
            if mask % 64 == 63 || thorough {
                let props = props_from_mask(mask as u32, true);
                one(&mut p, &probe, &ch, 1, 4096, "ex", "rk", true, true, &body, &props, json!({"frame_max":4096,"len":5,"props_mask":mask,"boundary_values":true}));
            }
        }
        std::mem::forget(ch);
        p
    });
    for p in results {
        part.merge(p);
    }
    part.sample(json!({"frame_max":4096,"len":4088,"mandatory":true,"immediate":false,"exchange_len":1,"props_mask":5}));
    part.sample(json!({"frame_max":0,"len":350007,"mandatory":false,"immediate":true}));
    part.sample(json!({"frame_max":4096,"len":5,"props_mask":16383,"boundary_values":true}));
    part.finish(args.out.as_deref());
}

pub fn replay(v: &Value) -> bool {
    let c = &v["case"];
    let fm = c["frame_max"].as_u64().unwrap() as usize;
    let (probe, ch) = ChannelProbe::open(fm, 1, 4096);
    let _ = probe.tap();
    let mut p = Part::new("C02", "replay", "seqx", "exploration", "quick");
    if let Some(pair) = c["pair"].as_array() {
        println!("pair replay not itemised; lengths {:?}", pair);
        return false;
    }
    let len = c["len"].as_u64().unwrap() as usize;
    let mask = c["props_mask"].as_u64().unwrap_or(5) as u32;
    let props = props_from_mask(mask, c["boundary_values"].as_bool().unwrap_or(false));
    let exl = c["exchange_len"].as_u64().unwrap_or(2) as usize;
    let ex: String = std::iter::repeat('k').take(exl).collect();
    let body = body_of(len);
    one(&mut p, &probe, &ch, 1, fm, &ex, &ex, c["mandatory"].as_bool().unwrap_or(false), c["immediate"].as_bool().unwrap_or(false), &body, &props, c.clone());
    std::mem::forget(ch);
    for v in &p.violations {
        println!("VIOLATION {}: {}", v.key, v.detail);
    }
    p.violations.is_empty()
}
