//! C19: URL decoding. URLs are assembled from component alphabets; the oracle is the
//! component tuple the URL was built from (it never parses the URL).
use crate::Args;
use amiquip::verif::probe::decode_url;
use amiquip::{Auth, Connection, Error};
use serde_json::{json, Value};
use std::time::Duration;
use vh::par::par_map;
use vh::report::Part;

#[derive(Clone, Debug, PartialEq)]
enum Want {
    Ok {
        amqps: bool,
        host: String,
        port: u16,
        auth: Vec<Auth>, // acceptable alternatives (repeated parameters)
        vhost: String,
        heartbeat: Vec<u16>,
        channel_max: Vec<u16>,
        timeout: Vec<Option<Duration>>,
    },
    Err(&'static str),
    /// outside the statement (not an amqp/amqps URL the url crate can represent): any error
    AnyErr,
}

#[derive(Clone, Debug)]
struct Q {
    text: &'static str,
    // effect
    heartbeat: Option<u16>,
    channel_max: Option<u16>,
    timeout: Option<u64>,
    external: bool,
    err: Option<&'static str>,
}

const fn q(text: &'static str) -> Q {
    Q { text, heartbeat: None, channel_max: None, timeout: None, external: false, err: None }
}

fn query_atoms() -> Vec<Q> {
    vec![
        Q { heartbeat: Some(0), ..q("heartbeat=0") },
        Q { heartbeat: Some(10), ..q("heartbeat=10") },
        Q { heartbeat: Some(65535), ..q("heartbeat=65535") },
        Q { err: Some("UrlParseHeartbeat"), ..q("heartbeat=65536") },
        Q { err: Some("UrlParseHeartbeat"), ..q("heartbeat=-1") },
        Q { err: Some("UrlParseHeartbeat"), ..q("heartbeat=x") },
        Q { err: Some("UrlParseHeartbeat"), ..q("heartbeat=") },
        Q { channel_max: Some(0), ..q("channel_max=0") },
        Q { channel_max: Some(7), ..q("channel_max=7") },
        Q { channel_max: Some(65535), ..q("channel_max=65535") },
        Q { err: Some("UrlParseChannelMax"), ..q("channel_max=65536") },
        Q { err: Some("UrlParseChannelMax"), ..q("channel_max=1.5") },
        Q { timeout: Some(0), ..q("connection_timeout=0") },
        Q { timeout: Some(2500), ..q("connection_timeout=2500") },
        Q { timeout: Some(u64::MAX), ..q("connection_timeout=18446744073709551615") },
        Q { err: Some("UrlParseConnectionTimeout"), ..q("connection_timeout=18446744073709551616") },
        Q { err: Some("UrlParseConnectionTimeout"), ..q("connection_timeout=1s") },
        Q { external: true, ..q("auth_mechanism=external") },
        Q { err: Some("UrlInvalidAuthMechanism"), ..q("auth_mechanism=plain") },
        Q { err: Some("UrlInvalidAuthMechanism"), ..q("auth_mechanism=EXTERNAL") },
        Q { err: Some("UrlInvalidAuthMechanism"), ..q("auth_mechanism=") },
        Q { err: Some("UrlUnsupportedParameter"), ..q("frame_max=4096") },
        Q { err: Some("UrlUnsupportedParameter"), ..q("Heartbeat=3") },
        Q { err: Some("UrlUnsupportedParameter"), ..q("x") },
    ]
}

struct Comp {
    scheme: &'static str,
    // (text before '@' or "", expected (user, pass) or None when no userinfo)
    userinfo: (&'static str, Option<(&'static str, &'static str)>),
    host: (&'static str, Option<&'static str>),
    port: Option<u16>,
    // (text, expected vhost or error)
    path: (&'static str, Result<&'static str, &'static str>),
    query: Vec<Q>,
}

fn build(c: &Comp) -> (String, Want) {
    let mut url = format!("{}://", c.scheme);
    if !c.userinfo.0.is_empty() {
        url.push_str(c.userinfo.0);
        url.push('@');
    }
    url.push_str(c.host.0);
    if let Some(p) = c.port {
        url.push_str(&format!(":{}", p));
    }
    url.push_str(c.path.0);
    if !c.query.is_empty() {
        url.push('?');
        url.push_str(&c.query.iter().map(|q| q.text).collect::<Vec<_>>().join("&"));
    }
    // a missing host combined with userinfo or a port cannot be written as a URL: the
    // url crate rejects it whatever the scheme; that is outside the statement
    if c.host.1.is_none() && (c.port.is_some() || !c.userinfo.0.is_empty()) {
        return (url, Want::AnyErr);
    }
    let lower = c.scheme.to_ascii_lowercase();
    let amqps = match lower.as_str() {
        "amqp" => false,
        "amqps" => true,
        // http is a "special" scheme for the url crate: without a host it does not parse
        "http" if c.host.1.is_none() => return (url, Want::AnyErr),
        _ => return (url, Want::Err("InvalidUrlScheme")),
    };
    let vhost = match c.path.1 {
        Ok(v) => v.to_string(),
        Err(e) => return (url, Want::Err(e)),
    };
    // the first failing query parameter decides the error
    let mut hb = vec![];
    let mut cm = vec![];
    let mut to = vec![];
    let mut external = false;
    for q in &c.query {
        if let Some(e) = q.err {
            return (url, Want::Err(e));
        }
        if let Some(h) = q.heartbeat {
            hb.push(h);
        }
        if let Some(h) = q.channel_max {
            cm.push(h);
        }
        if let Some(t) = q.timeout {
            to.push(Some(Duration::from_millis(t)));
        }
        external |= q.external;
    }
    if hb.is_empty() {
        hb.push(60);
    }
    if cm.is_empty() {
        cm.push(0);
    }
    if to.is_empty() {
        to.push(None);
    }
    let auth = if external {
        vec![Auth::External]
    } else {
        match c.userinfo.1 {
            None => vec![Auth::Plain { username: "guest".into(), password: "guest".into() }],
            Some((u, p)) => vec![Auth::Plain { username: u.into(), password: p.into() }],
        }
    };
    (
        url,
        Want::Ok {
            amqps,
            host: c.host.1.unwrap_or("localhost").to_string(),
            port: c.port.unwrap_or(if amqps { 5671 } else { 5672 }),
            auth,
            vhost,
            heartbeat: hb,
            channel_max: cm,
            timeout: to,
        },
    )
}

fn err_name(e: &Error) -> &'static str {
    match e {
        Error::UrlParseError { .. } => "UrlParseError",
        Error::InsecureUrl { .. } => "InsecureUrl",
        Error::SpecifyUrlPort { .. } => "SpecifyUrlPort",
        Error::InvalidUrlScheme { .. } => "InvalidUrlScheme",
        Error::UrlMissingDomain { .. } => "UrlMissingDomain",
        Error::ExtraUrlPathSegments { .. } => "ExtraUrlPathSegments",
        Error::UrlParseHeartbeat { .. } => "UrlParseHeartbeat",
        Error::UrlParseChannelMax { .. } => "UrlParseChannelMax",
        Error::UrlParseConnectionTimeout { .. } => "UrlParseConnectionTimeout",
        Error::UrlInvalidAuthMechanism { .. } => "UrlInvalidAuthMechanism",
        Error::UrlUnsupportedParameter { .. } => "UrlUnsupportedParameter",
        _ => "other",
    }
}

fn judge(url: &str, want: &Want, check_open_gate: bool) -> Option<(String, String)> {
    let got = decode_url(url);
    match (want, &got) {
        (Want::AnyErr, Err(_)) => None,
        (Want::AnyErr, Ok(g)) => Some(("url:accepted-unrepresentable".into(), format!("{} -> {:?}", url, g))),
        (Want::Err(w), Err(e)) => {
            if err_name(e) == *w {
                // the secure-only entry point reports the same specific error (for an amqp://
                // URL that is also unacceptable as a secure one, which of the two errors wins is
                // left open)
                let scheme = url.split("://").next().unwrap_or("").to_ascii_lowercase();
                if check_open_gate && scheme != "amqp" {
                    match Connection::open(url) {
                        Err(e2) if err_name(&e2) == *w => {}
                        other => {
                            return Some((format!("url:secure-open-wrong-error:{}", w), format!("Connection::open({}) -> {:?}, expected {}", url, other.map(|_| "Ok(connection)").map_err(|e| err_name(&e)), w)));
                        }
                    }
                }
                None
            } else {
                Some((format!("url:wrong-error:{}", w), format!("{} -> {:?}, expected {}", url, err_name(e), w)))
            }
        }
        (Want::Err(w), Ok(g)) => Some((format!("url:accepted:{}", w), format!("{} -> {:?}, expected error {}", url, g, w))),
        (Want::Ok { .. }, Err(e)) => Some((format!("url:rejected:{}", err_name(e)), format!("{} -> {:?}, expected {:?}", url, e, want))),
        (Want::Ok { amqps, host, port, auth, vhost, heartbeat, channel_max, timeout }, Ok((g_amqps, g_host, g_port, o))) => {
            let mut bad = Vec::new();
            if g_amqps != amqps {
                bad.push("scheme");
            }
            if g_host != host {
                bad.push("host");
            }
            if g_port != port {
                bad.push("port");
            }
            if !auth.contains(&o.auth) {
                bad.push("auth");
            }
            if &o.virtual_host != vhost {
                bad.push("vhost");
            }
            if !heartbeat.contains(&o.heartbeat) {
                bad.push("heartbeat");
            }
            if !channel_max.contains(&o.channel_max) {
                bad.push("channel_max");
            }
            if !timeout.contains(&o.connection_timeout) {
                bad.push("connection_timeout");
            }
            if o.frame_max != 0 || o.locale != "en_US" {
                bad.push("untouched-option-changed");
            }
            if !bad.is_empty() {
                return Some((format!("url:wrong-{}", bad[0]), format!("{} -> ({}, {}, {}, {:?}); wrong: {:?}; expected {:?}", url, g_amqps, g_host, g_port, o, bad, want)));
            }
            if check_open_gate && !*amqps {
                // secure-only open must refuse without touching the network
                match Connection::open(url) {
                    Err(Error::InsecureUrl { .. }) => {}
                    other => {
                        return Some(("url:insecure-url-not-refused".into(), format!("Connection::open({}) -> {:?}", url, other.map(|_| "Ok(connection)"))));
                    }
                }
            }
            None
        }
    }
}

fn components(thorough: bool) -> (Vec<&'static str>, Vec<(&'static str, Option<(&'static str, &'static str)>)>, Vec<(&'static str, Option<&'static str>)>, Vec<Option<u16>>, Vec<(&'static str, Result<&'static str, &'static str>)>) {
    let schemes = vec!["amqp", "amqps", "AMQP", "http", "amqpx", "amq"];
    let userinfo = vec![
        ("", None),
        ("u", Some(("u", "guest"))),
        ("u:p", Some(("u", "p"))),
        (":p", Some(("guest", "p"))),
        ("a%40b:c%3Ad", Some(("a@b", "c:d"))),
        ("%75ser:p%2Fw", Some(("user", "p/w"))),
        ("u%25:p%20q", Some(("u%", "p q"))),
        ("guest:guest", Some(("guest", "guest"))),
        ("team+ci:Zm9v+YmFy", Some(("team+ci", "Zm9v+YmFy"))),
        ("a%2Bb:c%2Bd", Some(("a+b", "c+d"))),
    ];
    let mut hosts = vec![("", None), ("h", Some("h")), ("h.example", Some("h.example")), ("127.0.0.1", Some("127.0.0.1")), ("[::1]", Some("[::1]"))];
    if thorough {
        hosts.push(("localhost", Some("localhost")));
        hosts.push(("H.Example", Some("H.Example")));
    }
    let ports = vec![None, Some(1), Some(5671), Some(5672), Some(65535)];
    let paths = vec![
        ("", Ok("/")),
        ("/", Ok("/")),
        ("/v", Ok("v")),
        ("/%2f", Ok("/")),
        ("/%2F", Ok("/")),
        ("/a%2Fb", Ok("a/b")),
        ("/v%20w", Ok("v w")),
        ("/%25", Ok("%")),
        ("/prod+eu", Ok("prod+eu")),
        ("/a%2Bb", Ok("a+b")),
        // names that begin or end with a slash or a blank: nothing is trimmed or normalised
        ("/%2Fprod", Ok("/prod")),
        ("/%2f%2f", Ok("//")),
        ("/prod%2F", Ok("prod/")),
        ("/%20v%20", Ok(" v ")),
        ("/a%252Fb", Ok("a%2Fb")),
        ("/v/extra", Err("ExtraUrlPathSegments")),
        ("/a/b/c", Err("ExtraUrlPathSegments")),
    ];
    (schemes, userinfo, hosts, ports, paths)
}

pub fn run(args: &Args) {
    let thorough = args.thorough();
    let mut part = Part::new("C19", "url", "seqx", "exploration", &args.tier);
    part.rule = "URLs assembled as scheme x userinfo x host x port x path x query (no parameter, every single parameter atom, every ordered pair of atoms; thorough: every ordered triple of the non-error atoms) and decoded by the real populate_host_and_port + decode; expected value = the component tuple the URL was assembled from (never re-parsed); for repeated parameters either given value is accepted; Connection::open on every accepted amqp:// URL must answer InsecureUrl. Non-trivial: anything but the all-defaults URL of each scheme.".into();
    let (schemes, userinfo, hosts, ports, paths) = components(thorough);
    let atoms = query_atoms();
    let mut queries: Vec<Vec<Q>> = vec![vec![]];
    for a in &atoms {
        queries.push(vec![a.clone()]);
    }
    for a in &atoms {
        for b in &atoms {
            queries.push(vec![a.clone(), b.clone()]);
        }
    }
    if thorough {
        let good: Vec<&Q> = atoms.iter().filter(|a| a.err.is_none()).collect();
        for a in &good {
            for b in &good {
                for c in &good {
                    queries.push(vec![(*a).clone(), (*b).clone(), (*c).clone()]);
                }
            }
        }
    }
    part.bounds.insert("schemes".into(), json!(schemes));
    part.bounds.insert("userinfo".into(), json!(userinfo.iter().map(|u| u.0).collect::<Vec<_>>()));
    part.bounds.insert("hosts".into(), json!(hosts.iter().map(|u| u.0).collect::<Vec<_>>()));
    part.bounds.insert("ports".into(), json!(ports));
    part.bounds.insert("paths".into(), json!(paths.iter().map(|u| u.0).collect::<Vec<_>>()));
    part.bounds.insert("queries".into(), json!(queries.len()));
    // split by (scheme, userinfo)
    let mut work = Vec::new();
    for s in 0..schemes.len() {
        for u in 0..userinfo.len() {
            work.push((s, u));
        }
    }
    let tier = args.tier.clone();
    let results = par_map(work.len(), |w| {
        let (s, u) = work[w];
        let mut p = Part::new("C19", "w", "seqx", "exploration", &tier);
        for h in &hosts {
            for port in &ports {
                for path in &paths {
                    for (qi, query) in queries.iter().enumerate() {
                        // the full query product only for the plain shapes; other shapes get
                        // the single-atom queries (keeps the product finite and complete)
                        let plain = path.0 == "/v" || path.0 == "";
                        if !plain && qi > atoms.len() {
                            continue;
                        }
                        let c = Comp { scheme: schemes[s], userinfo: userinfo[u], host: *h, port: *port, path: *path, query: query.clone() };
                        let (url, want) = build(&c);
                        p.evaluations += 1;
                        p.distinct_nontrivial += 1;
                        // the open() gate is checked once per URL shape (not per query)
                        let gate = qi <= 1;
                        match &want {
                            Want::Ok { .. } => p.outcome("decoded"),
                            Want::Err(e) => p.outcome(e),
                            Want::AnyErr => p.outcome("unrepresentable"),
                        }
                        if let Some((key, detail)) = judge(&url, &want, gate) {
                            p.violation(&key, detail, json!({"engine":"seqx","check":"url","url":url,"expected":format!("{:?}", want)}));
                        }
                        if p.samples.len() < 1 && qi == 40 && h.0 == "h" {
                            p.sample(json!({"url": url, "expected": format!("{:?}", want)}));
                        }
                    }
                }
            }
        }
        p
    });
    for p in results {
        part.merge(p);
    }
    part.assumptions.push("URLs whose missing host is combined with userinfo or port are outside the statement (cannot be represented); any error is accepted for them".into());
    part.finish(args.out.as_deref());
}

pub fn replay(v: &Value) -> bool {
    let target = v["url"].as_str().unwrap();
    println!("decode({}) -> {:?}", target, decode_url(target));
    // find the component tuple this URL was assembled from (thorough alphabets) and re-judge
    let (schemes, userinfo, hosts, ports, paths) = components(true);
    let atoms = query_atoms();
    let mut queries: Vec<Vec<Q>> = vec![vec![]];
    for a in &atoms {
        queries.push(vec![a.clone()]);
    }
    for a in &atoms {
        for b in &atoms {
            queries.push(vec![a.clone(), b.clone()]);
        }
    }
    let good: Vec<&Q> = atoms.iter().filter(|a| a.err.is_none()).collect();
    for a in &good {
        for b in &good {
            for c in &good {
                queries.push(vec![(*a).clone(), (*b).clone(), (*c).clone()]);
            }
        }
    }
    for s in &schemes {
        for u in &userinfo {
            for h in &hosts {
                for port in &ports {
                    for path in &paths {
                        for query in &queries {
                            let c = Comp { scheme: s, userinfo: *u, host: *h, port: *port, path: *path, query: query.clone() };
                            let (url, want) = build(&c);
                            if url == target {
                                println!("expected: {:?}", want);
                                return match judge(&url, &want, true) {
                                    Some((k, d)) => {
                                        println!("VIOLATION {}: {}", k, d);
                                        false
                                    }
                                    None => true,
                                };
                            }
                        }
                    }
                }
            }
        }
    }
    println!("URL is not in the component space; recorded expectation: {}", v["expected"]);
    false
}
