//! C06: FrameBuffer::read_from over real AMQP byte streams under every placement of a
//! bounded number of cuts (short read / would-block) in the read script.
use crate::Args;
use amiquip::verif::probe::FrameBuffer;
use amiquip::{AmqpProperties, Error};
use amq_protocol::frame::{AMQPContentHeader, AMQPFrame};
use amq_protocol::protocol::basic;
use amq_protocol::protocol::channel;
use amq_protocol::protocol::connection;
use amq_protocol::protocol::AMQPClass;
use serde_json::{json, Value};
use std::io;
use vh::par::par_map;
use vh::report::Part;
use vh::wire::frame_bytes;

#[derive(Clone)]
pub struct Item {
    pub bytes: Vec<u8>,
    pub frame: Option<AMQPFrame>, // None = malformed
    pub name: String,
}

fn valid(name: &str, f: AMQPFrame) -> Item {
    Item { bytes: frame_bytes(&f), frame: Some(f), name: name.to_string() }
}

fn body(chan: u16, n: usize) -> Item {
    let data: Vec<u8> = (0..n).map(|i| (i * 7 + 3) as u8).collect();
    valid(&format!("body{}", n), AMQPFrame::Body(chan, data))
}

fn header(chan: u16, size: u64, with_props: bool) -> Item {
    let props = if with_props {
        AmqpProperties::default().with_content_type("text/plain".to_string()).with_delivery_mode(2)
    } else {
        AmqpProperties::default()
    };
    valid(
        &format!("header{}", size),
        AMQPFrame::Header(chan, 60, Box::new(AMQPContentHeader { class_id: 60, weight: 0, body_size: size, properties: props })),
    )
}

fn deliver(chan: u16) -> Item {
    valid(
        "deliver",
        AMQPFrame::Method(chan, AMQPClass::Basic(basic::AMQPMethod::Deliver(basic::Deliver {
            consumer_tag: "ctag-1".into(),
            delivery_tag: 77,
            redelivered: true,
            exchange: "ex".into(),
            routing_key: "rk".into(),
        }))),
    )
}

fn heartbeat() -> Item {
    valid("heartbeat", AMQPFrame::Heartbeat(0))
}

fn open_ok(chan: u16) -> Item {
    valid("open-ok", AMQPFrame::Method(chan, AMQPClass::Channel(channel::AMQPMethod::OpenOk(channel::OpenOk { channel_id: String::new() }))))
}

fn blocked() -> Item {
    valid("blocked", AMQPFrame::Method(0, AMQPClass::Connection(connection::AMQPMethod::Blocked(connection::Blocked { reason: "low memory".into() }))))
}

fn malformed(kind: &str) -> Item {
    let bytes = match kind {
        "bad-frame-end" => {
            let mut b = open_ok(1).bytes;
            let n = b.len();
            b[n - 1] = 0xCD;
            b
        }
        // the same on every other kind of frame (no kind is taken on trust)
        "bad-frame-end-body" | "bad-frame-end-empty-body" | "bad-frame-end-header" | "bad-frame-end-heartbeat" | "bad-frame-end-deliver" => {
            let mut b = match kind {
                "bad-frame-end-body" => body(1, 5).bytes,
                "bad-frame-end-empty-body" => body(1, 0).bytes,
                "bad-frame-end-header" => header(1, 5, true).bytes,
                "bad-frame-end-heartbeat" => heartbeat().bytes,
                _ => deliver(1).bytes,
            };
            let n = b.len();
            b[n - 1] = 0xCF;
            b
        }
        "unknown-type" => vec![9, 0, 1, 0, 0, 0, 2, 1, 2, 0xCE],
        "bad-method-payload" => vec![1, 0, 1, 0, 0, 0, 4, 0xFF, 0xFF, 0, 0, 0xCE],
        "size-too-small" => {
            // size field one less than the payload: the byte where the frame end should be is payload
            let mut b = deliver(1).bytes;
            let sz = u32::from_be_bytes([b[3], b[4], b[5], b[6]]) - 1;
            b[3..7].copy_from_slice(&sz.to_be_bytes());
            b
        }
        "truncated-header-payload" => vec![2, 0, 1, 0, 0, 0, 5, 0, 60, 0, 0, 0, 0xCE],
        _ => panic!(),
    };
    Item { bytes, frame: None, name: format!("MALFORMED:{}", kind) }
}

pub struct Stream {
    pub name: String,
    pub items: Vec<Item>,
    pub eof: bool,
    pub truncate_at: Option<usize>,
}

impl Stream {
    fn bytes(&self) -> Vec<u8> {
        let mut v: Vec<u8> = self.items.iter().flat_map(|i| i.bytes.iter().copied()).collect();
        if let Some(t) = self.truncate_at {
            v.truncate(t);
        }
        v
    }
}

#[derive(Clone, Copy, Debug, PartialEq, Eq)]
pub enum CutKind {
    Short,
    WouldBlock,
    /// the next read fails with this error kind (0 ConnectionReset, 1 Interrupted, 2 TimedOut)
    Error(u8),
}

struct ScriptRead<'a> {
    data: &'a [u8],
    pos: usize,
    cuts: &'a [(usize, CutKind)],
    block_next: bool,
    eof: bool,
    supplied_this_call: usize,
    reads: usize,
    fail_next: Option<u8>,
    eof_seen_this_call: bool,
    error_seen_this_call: bool,
}

impl<'a> io::Read for ScriptRead<'a> {
    fn read(&mut self, buf: &mut [u8]) -> io::Result<usize> {
        self.reads += 1;
        if let Some(k) = self.fail_next.take() {
            // an interrupted read may be retried by the client or be treated as an error
            // (what it must not do - wait for new readiness - only shows under E2, scenario death)
            self.error_seen_this_call = k != 1;
            let kind = match k {
                0 => io::ErrorKind::ConnectionReset,
                1 => io::ErrorKind::Interrupted,
                _ => io::ErrorKind::TimedOut,
            };
            return Err(io::Error::new(kind, "injected"));
        }
        if self.block_next {
            self.block_next = false;
            return Err(io::ErrorKind::WouldBlock.into());
        }
        if self.pos == self.data.len() {
            if self.eof {
                self.eof_seen_this_call = true;
                return Ok(0);
            }
            return Err(io::ErrorKind::WouldBlock.into());
        }
        let mut limit = self.data.len();
        let mut kind = None;
        for (p, k) in self.cuts {
            if *p > self.pos && *p < limit {
                limit = *p;
                kind = Some(*k);
            }
        }
        let n = buf.len().min(limit - self.pos);
        buf[..n].copy_from_slice(&self.data[self.pos..self.pos + n]);
        self.pos += n;
        self.supplied_this_call += n;
        if self.pos == limit {
            match kind {
                Some(CutKind::WouldBlock) => self.block_next = true,
                Some(CutKind::Error(k)) => self.fail_next = Some(k),
                _ => {}
            }
        }
        Ok(n)
    }
}

fn err_name(e: &Error) -> String {
    match e {
        Error::MalformedFrame => "MalformedFrame".into(),
        Error::UnexpectedSocketClose => "UnexpectedSocketClose".into(),
        Error::FrameUnexpected => "HandlerError".into(),
        Error::IoErrorReadingSocket { .. } => "IoErrorReadingSocket".into(),
        other => format!("{:?}", other),
    }
}

/// Run one script; returns a violation (kind, detail) if the oracle fails.
pub fn run_one(stream: &Stream, data: &[u8], cuts: &[(usize, CutKind)], handler_fail_at: Option<usize>) -> Option<(String, String)> {
    // layout
    let mut ends = Vec::new(); // (end offset, Some(frame)|None)
    let mut off = 0;
    for it in &stream.items {
        off += it.bytes.len();
        ends.push((off, it.frame.as_ref()));
    }
    let first_bad = ends.iter().position(|(_, f)| f.is_none());
    let mut fb = FrameBuffer::new();
    let mut reader = ScriptRead { data, pos: 0, cuts, block_next: false, eof: stream.eof, supplied_this_call: 0, reads: 0, fail_next: None, eof_seen_this_call: false, error_seen_this_call: false };
    let error_cut = cuts.iter().filter(|(_, k)| matches!(k, CutKind::Error(_))).map(|(p, _)| *p).min();
    let mut handed: Vec<AMQPFrame> = Vec::new();
    let mut final_err: Option<Error> = None;
    let mut calls = 0;
    loop {
        calls += 1;
        if calls > 100_000 {
            return Some(("framebuf:no-progress".into(), "read_from called 100000 times".into()));
        }
        reader.supplied_this_call = 0;
        reader.eof_seen_this_call = false;
        reader.error_seen_this_call = false;
        let before = handed.len();
        let r = std::panic::catch_unwind(std::panic::AssertUnwindSafe(|| {
            fb.read_from(&mut reader, |f| {
                if Some(handed.len()) == handler_fail_at {
                    return Err(Error::FrameUnexpected);
                }
                handed.push(f);
                Ok(())
            })
        }));
        let r = match r {
            Ok(r) => r,
            Err(e) => return Some(("framebuf:panic".into(), format!("read_from panicked after {} bytes: {}", reader.pos, crate::slots::panic_msg(&e)))),
        };
        let _ = before;
        match r {
            Ok(n) => {
                // the end of the stream / a read error is seen exactly once (edge-triggered
                // readiness): the call that sees it must report it
                if reader.eof_seen_this_call {
                    return Some(("framebuf:eof-swallowed".into(), format!("a read returned 0 (end of stream) at offset {} but read_from returned Ok({})", reader.pos, n)));
                }
                if reader.error_seen_this_call {
                    return Some(("framebuf:read-error-swallowed".into(), format!("a read failed at offset {} but read_from returned Ok({})", reader.pos, n)));
                }
                if n != reader.supplied_this_call {
                    return Some(("framebuf:byte-count".into(), format!("read_from returned {} but {} bytes were supplied in that call", n, reader.supplied_this_call)));
                }
                // every valid frame (before the first malformed one) whose last byte has
                // arrived must have been handed on
                let limit_items = first_bad.unwrap_or(ends.len());
                let complete = ends[..limit_items].iter().filter(|(e, _)| *e <= reader.pos).count();
                let expect = match handler_fail_at {
                    Some(k) => complete.min(k),
                    None => complete,
                };
                if handed.len() < expect {
                    return Some(("framebuf:frame-held-back".into(), format!("after a read_from that ended at offset {}, {} frames were complete but only {} handed on", reader.pos, expect, handed.len())));
                }
                if let Some(b) = first_bad {
                    if ends[b].0 <= reader.pos {
                        return Some(("framebuf:malformed-not-reported".into(), format!("malformed frame fully received at offset {} but read_from returned Ok", ends[b].0)));
                    }
                }
                if let Some(k) = handler_fail_at {
                    if complete > k {
                        return Some(("framebuf:handler-error-swallowed".into(), "handler failed but read_from returned Ok".into()));
                    }
                }
                if reader.pos == data.len() && !reader.block_next && !stream.eof {
                    break;
                }
            }
            Err(e) => {
                final_err = Some(e);
                break;
            }
        }
    }
    // handed frames must be exactly the expected prefix, in order
    let limit_items = first_bad.unwrap_or(ends.len());
    // an injected read error at offset e: frames complete before e are handed on, then the error
    // (a malformed frame is recognised once the bytes its own size field announces are there)
    let bad_eff_end = first_bad.map(|b| {
        let start = if b == 0 { 0 } else { ends[b - 1].0 };
        let it = &stream.items[b].bytes;
        let by_size = if it.len() >= 7 { u32::from_be_bytes([it[3], it[4], it[5], it[6]]) as usize + 8 } else { it.len() };
        start + by_size.min(it.len())
    });
    let err_first = match (error_cut, first_bad) {
        (Some(e), Some(_)) => e < bad_eff_end.unwrap(),
        (Some(_), None) => true,
        _ => false,
    };
    let reach = if err_first { error_cut.unwrap() } else { data.len() };
    let mut expected: Vec<&AMQPFrame> = ends[..limit_items].iter().filter(|(e, _)| *e <= reach).map(|(_, f)| f.unwrap()).collect();
    if let Some(k) = handler_fail_at {
        expected.truncate(k);
    }
    if handed.len() > expected.len() {
        return Some(("framebuf:extra-or-late-frame".into(), format!("{} frames handed on, expected {}", handed.len(), expected.len())));
    }
    for (i, f) in handed.iter().enumerate() {
        if f != expected[i] {
            return Some(("framebuf:wrong-frame".into(), format!("frame {} differs: got {}, expected {}", i, vh::wire::brief(f), vh::wire::brief(expected[i]))));
        }
    }
    // outcome
    let complete_all = ends[..limit_items].iter().filter(|(e, _)| *e <= reach).count();
    let handler_fails = handler_fail_at.map(|k| k < complete_all).unwrap_or(false);
    let bad_complete = first_bad.map(|b| ends[b].0 <= data.len()).unwrap_or(false);
    let want = if handler_fails {
        "HandlerError"
    } else if err_first {
        "IoErrorReadingSocket"
    } else if bad_complete {
        "MalformedFrame"
    } else if stream.eof {
        "UnexpectedSocketClose"
    } else {
        "pending"
    };
    let got = final_err.as_ref().map(err_name).unwrap_or_else(|| "pending".into());
    if got != want {
        return Some((format!("framebuf:outcome:{}", want), format!("ended with {} expected {} (handed {} frames)", got, want, handed.len())));
    }
    if handed.len() != expected.len() {
        return Some(("framebuf:missing-frame".into(), format!("{} frames handed on, expected {} before {}", handed.len(), expected.len(), want)));
    }
    None
}

pub fn streams() -> Vec<Stream> {
    let mut v = Vec::new();
    let mk = |name: &str, items: Vec<Item>, eof: bool| Stream { name: name.to_string(), items, eof, truncate_at: None };
    v.push(mk("small-mix", vec![heartbeat(), open_ok(1), deliver(1), header(1, 3, true), body(1, 3), blocked(), heartbeat()], false));
    v.push(mk("small-mix-eof", vec![heartbeat(), deliver(2), header(2, 1, false), body(2, 1)], true));
    for k in ["bad-frame-end", "unknown-type", "bad-method-payload", "size-too-small", "truncated-header-payload", "bad-frame-end-body", "bad-frame-end-empty-body", "bad-frame-end-header", "bad-frame-end-heartbeat", "bad-frame-end-deliver"] {
        v.push(mk(&format!("malformed-{}", k), vec![open_ok(1), heartbeat(), malformed(k), heartbeat(), open_ok(2)], false));
        v.push(mk(&format!("malformed-first-{}", k), vec![malformed(k), heartbeat()], true));
    }
    for n in [4087usize, 4088, 4089, 5000, 9000] {
        v.push(mk(&format!("big-body-{}", n), vec![deliver(1), header(1, n as u64, true), body(1, n), heartbeat(), open_ok(3)], false));
    }
    v.push(mk("two-big-bodies", vec![body(1, 4088), body(1, 4089), heartbeat(), body(2, 5000), malformed("bad-frame-end"), heartbeat()], true));
    v.push(mk("300-heartbeats", (0..300).map(|_| heartbeat()).collect(), true));
    // a burst far beyond the read quantum and beyond 64 KiB that arrives in one piece (a consumer
    // attached to a backlog): 48 deliveries of 4000 bytes
    v.push(mk("burst-190k", { let mut x: Vec<Item> = Vec::new(); for _ in 0..48 { x.push(deliver(1)); x.push(header(1, 4000, false)); x.push(body(1, 4000)); } x.push(heartbeat()); x }, false));
    v.push(mk("heartbeats-then-body", { let mut x: Vec<Item> = (0..511).map(|_| heartbeat()).collect(); x.push(body(1, 9000)); x.push(heartbeat()); x }, false));
    v
}

fn cut_positions(stream: &Stream, data: &[u8], every_offset_upto: usize) -> Vec<usize> {
    let n = data.len();
    if n <= every_offset_upto {
        return (1..n).collect();
    }
    let mut s = std::collections::BTreeSet::new();
    let mut off = 0usize;
    let mut add = |p: isize| {
        if p > 0 && (p as usize) < n {
            s.insert(p as usize);
        }
    };
    let n_items = stream.items.len();
    for (idx, it) in stream.items.iter().enumerate() {
        // long runs of frames: boundaries of the first and last four only (the 4096k
        // offsets below still fall inside the run)
        if n_items <= 12 || idx < 4 || idx + 4 >= n_items {
            let b = off as isize;
            for d in [-1isize, 0, 1, 3, 6, 7, 8] {
                add(b + d);
            }
            add(b + (it.bytes.len() / 2) as isize);
            add((off + it.bytes.len()) as isize - 1);
        }
        off += it.bytes.len();
    }
    for k in 1..=(n / 4096 + 1) {
        for d in [-2isize, -1, 0, 1, 2] {
            add((k * 4096) as isize + d);
        }
    }
    add(n as isize - 1);
    s.into_iter().collect()
}

fn cuts_json(c: &[(usize, CutKind)]) -> Value {
    json!(c.iter().map(|(p, k)| json!([p, match k { CutKind::Short => "short".to_string(), CutKind::WouldBlock => "wouldblock".to_string(), CutKind::Error(e) => format!("error{}", e) }])).collect::<Vec<_>>())
}

fn report(p: &mut Part, stream_idx: usize, s: &Stream, cuts: &[(usize, CutKind)], fail_at: Option<usize>, r: Option<(String, String)>) {
    p.evaluations += 1;
    if !cuts.is_empty() {
        p.distinct_nontrivial += 1;
    }
    if let Some((k, d)) = r {
        p.violation(&k, format!("stream {} cuts {} handler_fail_at {:?}: {}", s.name, cuts_json(cuts), fail_at, d),
            json!({"engine":"seqx","check":"framebuf","stream":stream_idx,"stream_name":s.name,"truncate_at":s.truncate_at,"cuts":cuts_json(cuts),"handler_fail_at":fail_at}));
    }
}

/// `first`: None = the cut-free runs, handler failures and one-byte-per-read;
/// Some(i) = every cut set (up to max_cuts) whose smallest cut is pos[i].
fn explore_stream(idx: usize, s: &Stream, data: &[u8], pos: &[usize], first: Option<usize>, max_cuts: usize, p: &mut Part) {
    let kinds = [CutKind::Short, CutKind::WouldBlock];
    let i = match first {
        None => {
            report(p, idx, s, &[], None, run_one(s, data, &[], None));
            let nframes = s.items.iter().filter(|i| i.frame.is_some()).count().min(6);
            for k in 0..nframes {
                report(p, idx, s, &[], Some(k), run_one(s, data, &[], Some(k)));
                if let Some(mid) = pos.get(pos.len() / 2) {
                    for kind in kinds {
                        let c = [(*mid, kind)];
                        report(p, idx, s, &c, Some(k), run_one(s, data, &c, Some(k)));
                    }
                }
            }
            if data.len() <= 12000 {
                for kind in kinds {
                    let all: Vec<(usize, CutKind)> = (1..data.len()).map(|i| (i, kind)).collect();
                    report(p, idx, s, &all, None, run_one(s, data, &all, None));
                }
            }
            return;
        }
        Some(i) => i,
    };
    let a = pos[i];
    for ek in 0..3u8 {
        let c = [(a, CutKind::Error(ek))];
        report(p, idx, s, &c, None, run_one(s, data, &c, None));
        for &b in pos.iter().skip(i + 1).step_by(7) {
            for kb in kinds {
                let c = [(a, kb), (b, CutKind::Error(ek))];
                report(p, idx, s, &c, None, run_one(s, data, &c, None));
            }
        }
    }
    for ka in kinds {
        if max_cuts >= 1 {
            let c = [(a, ka)];
            report(p, idx, s, &c, None, run_one(s, data, &c, None));
        }
        if max_cuts >= 2 {
            for (j, &b) in pos.iter().enumerate().skip(i + 1) {
                for kb in kinds {
                    let c = [(a, ka), (b, kb)];
                    report(p, idx, s, &c, None, run_one(s, data, &c, None));
                    if max_cuts >= 3 {
                        for &c3 in &pos[j + 1..] {
                            for kc in kinds {
                                let c = [(a, ka), (b, kb), (c3, kc)];
                                report(p, idx, s, &c, None, run_one(s, data, &c, None));
                            }
                        }
                    }
                }
            }
        }
    }
}

pub fn run(args: &Args) {
    std::panic::set_hook(Box::new(|_| {}));
    let thorough = args.thorough();
    let mut part = Part::new("C06", "framebuf", "seqx", "model_checking", &args.tier);
    part.rule = "byte streams built from real AMQP frames (heartbeats, methods, headers, bodies of 1..9000 bytes around the 4096-byte read quantum, five kinds of malformed frame, EOF or pending end, truncation at every frame-relative position) read through the real FrameBuffer with a scripted reader: every placement of up to 2 (thorough: 3 on streams <= 160 B) cuts, each cut a short read or a would-block, over every byte offset (streams <= 300 B) or the cut menu (frame boundaries +-1,+3,+6,+7,+8, mid-payload, 4096k+-2, n-1); plus one-byte-per-read and handler failure at each frame. Non-trivial: at least one cut.".into();
    let all = streams();
    // truncation variants of the first small stream at every position (EOF after the cut)
    let mut work: Vec<(usize, Stream, usize, usize)> = Vec::new();
    let max_cuts = 2;
    for (i, s) in all.iter().enumerate() {
        let len = s.bytes().len();
        let _ = len;
        let mc = if s.name.starts_with("burst") { 1 } else if thorough { 3 } else { max_cuts };
        work.push((i, Stream { name: s.name.clone(), items: s.items.clone(), eof: s.eof, truncate_at: None }, mc, 300));
    }
    let base = &all[0];
    let blen = base.bytes().len();
    for t in 0..blen {
        work.push((0, Stream { name: format!("{}-truncated-{}", base.name, t), items: base.items.clone(), eof: true, truncate_at: Some(t) }, if thorough { 2 } else { 1 }, 300));
    }
    part.bounds.insert("streams".into(), json!(all.iter().map(|s| json!({"name": s.name, "bytes": s.bytes().len(), "eof": s.eof})).collect::<Vec<_>>()));
    part.bounds.insert("max_cuts".into(), json!(if thorough { 3 } else { 2 }));
    let tier = args.tier.clone();
    // tasks: (work index, first cut index or None)
    let prepared: Vec<(Vec<u8>, Vec<usize>)> = work.iter().map(|(_, s, _, upto)| { let d = s.bytes(); let pos = cut_positions(s, &d, *upto); (d, pos) }).collect();
    let mut tasks: Vec<(usize, Option<usize>)> = Vec::new();
    for (w, (_, pos)) in prepared.iter().enumerate() {
        tasks.push((w, None));
        for i in 0..pos.len() {
            tasks.push((w, Some(i)));
        }
    }
    part.extra.insert("tasks".into(), json!(tasks.len()));
    part.extra.insert("cut_positions_per_stream".into(), json!(work.iter().zip(prepared.iter()).filter(|((_, s, _, _), _)| s.truncate_at.is_none()).map(|((_, s, _, _), (_, pos))| json!([s.name, pos.len()])).collect::<Vec<_>>()));
    let results = par_map(tasks.len(), |t| {
        let (w, first) = tasks[t];
        let (idx, s, mc, _) = &work[w];
        let (data, pos) = &prepared[w];
        let mut p = Part::new("C06", "w", "seqx", "model_checking", &tier);
        explore_stream(*idx, s, data, pos, first, *mc, &mut p);
        if first.is_none() {
            p.outcome(if s.truncate_at.is_some() { "truncated-eof" } else if s.items.iter().any(|i| i.frame.is_none()) { "malformed" } else if s.eof { "eof" } else { "pending" });
        }
        p
    });
    for p in results {
        part.merge(p);
    }
    part.sample(json!({"stream":"small-mix","items":all[0].items.iter().map(|i| i.name.clone()).collect::<Vec<_>>(),"cuts":[[9,"short"],[31,"wouldblock"]]}));
    part.sample(json!({"stream":"big-body-4088","cuts":[[4096,"wouldblock"],[4127,"short"]]}));
    // states: distinct (stream, set of cut positions); transitions: read scripts executed
    part.states = part.evaluations;
    part.transitions = part.evaluations;
    part.traces_validated = part.evaluations;
    part.finish(args.out.as_deref());
}

pub fn replay(v: &Value) -> bool {
    let all = streams();
    let idx = v["stream"].as_u64().unwrap() as usize;
    let base = &all[idx];
    let s = Stream { name: base.name.clone(), items: base.items.clone(), eof: if v["truncate_at"].is_u64() { true } else { base.eof }, truncate_at: v["truncate_at"].as_u64().map(|x| x as usize) };
    let cuts: Vec<(usize, CutKind)> = v["cuts"].as_array().unwrap().iter().map(|c| (c[0].as_u64().unwrap() as usize, match c[1].as_str().unwrap_or("") { "short" => CutKind::Short, "wouldblock" => CutKind::WouldBlock, e => CutKind::Error(e.trim_start_matches("error").parse().unwrap_or(0)) })).collect();
    let fail_at = v["handler_fail_at"].as_u64().map(|x| x as usize);
    let data = s.bytes();
    println!("stream {} ({} bytes, eof {}), items {:?}", s.name, data.len(), s.eof, s.items.iter().map(|i| format!("{}:{}B", i.name, i.bytes.len())).collect::<Vec<_>>());
    println!("cuts {:?} handler_fail_at {:?}", cuts, fail_at);
    match run_one(&s, &data, &cuts, fail_at) {
        Some((k, d)) => {
            println!("VIOLATION {}: {}", k, d);
            false
        }
        None => {
            println!("ok");
            true
        }
    }
}
