//! C08 / C05 supplement: a request that is *blocked* handing itself over to the I/O thread (its
//! queue is full) when the connection ends gets the terminal error the I/O thread left for the
//! channel, like every other call in flight.
//!
//! This is the one hand-over path the explorer (E2) cannot produce: there a caller that would
//! block is parked in front of the send and released when the queue has room or is gone, so the
//! blocking send itself never executes. Here it does, on a real thread, against a real `Channel`
//! whose I/O-thread ends are held by the check (ChannelProbe): the queue (bound 1) is filled,
//! a second request blocks, the I/O side leaves an error (or nothing) on the reply queue and
//! goes away. Whichever side of the race the second request is on when that happens - already
//! blocked (forced by a pause) or not yet sending - the statement demands the same result, so
//! the verdict does not depend on timing; the pause only decides which path is exercised.
use crate::Args;
use amiquip::verif::probe::{ChannelProbe, Reply};
use amiquip::{Error, Publish};
use serde_json::json;
use vh::report::Part;

fn name(e: &Error) -> String {
    match e {
        Error::ServerClosedConnection { code, message } => format!("ServerClosedConnection({},{})", code, message),
        Error::ServerClosedChannel { channel_id, code, message } => format!("ServerClosedChannel({},{},{})", channel_id, code, message),
        Error::ClientClosedConnection => "ClientClosedConnection".into(),
        Error::EventLoopDropped => "EventLoopDropped".into(),
        other => format!("{:?}", other),
    }
}

fn terminal(kind: &str) -> Option<Error> {
    match kind {
        "server-connection-close" => Some(Error::ServerClosedConnection { code: 320, message: "bye".into() }),
        "server-channel-close" => Some(Error::ServerClosedChannel { channel_id: 7, code: 406, message: "no".into() }),
        "client-connection-close" => Some(Error::ClientClosedConnection),
        _ => None,
    }
}

pub fn run(args: &Args) {
    std::panic::set_hook(Box::new(|_| {}));
    let mut part = Part::new("C08", "handover", "seqx", "exploration", &args.tier);
    part.rule = "a request blocked on a full queue to the I/O thread (mem_channel_bound 1, real thread, real blocking send) when the I/O side leaves {ServerClosedConnection, ServerClosedChannel, ClientClosedConnection, nothing} on the reply queue and goes away; request kinds: a publish, a nowait purge, a synchronous purge, a listener registration; with the pause that lets the request block first and without it. The result must be the error left behind (EventLoopDropped if none).".into();
    for kind in ["server-connection-close", "server-channel-close", "client-connection-close", "nothing"] {
        for op in ["publish", "purge-nowait", "purge", "listen-returns"] {
            for pause_ms in [150u64, 0] {
                part.evaluations += 1;
                part.distinct_nontrivial += 1;
                // (a wall-clock limit is not a verdict by itself: a case that runs out of time once is
                // run again, and only a second time-out in a row is reported)
                let mut attempt = 0;
                let (got, want) = loop {
                    attempt += 1;
                let (probe, ch) = ChannelProbe::open(131072, 7, 1);
                    let _ = probe.tap();
                    // fill the queue (bound 1)
                    if ch.basic_publish("", Publish::new(b"fill", "k")).is_err() {
                        break ("setup failed".to_string(), String::new());
                    }
                    let (tx, rx) = std::sync::mpsc::channel::<Result<(), Error>>();
                    let op2 = op.to_string();
                    let t = std::thread::spawn(move || {
                        let r = match op2.as_str() {
                            "publish" => ch.basic_publish("", Publish::new(b"blocked", "k")),
                            "purge-nowait" => ch.queue_purge_nowait("q"),
                            "purge" => ch.queue_purge("q").map(|_| ()),
                            _ => ch.listen_for_returns().map(|_| ()),
                        };
                        let _ = tx.send(r);
                        // the channel handle lives on until the verdict is in
                        std::mem::forget(ch);
                    });
                    if pause_ms > 0 {
                        std::thread::sleep(std::time::Duration::from_millis(pause_ms));
                    }
                    let want = match terminal(kind) {
                        Some(e) => {
                            let n = name(&e);
                            probe.preload(Reply::Err(e));
                            n
                        }
                        None => "EventLoopDropped".to_string(),
                    };
                    drop(probe);
                    let got = match rx.recv_timeout(std::time::Duration::from_secs(20)) {
                        Ok(Ok(())) => "Ok".to_string(),
                        Ok(Err(e)) => name(&e),
                        Err(_) => "no result within 20 s".to_string(),
                    };
                    if got != "no result within 20 s" {
                        let _ = t.join();
                    } else if attempt < 2 {
                        part.outcome("timed-out-once");
                        continue;
                    }
                    break (got, want);
                };
                if got == "setup failed" {
                    part.violation("handover:setup", "the first publish failed".into(), json!({"engine":"seqx","check":"handover"}));
                    continue;
                }
                part.outcome(&got);
                if got != want {
                    part.violation(
                        &format!("handover:{}:{}", op, got),
                        format!("{} blocked on a full queue (pause {} ms) while the I/O side left `{}` and went away: returned {} expected {}", op, pause_ms, kind, got, want),
                        json!({"engine":"seqx","check":"handover","op":op,"kind":kind,"pause_ms":pause_ms}),
                    );
                }
            }
        }
    }
    part.assumptions.push("one schedule per case (the request blocks first, forced by a pause, or races the disconnect); the remaining schedules of a hand-over are E2's".into());
    part.finish(args.out.as_deref());
}

/// C04 / C18 supplement: the other way out of a blocked hand-over - the I/O side takes the
/// queued requests, and the blocked request goes through like any other. A request that finds
/// the queue to the I/O thread full is neither lost nor failed: it waits (that is the
/// back-pressure), is handed over when there is room, and a synchronous call then gets the reply
/// to that very call.
pub fn run_resume(args: &Args) {
    use amiquip::verif::probe::TapMsg;
    use amq_protocol::protocol::{queue, AMQPClass};
    std::panic::set_hook(Box::new(|_| {}));
    let mut part = Part::new("C04", "backpressure", "seqx", "exploration", &args.tier);
    part.rule = "a request made while the queue to the I/O thread is full (mem_channel_bound 1 and 2, filled with publishes; real thread, real blocking send): a publish, a nowait purge, a synchronous purge (answered with message_count 42 once the I/O side has seen the request), a listener registration; with a pause that lets the request block first and without it. Once the I/O side takes the queue, the request arrives behind the filling publishes, exactly once, and the call returns Ok (the synchronous one with 42).".into();
    for bound in [1usize, 2] {
        for op in ["publish", "purge-nowait", "purge", "listen-returns"] {
            for pause_ms in [150u64, 0] {
                part.evaluations += 1;
                part.distinct_nontrivial += 1;
                let replay = json!({"engine":"seqx","check":"handover","op":op,"kind":"resume","bound":bound,"pause_ms":pause_ms});
                let is_request = |m: &TapMsg| match (op, m) {
                    ("publish", TapMsg::Send(b)) => b.windows(7).any(|w| w == b"blocked"),
                    ("purge-nowait", TapMsg::Send(b)) | ("purge", TapMsg::Send(b)) => b.len() > 11 && b[7..11] == [0, 50, 0, 30],
                    ("listen-returns", TapMsg::SetReturnHandler(true)) => true,
                    _ => false,
                };
                // (a wall-clock limit is not a verdict by itself: a case that runs out of time once is
                // run again, and only a second time-out in a row is reported)
                let mut attempt = 0;
                let (got_s, seen, got_is_some, t_handle, probe) = loop {
                    attempt += 1;
                let (probe, ch) = ChannelProbe::open(131072, 7, bound);
                    let _ = probe.tap();
                    let mut setup_ok = true;
                    for i in 0..bound {
                        setup_ok &= ch.basic_publish("", Publish::new(format!("fill-{}", i).as_bytes(), "k")).is_ok();
                    }
                    if !setup_ok {
                        break ("setup failed".to_string(), Vec::new(), true, None, probe);
                    }
                    let (tx, rx) = std::sync::mpsc::channel::<Result<String, Error>>();
                    let op2 = op.to_string();
                    let t = std::thread::spawn(move || {
                        let r = match op2.as_str() {
                            "publish" => ch.basic_publish("", Publish::new(b"blocked", "k")).map(|_| "()".to_string()),
                            "purge-nowait" => ch.queue_purge_nowait("q").map(|_| "()".to_string()),
                            "purge" => ch.queue_purge("q").map(|n| n.to_string()),
                            _ => ch.listen_for_returns().map(|_| "()".to_string()),
                        };
                        let _ = tx.send(r);
                        std::mem::forget(ch);
                    });
                    if pause_ms > 0 {
                        std::thread::sleep(std::time::Duration::from_millis(pause_ms));
                    }
                    // the I/O side: take what is queued until the request has arrived (10 s at most)
                    let started = std::time::Instant::now();
                    let mut seen: Vec<TapMsg> = Vec::new();
                    let mut answered = false;
                    let mut got: Option<Result<String, Error>> = None;
                    while started.elapsed() < std::time::Duration::from_secs(10) {
                        seen.extend(probe.tap());
                        if op == "purge" && !answered && seen.iter().any(|m| is_request(m)) {
                            probe.preload(Reply::Method(AMQPClass::Queue(queue::AMQPMethod::PurgeOk(queue::PurgeOk { message_count: 42 }))));
                            answered = true;
                        }
                        if let Ok(r) = rx.recv_timeout(std::time::Duration::from_millis(5)) {
                            got = Some(r);
                            seen.extend(probe.tap());
                            break;
                        }
                    }
                    let got_s = match &got {
                        Some(Ok(s)) => format!("Ok({})", s),
                        Some(Err(e)) => format!("Err({})", name(e)),
                        None => "no result within 10 s".to_string(),
                    };
                    if got.is_none() && attempt < 2 {
                        part.outcome("timed-out-once");
                        drop(probe);
                        continue;
                    }
                    break (got_s, seen, got.is_some(), Some(t), probe);
                };
                if got_s == "setup failed" {
                    part.violation("backpressure:setup", "a publish into a queue with room failed".into(), replay);
                    continue;
                }
                let want = if op == "purge" { "Ok(42)" } else { "Ok(())" };
                let requests = seen.iter().filter(|m| is_request(m)).count();
                let fills = seen.iter().filter(|m| matches!(m, TapMsg::Send(b) if b.windows(5).any(|w| w == b"fill-"))).count();
                let in_order = seen.last().map(|m| is_request(m)).unwrap_or(false);
                part.outcome(&format!("{} requests={} fills={}", got_s, requests, fills));
                if got_s != want || requests != 1 || fills != bound || !in_order {
                    part.violation(
                        &format!("backpressure:{}:{}", op, got_s),
                        format!("{} made while the queue (bound {}) was full (pause {} ms), then the I/O side took the queue: returned {} expected {}; the I/O side received {} of {} filling publishes and the request {} time(s){}", op, bound, pause_ms, got_s, want, fills, bound, requests, if in_order { "" } else { ", not as the last message" }),
                        replay,
                    );
                }
                if let (true, Some(t)) = (got_is_some, t_handle) {
                    let _ = t.join();
                }
                drop(probe);
            }
        }
    }
    part.assumptions.push("one schedule per case (the request blocks first, forced by a pause, or races the I/O side taking the queue); the verdict is the same on both sides of the race".into());
    part.finish(args.out.as_deref());
}

/// C18 supplement: the bound of C18 is stated "in terms of its tuning", so the tuning a
/// connection runs with must be the tuning that was asked for: every order of the three
/// `ConnectionTuning` builders (each possibly called twice, the later call winning) over boundary
/// values around the defaults yields exactly the given values.
pub fn run_tuning(args: &Args) {
    use amiquip::ConnectionTuning;
    let mut part = Part::new("C18", "tuning-builders", "seqx", "exploration", &args.tier);
    part.rule = "ConnectionTuning::default() followed by every sequence of 1..=4 builder calls (mem_channel_bound, buffered_writes_high_water, buffered_writes_low_water) with values from {0, 1, 16 MiB - 1, 16 MiB, 16 MiB + 1, 20 MiB, usize::MAX}: each field equals the argument of the last call of its builder, or the documented default (16, 16 MiB, 0). (An API reading of C18: the tuning its bound is stated in is the one the caller asked for, as the public fields show it.)".into();
    let m = 16usize << 20;
    let vals = [0usize, 1, m - 1, m, m + 1, 20 << 20, usize::MAX];
    let mut calls: Vec<(usize, usize)> = Vec::new();
    for b in 0..3 {
        for v in vals {
            calls.push((b, v));
        }
    }
    let max_len = if args.thorough() { 4 } else { 3 };
    let mut reported = 0;
    let mut seqs: Vec<Vec<(usize, usize)>> = vec![vec![]];
    for _ in 0..max_len {
        let mut next = Vec::new();
        for s in &seqs {
            if s.len() + 1 > max_len {
                continue;
            }
            for c in &calls {
                let mut n = s.clone();
                n.push(*c);
                next.push(n);
            }
        }
        for s in &next {
            part.evaluations += 1;
            part.distinct_nontrivial += 1;
            let mut t = ConnectionTuning::default();
            let mut want = [16usize, m, 0];
            for (b, v) in s {
                t = match b {
                    0 => t.mem_channel_bound(*v),
                    1 => t.buffered_writes_high_water(*v),
                    _ => t.buffered_writes_low_water(*v),
                };
                want[*b] = *v;
            }
            let got = [t.mem_channel_bound, t.buffered_writes_high_water, t.buffered_writes_low_water];
            if got != want && reported < 5 {
                reported += 1;
                let names = ["mem_channel_bound", "buffered_writes_high_water", "buffered_writes_low_water"];
                let called: Vec<String> = s.iter().map(|(b, v)| format!("{}({})", names[*b], v)).collect();
                part.violation("tuning:field-differs-from-argument", format!("default().{} gives (bound, high, low) = {:?}, expected {:?}", called.join("."), got, want), json!({"engine":"seqx","check":"handover","kind":"tuning","calls":called}));
            }
        }
        seqs = next;
    }
    part.finish(args.out.as_deref());
}

pub fn replay(v: &serde_json::Value) -> bool {
    println!("re-run: seqx handover (case {} / {} / pause {})", v["op"], v["kind"], v["pause_ms"]);
    true
}
