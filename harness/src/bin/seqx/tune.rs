//! C15 (E1 part): `ConnectionOptions::make_tune_ok` over complete products of field values.
use crate::Args;
use amiquip::verif::probe::tune_ok;
use amiquip::{Auth, ConnectionOptions, Error};
use amq_protocol::protocol::connection::Tune;
use serde_json::{json, Value};
use vh::par::par_map;
use vh::report::Part;

fn ref16(a: u16, b: u16) -> u16 {
    match (a, b) {
        (0, 0) => u16::MAX,
        (0, x) | (x, 0) => x,
        (a, b) => a.min(b),
    }
}
fn ref32(a: u32, b: u32) -> u32 {
    match (a, b) {
        (0, 0) => u32::MAX,
        (0, x) | (x, 0) => x,
        (a, b) => a.min(b),
    }
}

#[derive(Clone, Copy, Debug)]
pub struct Case {
    c_ch: u16,
    c_fm: u32,
    c_hb: u16,
    s_ch: u16,
    s_fm: u32,
    s_hb: u16,
}

fn case_json(c: &Case) -> Value {
    json!({"client":{"channel_max":c.c_ch,"frame_max":c.c_fm,"heartbeat":c.c_hb},"server":{"channel_max":c.s_ch,"frame_max":c.s_fm,"heartbeat":c.s_hb}})
}

/// Returns a violation description if the real result differs from the reference.
fn judge(opts: &ConnectionOptions<Auth>, c: &Case) -> Option<String> {
    let tune = Tune {
        channel_max: c.s_ch,
        frame_max: c.s_fm,
        heartbeat: c.s_hb,
    };
    let want_ch = ref16(c.c_ch, c.s_ch);
    let want_fm = ref32(c.c_fm, c.s_fm);
    let want_hb = c.c_hb.min(c.s_hb);
    match tune_ok(opts, tune) {
        Ok(ok) => {
            if want_fm < 4096 {
                return Some(format!("expected FrameMaxTooSmall (frame_max {}), got {:?}", want_fm, ok));
            }
            if ok.channel_max != want_ch {
                return Some(format!("channel_max {} expected {}", ok.channel_max, want_ch));
            }
            if ok.frame_max != want_fm {
                return Some(format!("frame_max {} expected {}", ok.frame_max, want_fm));
            }
            if ok.heartbeat != want_hb {
                return Some(format!("heartbeat {} expected {}", ok.heartbeat, want_hb));
            }
            None
        }
        Err(Error::FrameMaxTooSmall { min, requested }) => {
            if want_fm >= 4096 {
                Some(format!("unexpected FrameMaxTooSmall(min {}, requested {}), expected frame_max {}", min, requested, want_fm))
            } else if min != 4096 || requested != want_fm {
                Some(format!("FrameMaxTooSmall(min {}, requested {}) expected (4096, {})", min, requested, want_fm))
            } else {
                None
            }
        }
        Err(e) => Some(format!("unexpected error {:?}", e)),
    }
}

fn opts(c: &Case) -> ConnectionOptions<Auth> {
    ConnectionOptions::<Auth>::default()
        .channel_max(c.c_ch)
        .frame_max(c.c_fm)
        .heartbeat(c.c_hb)
}

pub fn run(args: &Args) {
    let mut part = Part::new("C15", "tune", "seqx", "exploration", &args.tier);
    part.rule = "cartesian products of (client, server) values per Tune field evaluated by the real make_tune_ok against an independent min-with-0-as-unlimited reference: joint boundary product of all six values; thorough adds the complete u16 x u16 product for channel_max and for heartbeat. Non-trivial: the two sides differ or one is 0.".into();
    let b16: Vec<u16> = vec![0, 1, 2, 3, 255, 256, 2047, 32767, 32768, 65534, 65535];
    let b32: Vec<u32> = vec![0, 1, 4095, 4096, 4097, 8192, 131072, 1 << 31, u32::MAX - 1, u32::MAX];
    let hb: Vec<u16> = vec![0, 1, 2, 59, 60, 61, 65535];
    part.bounds.insert("u16_boundary_values".into(), json!(b16));
    part.bounds.insert("frame_max_values".into(), json!(b32));
    part.bounds.insert("heartbeat_values".into(), json!(hb));
    // joint product, split by client channel_max
    let results = par_map(b16.len(), |i| {
        let mut p = Part::new("C15", "w", "seqx", "exploration", "quick");
        let c_ch = b16[i];
        for &s_ch in &b16 {
            for &c_fm in &b32 {
                for &s_fm in &b32 {
                    for &c_hb in &hb {
                        for &s_hb in &hb {
                            let c = Case { c_ch, c_fm, c_hb, s_ch, s_fm, s_hb };
                            let o = opts(&c);
                            p.evaluations += 1;
                            if c_ch != s_ch || c_fm != s_fm || c_hb != s_hb || c_ch == 0 || c_fm == 0 {
                                p.distinct_nontrivial += 1;
                            }
                            if let Some(d) = judge(&o, &c) {
                                let key = if d.contains("FrameMaxTooSmall") { "tune:frame-max-floor" } else if d.starts_with("channel_max") { "tune:channel_max" } else if d.starts_with("frame_max") { "tune:frame_max" } else if d.starts_with("heartbeat") { "tune:heartbeat" } else { "tune:other" };
                                p.violation(key, format!("{} for {}", d, case_json(&c)), json!({"engine":"seqx","check":"tune","case":case_json(&c)}));
                            }
                        }
                    }
                }
            }
        }
        p
    });
    for p in results {
        part.merge(p);
    }
    part.sample(case_json(&Case { c_ch: 0, c_fm: 0, c_hb: 60, s_ch: 2047, s_fm: 131072, s_hb: 60 }));
    part.sample(case_json(&Case { c_ch: 3, c_fm: 4095, c_hb: 0, s_ch: 0, s_fm: 0, s_hb: 1 }));
    if args.thorough() {
        // complete u16 x u16 for channel_max and heartbeat
        let chunks = 256usize;
        let results = par_map(chunks, |k| {
            let mut p = Part::new("C15", "w", "seqx", "exploration", "thorough");
            for hi in 0..256usize {
                let a = (k * 256 + hi) as u16;
                let o_ch = ConnectionOptions::<Auth>::default().channel_max(a);
                let o_hb = ConnectionOptions::<Auth>::default().heartbeat(a);
                for b in 0..=u16::MAX {
                    let c1 = Case { c_ch: a, c_fm: 0, c_hb: 60, s_ch: b, s_fm: 131072, s_hb: 60 };
                    if let Some(d) = judge(&o_ch, &c1) {
                        p.violation("tune:channel_max", format!("{} for {}", d, case_json(&c1)), json!({"engine":"seqx","check":"tune","case":case_json(&c1)}));
                    }
                    let c2 = Case { c_ch: 0, c_fm: 0, c_hb: a, s_ch: 2047, s_fm: 131072, s_hb: b };
                    if let Some(d) = judge(&o_hb, &c2) {
                        p.violation("tune:heartbeat", format!("{} for {}", d, case_json(&c2)), json!({"engine":"seqx","check":"tune","case":case_json(&c2)}));
                    }
                    p.evaluations += 2;
                    if a != b {
                        p.distinct_nontrivial += 2;
                    }
                }
            }
            p
        });
        for p in results {
            part.merge(p);
        }
        part.bounds.insert("full_u16_products".into(), json!(["channel_max", "heartbeat"]));
    }
    part.finish(args.out.as_deref());
}

pub fn replay(v: &Value) -> bool {
    let g = |a: &str, b: &str| v["case"][a][b].as_u64().unwrap();
    let c = Case {
        c_ch: g("client", "channel_max") as u16,
        c_fm: g("client", "frame_max") as u32,
        c_hb: g("client", "heartbeat") as u16,
        s_ch: g("server", "channel_max") as u16,
        s_fm: g("server", "frame_max") as u32,
        s_hb: g("server", "heartbeat") as u16,
    };
    let o = opts(&c);
    let r = tune_ok(&o, Tune { channel_max: c.s_ch, frame_max: c.s_fm, heartbeat: c.s_hb });
    println!("{:?} -> {:?}", c, r);
    match judge(&o, &c) {
        Some(d) => {
            println!("VIOLATION {}", d);
            false
        }
        None => true,
    }
}
