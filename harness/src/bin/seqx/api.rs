//! C12 (E1 part): every wire-emitting public operation, every combination of its boolean
//! options and value classes for strings / tables / numbers, compared with a hand-written
//! expectation of the exact AMQP method. Also the E1 slice of C04 (returned values).
use crate::Args;
use amiquip::verif::probe::{ChannelProbe, DispatchProbe, Reply, TapMsg};
use amiquip::{
    AmqpValue, Channel, ConsumerOptions, Delivery, ExchangeDeclareOptions, ExchangeType, FieldTable, Get, QueueDeclareOptions,
    QueueDeleteOptions,
};
use amq_protocol::frame::{AMQPContentHeader, AMQPFrame};
use amq_protocol::protocol::{basic, channel, confirm, connection, exchange, queue, AMQPClass};
use serde_json::{json, Value};
use std::panic::{catch_unwind, AssertUnwindSafe};
use vh::report::Part;
use vh::wire::split_envelopes;

fn strs() -> Vec<String> {
    vec!["".into(), "a".into(), std::iter::repeat('z').take(255).collect(), "ünï.κλειδί".into()]
}

fn tables() -> Vec<FieldTable> {
    let empty = FieldTable::new();
    let mut kinds = FieldTable::new();
    kinds.insert("bool".into(), AmqpValue::Boolean(true));
    kinds.insert("i8".into(), AmqpValue::ShortShortInt(-8));
    kinds.insert("u8".into(), AmqpValue::ShortShortUInt(200));
    kinds.insert("i16".into(), AmqpValue::ShortInt(-300));
    kinds.insert("u16".into(), AmqpValue::ShortUInt(65535));
    kinds.insert("i32".into(), AmqpValue::LongInt(i32::MIN));
    kinds.insert("u32".into(), AmqpValue::LongUInt(u32::MAX));
    kinds.insert("i64".into(), AmqpValue::LongLongInt(i64::MAX));
    kinds.insert("f32".into(), AmqpValue::Float(1.5));
    kinds.insert("f64".into(), AmqpValue::Double(-2.25));
    kinds.insert("str".into(), AmqpValue::LongString("x-value".into()));
    kinds.insert("ts".into(), AmqpValue::Timestamp(1_600_000_000));
    kinds.insert("void".into(), AmqpValue::Void);
    kinds.insert("bytes".into(), AmqpValue::ByteArray(vec![0, 1, 255]));
    kinds.insert("arr".into(), AmqpValue::FieldArray(vec![AmqpValue::LongInt(1), AmqpValue::LongString("two".into())]));
    let mut nested = FieldTable::new();
    let mut inner = FieldTable::new();
    inner.insert("x-max-length".into(), AmqpValue::LongInt(10));
    nested.insert("inner".into(), AmqpValue::FieldTable(inner));
    nested.insert("x-queue-type".into(), AmqpValue::LongString("quorum".into()));
    vec![empty, kinds, nested]
}

struct Ctx {
    probe: ChannelProbe,
    chan: u16,
    part: Part,
}

impl Ctx {
    /// The call must have produced exactly one method frame on our channel equal to `want`.
    fn expect_one(&mut self, op: &str, args: Value, want: AMQPClass) {
        progress(op);
        self.part.evaluations += 1;
        self.part.distinct_nontrivial += 1;
        self.part.outcome(op);
        let taps = self.probe.tap();
        let fail = |part: &mut Part, kind: &str, d: String| {
            part.violation(&format!("api:{}:{}", op, kind), format!("{}({}): {}", op, args, d), json!({"engine":"seqx","check":"api","op":op,"args":args}));
        };
        if taps.len() != 1 {
            return fail(&mut self.part, "message-count", format!("{} messages handed to the I/O thread: {:?}", taps.len(), taps.iter().map(|t| format!("{:?}", t).chars().take(80).collect::<String>()).collect::<Vec<_>>()));
        }
        let bytes = match &taps[0] {
            TapMsg::Send(b) => b.clone(),
            other => return fail(&mut self.part, "message-kind", format!("{:?}", other)),
        };
        let (envs, used, err) = split_envelopes(&bytes);
        if err.is_some() || used != bytes.len() || envs.len() != 1 {
            return fail(&mut self.part, "not-one-frame", format!("{} frames in {} bytes ({:?})", envs.len(), bytes.len(), err));
        }
        if envs[0].chan != self.chan {
            return fail(&mut self.part, "wrong-channel", format!("frame on channel {} expected {}", envs[0].chan, self.chan));
        }
        // (a) byte-for-byte equal to the serialization of the expected method
        let want_bytes = vh::wire::frame_bytes(&AMQPFrame::Method(self.chan, want.clone()));
        if want_bytes != bytes {
            return fail(&mut self.part, "wrong-method", format!("sent {:?}\n expected {:?}", envs[0].decode().map(|f| vh::wire::brief(&f)), want));
        }
        // (b) independently of amq-protocol: class/method ids, exact payload length and
        // the packed flag octet, from a spec-derived layout and a hand-written flag list
        match vh::wire::request_bits(&envs[0].payload) {
            Err(e) => fail(&mut self.part, "layout", e),
            Ok((class, method, bits)) => {
                let (wc, wm, wbits) = expected_ids_and_bits(&want);
                if (class, method) != (wc, wm) {
                    fail(&mut self.part, "method-id", format!("{}.{} expected {}.{}", class, method, wc, wm));
                } else if bits != wbits {
                    fail(&mut self.part, "flag-bits", format!("flag octet {:?} expected {:?} for {:?}", bits, wbits, want));
                }
            }
        }
    }

    fn expect_none(&mut self, op: &str, args: Value) {
        self.part.evaluations += 1;
        self.part.distinct_nontrivial += 1;
        self.part.outcome(op);
        let taps = self.probe.tap();
        if !taps.is_empty() {
            self.part.violation(&format!("api:{}:sent-something", op), format!("{}({}): expected nothing on the wire, got {:?}", op, args, taps), json!({"engine":"seqx","check":"api","op":op,"args":args}));
        }
    }

    fn check(&mut self, op: &str, args: &Value, ok: bool, what: String) {
        if !ok {
            self.part.violation(&format!("api:{}:result", op), format!("{}({}): {}", op, args, what), json!({"engine":"seqx","check":"api","op":op,"args":args}));
        }
    }

    fn preload_method(&self, m: AMQPClass) {
        self.probe.preload(Reply::Method(m));
    }
}

fn pack(bits: &[bool]) -> Option<u8> {
    Some(bits.iter().enumerate().map(|(i, b)| if *b { 1u8 << i } else { 0 }).sum())
}

/// AMQP 0-9-1 class id, method id and packed flag octet (bit order from the specification).
fn expected_ids_and_bits(m: &AMQPClass) -> (u16, u16, Option<u8>) {
    match m {
        AMQPClass::Connection(connection::AMQPMethod::Close(_)) => (10, 50, None),
        AMQPClass::Channel(channel::AMQPMethod::Open(_)) => (20, 10, None),
        AMQPClass::Channel(channel::AMQPMethod::Close(_)) => (20, 40, None),
        AMQPClass::Exchange(exchange::AMQPMethod::Declare(d)) => (40, 10, pack(&[d.passive, d.durable, d.auto_delete, d.internal, d.nowait])),
        AMQPClass::Exchange(exchange::AMQPMethod::Delete(d)) => (40, 20, pack(&[d.if_unused, d.nowait])),
        AMQPClass::Exchange(exchange::AMQPMethod::Bind(d)) => (40, 30, pack(&[d.nowait])),
        AMQPClass::Exchange(exchange::AMQPMethod::Unbind(d)) => (40, 40, pack(&[d.nowait])),
        AMQPClass::Queue(queue::AMQPMethod::Declare(d)) => (50, 10, pack(&[d.passive, d.durable, d.exclusive, d.auto_delete, d.nowait])),
        AMQPClass::Queue(queue::AMQPMethod::Bind(d)) => (50, 20, pack(&[d.nowait])),
        AMQPClass::Queue(queue::AMQPMethod::Purge(d)) => (50, 30, pack(&[d.nowait])),
        AMQPClass::Queue(queue::AMQPMethod::Delete(d)) => (50, 40, pack(&[d.if_unused, d.if_empty, d.nowait])),
        AMQPClass::Queue(queue::AMQPMethod::Unbind(_)) => (50, 50, None),
        AMQPClass::Basic(basic::AMQPMethod::Qos(d)) => (60, 10, pack(&[d.global])),
        AMQPClass::Basic(basic::AMQPMethod::Consume(d)) => (60, 20, pack(&[d.no_local, d.no_ack, d.exclusive, d.nowait])),
        AMQPClass::Basic(basic::AMQPMethod::Cancel(d)) => (60, 30, pack(&[d.nowait])),
        AMQPClass::Basic(basic::AMQPMethod::Get(d)) => (60, 70, pack(&[d.no_ack])),
        AMQPClass::Basic(basic::AMQPMethod::Ack(d)) => (60, 80, pack(&[d.multiple])),
        AMQPClass::Basic(basic::AMQPMethod::Reject(d)) => (60, 90, pack(&[d.requeue])),
        AMQPClass::Basic(basic::AMQPMethod::Recover(d)) => (60, 110, pack(&[d.requeue])),
        AMQPClass::Basic(basic::AMQPMethod::Nack(d)) => (60, 120, pack(&[d.multiple, d.requeue])),
        AMQPClass::Confirm(confirm::AMQPMethod::Select(d)) => (85, 10, pack(&[d.nowait])),
        other => panic!("no expectation for {:?}", other),
    }
}

fn bools(n: usize) -> Vec<Vec<bool>> {
    (0..(1usize << n)).map(|m| (0..n).map(|i| m & (1 << i) != 0).collect()).collect()
}

/// A Delivery / Get that arrived on channel `chan` with the given tag (through the real
/// collector and dispatch).
pub fn make_get(chan: u16, tag: u64) -> Get {
    let mut d = DispatchProbe::new(8, 16);
    d.open_slot(Some(chan)).expect("slot");
    d.feed(AMQPFrame::Method(chan, AMQPClass::Basic(basic::AMQPMethod::GetOk(basic::GetOk { delivery_tag: tag, redelivered: false, exchange: "e".into(), routing_key: "r".into(), message_count: 4 })))).expect("getok");
    d.feed(AMQPFrame::Header(chan, 60, Box::new(AMQPContentHeader { class_id: 60, weight: 0, body_size: 0, properties: Default::default() }))).expect("header");
    let (mut replies, _) = d.drain_replies(chan);
    match replies.pop() {
        Some(Reply::GetOk(Some(g))) => g,
        other => panic!("no get: {:?}", other),
    }
}

fn make_delivery(chan: u16, tag: u64) -> Delivery {
    make_get(chan, tag).delivery
}

fn run_table(cx: &mut Ctx, ch: &Channel) {
    let ss = strs();
    let ts = tables();
    let chan = cx.chan;
    let qdecl_ok = |q: &str, m: u32, c: u32| AMQPClass::Queue(queue::AMQPMethod::DeclareOk(queue::DeclareOk { queue: q.to_string(), message_count: m, consumer_count: c }));
    // ---- Channel: qos / recover / confirms
    for b in bools(1) {
        for (ps, pc) in [(0u32, 0u16), (1, 1), (u32::MAX, u16::MAX)] {
            let a = json!({"prefetch_size":ps,"prefetch_count":pc,"global":b[0]});
            cx.preload_method(AMQPClass::Basic(basic::AMQPMethod::QosOk(basic::QosOk {})));
            let r = ch.qos(ps, pc, b[0]);
            cx.check("Channel::qos", &a, r.is_ok(), format!("{:?}", r));
            cx.expect_one("Channel::qos", a, AMQPClass::Basic(basic::AMQPMethod::Qos(basic::Qos { prefetch_size: ps, prefetch_count: pc, global: b[0] })));
        }
        let a = json!({"requeue":b[0]});
        cx.preload_method(AMQPClass::Basic(basic::AMQPMethod::RecoverOk(basic::RecoverOk {})));
        let r = ch.recover(b[0]);
        cx.check("Channel::recover", &a, r.is_ok(), format!("{:?}", r));
        cx.expect_one("Channel::recover", a, AMQPClass::Basic(basic::AMQPMethod::Recover(basic::Recover { requeue: b[0] })));
        let a = json!({"requeue":b[0]});
        let r = ch.nack_all(b[0]);
        cx.check("Channel::nack_all", &a, r.is_ok(), format!("{:?}", r));
        cx.expect_one("Channel::nack_all", a, AMQPClass::Basic(basic::AMQPMethod::Nack(basic::Nack { delivery_tag: 0, multiple: true, requeue: b[0] })));
    }
    let r = ch.ack_all();
    cx.check("Channel::ack_all", &json!({}), r.is_ok(), format!("{:?}", r));
    cx.expect_one("Channel::ack_all", json!({}), AMQPClass::Basic(basic::AMQPMethod::Ack(basic::Ack { delivery_tag: 0, multiple: true })));
    cx.preload_method(AMQPClass::Confirm(confirm::AMQPMethod::SelectOk(confirm::SelectOk {})));
    let r = ch.enable_publisher_confirms();
    cx.check("Channel::enable_publisher_confirms", &json!({}), r.is_ok(), format!("{:?}", r));
    cx.expect_one("Channel::enable_publisher_confirms", json!({}), AMQPClass::Confirm(confirm::AMQPMethod::Select(confirm::Select { nowait: false })));
    let r = ch.enable_publisher_confirms_nowait();
    cx.check("Channel::enable_publisher_confirms_nowait", &json!({}), r.is_ok(), format!("{:?}", r));
    cx.expect_one("Channel::enable_publisher_confirms_nowait", json!({}), AMQPClass::Confirm(confirm::AMQPMethod::Select(confirm::Select { nowait: true })));

    // ---- queues
    for (si, s) in ss.iter().enumerate() {
        let s2 = &ss[(si + 1) % ss.len()];
        let s3 = &ss[(si + 2) % ss.len()];
        for (ti, t) in ts.iter().enumerate() {
            for b in bools(3) {
                let opts = QueueDeclareOptions { durable: b[0], exclusive: b[1], auto_delete: b[2], arguments: t.clone() };
                let a = json!({"queue_class":si,"table_class":ti,"durable":b[0],"exclusive":b[1],"auto_delete":b[2]});
                let want = |passive: bool, nowait: bool, bb: &[bool], tt: &FieldTable| AMQPClass::Queue(queue::AMQPMethod::Declare(queue::Declare { ticket: 0, queue: s.clone(), passive, durable: bb[0], exclusive: bb[1], auto_delete: bb[2], nowait, arguments: tt.clone() }));
                cx.probe.preload(Reply::Method(qdecl_ok("server-named", 7, 3)));
                match ch.queue_declare(s.as_str(), opts.clone()) {
                    Ok(q) => cx.check("Channel::queue_declare", &a, q.name() == "server-named" && q.declared_message_count() == Some(7) && q.declared_consumer_count() == Some(3), format!("returned queue {:?} {:?} {:?}", q.name(), q.declared_message_count(), q.declared_consumer_count())),
                    Err(e) => cx.check("Channel::queue_declare", &a, false, format!("{:?}", e)),
                }
                cx.expect_one("Channel::queue_declare", a.clone(), want(false, false, &b, t));
                if !s.is_empty() {
                    match ch.queue_declare_nowait(s.as_str(), opts.clone()) {
                        Ok(q) => cx.check("Channel::queue_declare_nowait", &a, q.name() == s && q.declared_message_count().is_none(), format!("returned queue {:?}", q.name())),
                        Err(e) => cx.check("Channel::queue_declare_nowait", &a, false, format!("{:?}", e)),
                    }
                    cx.expect_one("Channel::queue_declare_nowait", a.clone(), want(false, true, &b, t));
                }
            }
            // bind / unbind: queue, exchange, routing key all different
            let a = json!({"queue_class":si,"table_class":ti});
            cx.preload_method(AMQPClass::Queue(queue::AMQPMethod::BindOk(queue::BindOk {})));
            let r = ch.queue_bind(s.as_str(), s2.as_str(), s3.as_str(), t.clone());
            cx.check("Channel::queue_bind", &a, r.is_ok(), format!("{:?}", r));
            cx.expect_one("Channel::queue_bind", a.clone(), AMQPClass::Queue(queue::AMQPMethod::Bind(queue::Bind { ticket: 0, queue: s.clone(), exchange: s2.clone(), routing_key: s3.clone(), nowait: false, arguments: t.clone() })));
            let r = ch.queue_bind_nowait(s.as_str(), s2.as_str(), s3.as_str(), t.clone());
            cx.check("Channel::queue_bind_nowait", &a, r.is_ok(), format!("{:?}", r));
            cx.expect_one("Channel::queue_bind_nowait", a.clone(), AMQPClass::Queue(queue::AMQPMethod::Bind(queue::Bind { ticket: 0, queue: s.clone(), exchange: s2.clone(), routing_key: s3.clone(), nowait: true, arguments: t.clone() })));
            cx.preload_method(AMQPClass::Queue(queue::AMQPMethod::UnbindOk(queue::UnbindOk {})));
            let r = ch.queue_unbind(s.as_str(), s2.as_str(), s3.as_str(), t.clone());
            cx.check("Channel::queue_unbind", &a, r.is_ok(), format!("{:?}", r));
            cx.expect_one("Channel::queue_unbind", a.clone(), AMQPClass::Queue(queue::AMQPMethod::Unbind(queue::Unbind { ticket: 0, queue: s.clone(), exchange: s2.clone(), routing_key: s3.clone(), arguments: t.clone() })));
            // consume
            for b in bools(3) {
                let a = json!({"queue_class":si,"table_class":ti,"no_local":b[0],"no_ack":b[1],"exclusive":b[2]});
                let (tx, rx) = ChannelProbe::consumer_pair();
                cx.probe.preload(Reply::ConsumeOk("ctag-7".into(), rx));
                match ch.basic_consume(s.as_str(), ConsumerOptions { no_local: b[0], no_ack: b[1], exclusive: b[2], arguments: t.clone() }) {
                    Ok(consumer) => {
                        cx.check("Channel::basic_consume", &a, consumer.consumer_tag() == "ctag-7", format!("tag {:?}", consumer.consumer_tag()));
                        cx.expect_one("Channel::basic_consume", a.clone(), AMQPClass::Basic(basic::AMQPMethod::Consume(basic::Consume { ticket: 0, queue: s.clone(), consumer_tag: "".into(), no_local: b[0], no_ack: b[1], exclusive: b[2], nowait: false, arguments: t.clone() })));
                        // cancel: Basic.Cancel with the server's tag, nowait false; twice sends once
                        cx.preload_method(AMQPClass::Basic(basic::AMQPMethod::CancelOk(basic::CancelOk { consumer_tag: "ctag-7".into() })));
                        let r = consumer.cancel();
                        cx.check("Consumer::cancel", &a, r.is_ok(), format!("{:?}", r));
                        cx.expect_one("Consumer::cancel", a.clone(), AMQPClass::Basic(basic::AMQPMethod::Cancel(basic::Cancel { consumer_tag: "ctag-7".into(), nowait: false })));
                        let r = consumer.cancel();
                        cx.check("Consumer::cancel(second)", &a, r.is_ok(), format!("{:?}", r));
                        cx.expect_none("Consumer::cancel(second)", a.clone());
                        drop(consumer);
                        cx.expect_none("Consumer::drop(after cancel)", a.clone());
                    }
                    Err(e) => cx.check("Channel::basic_consume", &a, false, format!("{:?}", e)),
                }
                drop(tx);
            }
        }
        // passive, purge, delete, get
        let a = json!({"queue_class":si});
        cx.probe.preload(Reply::Method(qdecl_ok(s, 1, 2)));
        let r = ch.queue_declare_passive(s.as_str()).map(|q| (q.name().to_string(), q.declared_message_count(), q.declared_consumer_count()));
        cx.check("Channel::queue_declare_passive", &a, matches!(&r, Ok((n, Some(1), Some(2))) if n == s), format!("{:?}", r));
        cx.expect_one("Channel::queue_declare_passive", a.clone(), AMQPClass::Queue(queue::AMQPMethod::Declare(queue::Declare { ticket: 0, queue: s.clone(), passive: true, durable: false, exclusive: false, auto_delete: false, nowait: false, arguments: FieldTable::new() })));
        for count in [0u32, 1, u32::MAX] {
            cx.preload_method(AMQPClass::Queue(queue::AMQPMethod::PurgeOk(queue::PurgeOk { message_count: count })));
            let r = ch.queue_purge(s.as_str());
            cx.check("Channel::queue_purge", &a, matches!(r, Ok(c) if c == count), format!("{:?} expected {}", r, count));
            cx.expect_one("Channel::queue_purge", a.clone(), AMQPClass::Queue(queue::AMQPMethod::Purge(queue::Purge { ticket: 0, queue: s.clone(), nowait: false })));
        }
        let r = ch.queue_purge_nowait(s.as_str());
        cx.check("Channel::queue_purge_nowait", &a, r.is_ok(), format!("{:?}", r));
        cx.expect_one("Channel::queue_purge_nowait", a.clone(), AMQPClass::Queue(queue::AMQPMethod::Purge(queue::Purge { ticket: 0, queue: s.clone(), nowait: true })));
        for b in bools(2) {
            let a = json!({"queue_class":si,"if_unused":b[0],"if_empty":b[1]});
            cx.preload_method(AMQPClass::Queue(queue::AMQPMethod::DeleteOk(queue::DeleteOk { message_count: 11 })));
            let r = ch.queue_delete(s.as_str(), QueueDeleteOptions { if_unused: b[0], if_empty: b[1] });
            cx.check("Channel::queue_delete", &a, matches!(r, Ok(11)), format!("{:?}", r));
            cx.expect_one("Channel::queue_delete", a.clone(), AMQPClass::Queue(queue::AMQPMethod::Delete(queue::Delete { ticket: 0, queue: s.clone(), if_unused: b[0], if_empty: b[1], nowait: false })));
            let r = ch.queue_delete_nowait(s.as_str(), QueueDeleteOptions { if_unused: b[0], if_empty: b[1] });
            cx.check("Channel::queue_delete_nowait", &a, r.is_ok(), format!("{:?}", r));
            cx.expect_one("Channel::queue_delete_nowait", a.clone(), AMQPClass::Queue(queue::AMQPMethod::Delete(queue::Delete { ticket: 0, queue: s.clone(), if_unused: b[0], if_empty: b[1], nowait: true })));
        }
        for b in bools(1) {
            let a = json!({"queue_class":si,"no_ack":b[0]});
            cx.probe.preload(Reply::GetOk(None));
            let r = ch.basic_get(s.as_str(), b[0]);
            cx.check("Channel::basic_get", &a, matches!(r, Ok(None)), format!("{:?}", r.as_ref().map(|g| g.is_some())));
            cx.expect_one("Channel::basic_get", a.clone(), AMQPClass::Basic(basic::AMQPMethod::Get(basic::Get { ticket: 0, queue: s.clone(), no_ack: b[0] })));
            cx.probe.preload(Reply::GetOk(Some(make_get(chan, 99))));
            let r = ch.basic_get(s.as_str(), b[0]);
            cx.check("Channel::basic_get(message)", &a, matches!(&r, Ok(Some(g)) if g.delivery.delivery_tag() == 99 && g.message_count == 4), format!("{:?}", r.as_ref().map(|g| g.as_ref().map(|g| g.delivery.delivery_tag()))));
            cx.expect_one("Channel::basic_get(message)", a.clone(), AMQPClass::Basic(basic::AMQPMethod::Get(basic::Get { ticket: 0, queue: s.clone(), no_ack: b[0] })));
        }
        // ---- exchanges
        for (ti, t) in ts.iter().enumerate() {
            for (tyi, ty) in [ExchangeType::Direct, ExchangeType::Fanout, ExchangeType::Topic, ExchangeType::Headers, ExchangeType::Custom("x-custom".into())].iter().enumerate() {
                let tyname = ["direct", "fanout", "topic", "headers", "x-custom"][tyi];
                for b in bools(3) {
                    let a = json!({"exchange_class":si,"table_class":ti,"type":tyname,"durable":b[0],"auto_delete":b[1],"internal":b[2]});
                    let opts = ExchangeDeclareOptions { durable: b[0], auto_delete: b[1], internal: b[2], arguments: t.clone() };
                    let want = |nowait: bool| AMQPClass::Exchange(exchange::AMQPMethod::Declare(exchange::Declare { ticket: 0, exchange: s.clone(), type_: tyname.to_string(), passive: false, durable: b[0], auto_delete: b[1], internal: b[2], nowait, arguments: t.clone() }));
                    cx.preload_method(AMQPClass::Exchange(exchange::AMQPMethod::DeclareOk(exchange::DeclareOk {})));
                    let r = ch.exchange_declare(ty.clone(), s.as_str(), opts.clone()).map(|e| e.name().to_string());
                    cx.check("Channel::exchange_declare", &a, matches!(&r, Ok(n) if n == s), format!("{:?}", r));
                    cx.expect_one("Channel::exchange_declare", a.clone(), want(false));
                    let r = ch.exchange_declare_nowait(ty.clone(), s.as_str(), opts.clone()).map(|e| e.name().to_string());
                    cx.check("Channel::exchange_declare_nowait", &a, matches!(&r, Ok(n) if n == s), format!("{:?}", r));
                    cx.expect_one("Channel::exchange_declare_nowait", a.clone(), want(true));
                }
            }
            let a = json!({"exchange_class":si,"table_class":ti});
            cx.preload_method(AMQPClass::Exchange(exchange::AMQPMethod::BindOk(exchange::BindOk {})));
            let r = ch.exchange_bind(s.as_str(), s2.as_str(), s3.as_str(), t.clone());
            cx.check("Channel::exchange_bind", &a, r.is_ok(), format!("{:?}", r));
            cx.expect_one("Channel::exchange_bind", a.clone(), AMQPClass::Exchange(exchange::AMQPMethod::Bind(exchange::Bind { ticket: 0, destination: s.clone(), source: s2.clone(), routing_key: s3.clone(), nowait: false, arguments: t.clone() })));
            let r = ch.exchange_bind_nowait(s.as_str(), s2.as_str(), s3.as_str(), t.clone());
            cx.check("Channel::exchange_bind_nowait", &a, r.is_ok(), format!("{:?}", r));
            cx.expect_one("Channel::exchange_bind_nowait", a.clone(), AMQPClass::Exchange(exchange::AMQPMethod::Bind(exchange::Bind { ticket: 0, destination: s.clone(), source: s2.clone(), routing_key: s3.clone(), nowait: true, arguments: t.clone() })));
            cx.preload_method(AMQPClass::Exchange(exchange::AMQPMethod::UnbindOk(exchange::UnbindOk {})));
            let r = ch.exchange_unbind(s.as_str(), s2.as_str(), s3.as_str(), t.clone());
            cx.check("Channel::exchange_unbind", &a, r.is_ok(), format!("{:?}", r));
            cx.expect_one("Channel::exchange_unbind", a.clone(), AMQPClass::Exchange(exchange::AMQPMethod::Unbind(exchange::Unbind { ticket: 0, destination: s.clone(), source: s2.clone(), routing_key: s3.clone(), nowait: false, arguments: t.clone() })));
            let r = ch.exchange_unbind_nowait(s.as_str(), s2.as_str(), s3.as_str(), t.clone());
            cx.check("Channel::exchange_unbind_nowait", &a, r.is_ok(), format!("{:?}", r));
            cx.expect_one("Channel::exchange_unbind_nowait", a.clone(), AMQPClass::Exchange(exchange::AMQPMethod::Unbind(exchange::Unbind { ticket: 0, destination: s.clone(), source: s2.clone(), routing_key: s3.clone(), nowait: true, arguments: t.clone() })));

            // ---- Queue / Exchange objects (queue named s, exchanges named s2 / s3)
            if !s.is_empty() {
                let q = ch.queue_declare_nowait(s.as_str(), QueueDeclareOptions::default()).expect("queue");
                let ex_a = ch.exchange_declare_nowait(ExchangeType::Direct, s2.as_str(), ExchangeDeclareOptions::default()).expect("ex");
                let ex_b = ch.exchange_declare_nowait(ExchangeType::Direct, s3.as_str(), ExchangeDeclareOptions::default()).expect("ex");
                let _ = cx.probe.tap();
                let rk = "route.key";
                cx.preload_method(AMQPClass::Queue(queue::AMQPMethod::BindOk(queue::BindOk {})));
                let r = q.bind(&ex_a, rk, t.clone());
                cx.check("Queue::bind", &a, r.is_ok(), format!("{:?}", r));
                cx.expect_one("Queue::bind", a.clone(), AMQPClass::Queue(queue::AMQPMethod::Bind(queue::Bind { ticket: 0, queue: s.clone(), exchange: s2.clone(), routing_key: rk.into(), nowait: false, arguments: t.clone() })));
                let r = q.bind_nowait(&ex_a, rk, t.clone());
                cx.check("Queue::bind_nowait", &a, r.is_ok(), format!("{:?}", r));
                cx.expect_one("Queue::bind_nowait", a.clone(), AMQPClass::Queue(queue::AMQPMethod::Bind(queue::Bind { ticket: 0, queue: s.clone(), exchange: s2.clone(), routing_key: rk.into(), nowait: true, arguments: t.clone() })));
                cx.preload_method(AMQPClass::Queue(queue::AMQPMethod::UnbindOk(queue::UnbindOk {})));
                let r = q.unbind(&ex_a, rk, t.clone());
                cx.check("Queue::unbind", &a, r.is_ok(), format!("{:?}", r));
                cx.expect_one("Queue::unbind", a.clone(), AMQPClass::Queue(queue::AMQPMethod::Unbind(queue::Unbind { ticket: 0, queue: s.clone(), exchange: s2.clone(), routing_key: rk.into(), arguments: t.clone() })));
                // exchange-to-exchange: self = ex_a (s2), other = ex_b (s3)
                let bind = |dst: &String, src: &String, nowait: bool| AMQPClass::Exchange(exchange::AMQPMethod::Bind(exchange::Bind { ticket: 0, destination: dst.clone(), source: src.clone(), routing_key: rk.into(), nowait, arguments: t.clone() }));
                let unbind = |dst: &String, src: &String, nowait: bool| AMQPClass::Exchange(exchange::AMQPMethod::Unbind(exchange::Unbind { ticket: 0, destination: dst.clone(), source: src.clone(), routing_key: rk.into(), nowait, arguments: t.clone() }));
                cx.preload_method(AMQPClass::Exchange(exchange::AMQPMethod::BindOk(exchange::BindOk {})));
                let r = ex_a.bind_to_source(&ex_b, rk, t.clone());
                cx.check("Exchange::bind_to_source", &a, r.is_ok(), format!("{:?}", r));
                cx.expect_one("Exchange::bind_to_source", a.clone(), bind(s2, s3, false));
                let r = ex_a.bind_to_source_nowait(&ex_b, rk, t.clone());
                cx.check("Exchange::bind_to_source_nowait", &a, r.is_ok(), format!("{:?}", r));
                cx.expect_one("Exchange::bind_to_source_nowait", a.clone(), bind(s2, s3, true));
                cx.preload_method(AMQPClass::Exchange(exchange::AMQPMethod::BindOk(exchange::BindOk {})));
                let r = ex_a.bind_to_destination(&ex_b, rk, t.clone());
                cx.check("Exchange::bind_to_destination", &a, r.is_ok(), format!("{:?}", r));
                cx.expect_one("Exchange::bind_to_destination", a.clone(), bind(s3, s2, false));
                let r = ex_a.bind_to_destination_nowait(&ex_b, rk, t.clone());
                cx.check("Exchange::bind_to_destination_nowait", &a, r.is_ok(), format!("{:?}", r));
                cx.expect_one("Exchange::bind_to_destination_nowait", a.clone(), bind(s3, s2, true));
                cx.preload_method(AMQPClass::Exchange(exchange::AMQPMethod::UnbindOk(exchange::UnbindOk {})));
                let r = ex_a.unbind_from_source(&ex_b, rk, t.clone());
                cx.check("Exchange::unbind_from_source", &a, r.is_ok(), format!("{:?}", r));
                cx.expect_one("Exchange::unbind_from_source", a.clone(), unbind(s2, s3, false));
                let r = ex_a.unbind_from_source_nowait(&ex_b, rk, t.clone());
                cx.check("Exchange::unbind_from_source_nowait", &a, r.is_ok(), format!("{:?}", r));
                cx.expect_one("Exchange::unbind_from_source_nowait", a.clone(), unbind(s2, s3, true));
                cx.preload_method(AMQPClass::Exchange(exchange::AMQPMethod::UnbindOk(exchange::UnbindOk {})));
                let r = ex_a.unbind_from_destination(&ex_b, rk, t.clone());
                cx.check("Exchange::unbind_from_destination", &a, r.is_ok(), format!("{:?}", r));
                cx.expect_one("Exchange::unbind_from_destination", a.clone(), unbind(s3, s2, false));
                let r = ex_a.unbind_from_destination_nowait(&ex_b, rk, t.clone());
                cx.check("Exchange::unbind_from_destination_nowait", &a, r.is_ok(), format!("{:?}", r));
                cx.expect_one("Exchange::unbind_from_destination_nowait", a.clone(), unbind(s3, s2, true));
                // Queue::consume / get / purge / delete
                let (tx, rx) = ChannelProbe::consumer_pair();
                cx.probe.preload(Reply::ConsumeOk("qc".into(), rx));
                match q.consume(ConsumerOptions { no_local: true, no_ack: false, exclusive: true, arguments: t.clone() }) {
                    Ok(c) => {
                        cx.expect_one("Queue::consume", a.clone(), AMQPClass::Basic(basic::AMQPMethod::Consume(basic::Consume { ticket: 0, queue: s.clone(), consumer_tag: "".into(), no_local: true, no_ack: false, exclusive: true, nowait: false, arguments: t.clone() })));
                        // dropping a consumer cancels it
                        cx.preload_method(AMQPClass::Basic(basic::AMQPMethod::CancelOk(basic::CancelOk { consumer_tag: "qc".into() })));
                        drop(c);
                        cx.expect_one("Consumer::drop", a.clone(), AMQPClass::Basic(basic::AMQPMethod::Cancel(basic::Cancel { consumer_tag: "qc".into(), nowait: false })));
                    }
                    Err(e) => cx.check("Queue::consume", &a, false, format!("{:?}", e)),
                }
                drop(tx);
                cx.probe.preload(Reply::GetOk(None));
                let r = q.get(true);
                cx.check("Queue::get", &a, matches!(r, Ok(None)), "".into());
                cx.expect_one("Queue::get", a.clone(), AMQPClass::Basic(basic::AMQPMethod::Get(basic::Get { ticket: 0, queue: s.clone(), no_ack: true })));
                cx.preload_method(AMQPClass::Queue(queue::AMQPMethod::PurgeOk(queue::PurgeOk { message_count: 5 })));
                let r = q.purge();
                cx.check("Queue::purge", &a, matches!(r, Ok(5)), format!("{:?}", r));
                cx.expect_one("Queue::purge", a.clone(), AMQPClass::Queue(queue::AMQPMethod::Purge(queue::Purge { ticket: 0, queue: s.clone(), nowait: false })));
                let r = q.purge_nowait();
                cx.check("Queue::purge_nowait", &a, r.is_ok(), format!("{:?}", r));
                cx.expect_one("Queue::purge_nowait", a.clone(), AMQPClass::Queue(queue::AMQPMethod::Purge(queue::Purge { ticket: 0, queue: s.clone(), nowait: true })));
                // the same handle operations on handles that remember counts from a synchronous
                // (or passive) declare: what a handle remembers never replaces asking the server
                for (mc, cc) in [(0u32, 0u32), (7, 2)] {
                    for passive in [false, true] {
                        let a = json!({"queue_class":si,"declared_message_count":mc,"declared_consumer_count":cc,"passive":passive});
                        cx.preload_method(AMQPClass::Queue(queue::AMQPMethod::DeclareOk(queue::DeclareOk { queue: s.clone(), message_count: mc, consumer_count: cc })));
                        let qh = if passive { ch.queue_declare_passive(s.as_str()) } else { ch.queue_declare(s.as_str(), QueueDeclareOptions::default()) };
                        let qh = match qh {
                            Ok(q) => q,
                            Err(e) => {
                                cx.check("Channel::queue_declare", &a, false, format!("{:?}", e));
                                continue;
                            }
                        };
                        let _ = cx.probe.tap();
                        cx.check("Channel::queue_declare", &a, qh.declared_message_count() == Some(mc) && qh.declared_consumer_count() == Some(cc), format!("{:?} {:?}", qh.declared_message_count(), qh.declared_consumer_count()));
                        cx.preload_method(AMQPClass::Queue(queue::AMQPMethod::PurgeOk(queue::PurgeOk { message_count: 5 })));
                        let r = qh.purge();
                        cx.check("Queue::purge", &a, matches!(r, Ok(5)), format!("{:?}", r));
                        cx.expect_one("Queue::purge", a.clone(), AMQPClass::Queue(queue::AMQPMethod::Purge(queue::Purge { ticket: 0, queue: s.clone(), nowait: false })));
                        cx.probe.preload(Reply::GetOk(None));
                        let r = qh.get(false);
                        cx.check("Queue::get", &a, matches!(r, Ok(None)), "".into());
                        cx.expect_one("Queue::get", a.clone(), AMQPClass::Basic(basic::AMQPMethod::Get(basic::Get { ticket: 0, queue: s.clone(), no_ack: false })));
                        cx.preload_method(AMQPClass::Queue(queue::AMQPMethod::DeleteOk(queue::DeleteOk { message_count: 3 })));
                        let r = qh.delete(QueueDeleteOptions { if_unused: false, if_empty: true });
                        cx.check("Queue::delete", &a, matches!(r, Ok(3)), format!("{:?}", r));
                        cx.expect_one("Queue::delete", a.clone(), AMQPClass::Queue(queue::AMQPMethod::Delete(queue::Delete { ticket: 0, queue: s.clone(), if_unused: false, if_empty: true, nowait: false })));
                    }
                }
                for b in bools(2) {
                    let q1 = ch.queue_declare_nowait(s.as_str(), QueueDeclareOptions::default()).expect("queue");
                    let q2 = ch.queue_declare_nowait(s.as_str(), QueueDeclareOptions::default()).expect("queue");
                    let _ = cx.probe.tap();
                    let a = json!({"queue_class":si,"if_unused":b[0],"if_empty":b[1]});
                    cx.preload_method(AMQPClass::Queue(queue::AMQPMethod::DeleteOk(queue::DeleteOk { message_count: 2 })));
                    let r = q1.delete(QueueDeleteOptions { if_unused: b[0], if_empty: b[1] });
                    cx.check("Queue::delete", &a, matches!(r, Ok(2)), format!("{:?}", r));
                    cx.expect_one("Queue::delete", a.clone(), AMQPClass::Queue(queue::AMQPMethod::Delete(queue::Delete { ticket: 0, queue: s.clone(), if_unused: b[0], if_empty: b[1], nowait: false })));
                    let r = q2.delete_nowait(QueueDeleteOptions { if_unused: b[0], if_empty: b[1] });
                    cx.check("Queue::delete_nowait", &a, r.is_ok(), format!("{:?}", r));
                    cx.expect_one("Queue::delete_nowait", a.clone(), AMQPClass::Queue(queue::AMQPMethod::Delete(queue::Delete { ticket: 0, queue: s.clone(), if_unused: b[0], if_empty: b[1], nowait: true })));
                }
            }
        }
        // exchange passive / delete
        let a = json!({"exchange_class":si});
        cx.preload_method(AMQPClass::Exchange(exchange::AMQPMethod::DeclareOk(exchange::DeclareOk {})));
        let r = ch.exchange_declare_passive(s.as_str()).map(|e| e.name().to_string());
        cx.check("Channel::exchange_declare_passive", &a, matches!(&r, Ok(n) if n == s), format!("{:?}", r));
        cx.expect_one("Channel::exchange_declare_passive", a.clone(), AMQPClass::Exchange(exchange::AMQPMethod::Declare(exchange::Declare { ticket: 0, exchange: s.clone(), type_: "direct".into(), passive: true, durable: false, auto_delete: false, internal: false, nowait: false, arguments: FieldTable::new() })));
        for b in bools(1) {
            let a = json!({"exchange_class":si,"if_unused":b[0]});
            cx.preload_method(AMQPClass::Exchange(exchange::AMQPMethod::DeleteOk(exchange::DeleteOk {})));
            let r = ch.exchange_delete(s.as_str(), b[0]);
            cx.check("Channel::exchange_delete", &a, r.is_ok(), format!("{:?}", r));
            cx.expect_one("Channel::exchange_delete", a.clone(), AMQPClass::Exchange(exchange::AMQPMethod::Delete(exchange::Delete { ticket: 0, exchange: s.clone(), if_unused: b[0], nowait: false })));
            let r = ch.exchange_delete_nowait(s.as_str(), b[0]);
            cx.check("Channel::exchange_delete_nowait", &a, r.is_ok(), format!("{:?}", r));
            cx.expect_one("Channel::exchange_delete_nowait", a.clone(), AMQPClass::Exchange(exchange::AMQPMethod::Delete(exchange::Delete { ticket: 0, exchange: s.clone(), if_unused: b[0], nowait: true })));
            let e1 = ch.exchange_declare_nowait(ExchangeType::Topic, s.as_str(), ExchangeDeclareOptions::default()).expect("ex");
            let e2 = ch.exchange_declare_nowait(ExchangeType::Topic, s.as_str(), ExchangeDeclareOptions::default()).expect("ex");
            let _ = cx.probe.tap();
            cx.preload_method(AMQPClass::Exchange(exchange::AMQPMethod::DeleteOk(exchange::DeleteOk {})));
            let r = e1.delete(b[0]);
            cx.check("Exchange::delete", &a, r.is_ok(), format!("{:?}", r));
            cx.expect_one("Exchange::delete", a.clone(), AMQPClass::Exchange(exchange::AMQPMethod::Delete(exchange::Delete { ticket: 0, exchange: s.clone(), if_unused: b[0], nowait: false })));
            let r = e2.delete_nowait(b[0]);
            cx.check("Exchange::delete_nowait", &a, r.is_ok(), format!("{:?}", r));
            cx.expect_one("Exchange::delete_nowait", a.clone(), AMQPClass::Exchange(exchange::AMQPMethod::Delete(exchange::Delete { ticket: 0, exchange: s.clone(), if_unused: b[0], nowait: true })));
        }
    }

    // ---- acknowledgements through Delivery, Get and Consumer; same channel and other channel
    let (ctx_tx, crx) = ChannelProbe::consumer_pair();
    cx.probe.preload(Reply::ConsumeOk("ack-consumer".into(), crx));
    let consumer = ch.basic_consume("q", ConsumerOptions::default()).expect("consume");
    let _ = cx.probe.tap();
    for tag in [0u64, 1, 77, u64::MAX] {
        for via in ["Delivery", "Get", "Consumer"] {
            for same_channel in [true, false] {
                let dchan = if same_channel { chan } else { chan + 1 };
                for opn in ["ack", "ack_multiple", "nack", "nack_multiple", "reject"] {
                    for requeue in [false, true] {
                        if (opn == "ack" || opn == "ack_multiple") && requeue {
                            continue;
                        }
                        let name = format!("{}::{}", via, opn);
                        let a = json!({"tag":tag.to_string(),"same_channel":same_channel,"requeue":requeue});
                        let get = make_get(dchan, tag);
                        let r = catch_unwind(AssertUnwindSafe(|| match (via, opn) {
                            ("Delivery", "ack") => get.delivery.ack(ch),
                            ("Delivery", "ack_multiple") => get.delivery.ack_multiple(ch),
                            ("Delivery", "nack") => get.delivery.nack(ch, requeue),
                            ("Delivery", "nack_multiple") => get.delivery.nack_multiple(ch, requeue),
                            ("Delivery", "reject") => get.delivery.reject(ch, requeue),
                            ("Get", "ack") => get.ack(ch),
                            ("Get", "ack_multiple") => get.ack_multiple(ch),
                            ("Get", "nack") => get.nack(ch, requeue),
                            ("Get", "nack_multiple") => get.nack_multiple(ch, requeue),
                            ("Get", "reject") => get.reject(ch, requeue),
                            ("Consumer", "ack") => consumer.ack(get.delivery),
                            ("Consumer", "ack_multiple") => consumer.ack_multiple(get.delivery),
                            ("Consumer", "nack") => consumer.nack(get.delivery, requeue),
                            ("Consumer", "nack_multiple") => consumer.nack_multiple(get.delivery, requeue),
                            ("Consumer", "reject") => consumer.reject(get.delivery, requeue),
                            _ => unreachable!(),
                        }));
                        if same_channel {
                            cx.check(&name, &a, matches!(r, Ok(Ok(()))), format!("{:?}", r.as_ref().map(|x| x.is_ok())));
                            let want = match opn {
                                "ack" => AMQPClass::Basic(basic::AMQPMethod::Ack(basic::Ack { delivery_tag: tag, multiple: false })),
                                "ack_multiple" => AMQPClass::Basic(basic::AMQPMethod::Ack(basic::Ack { delivery_tag: tag, multiple: true })),
                                "nack" => AMQPClass::Basic(basic::AMQPMethod::Nack(basic::Nack { delivery_tag: tag, multiple: false, requeue })),
                                "nack_multiple" => AMQPClass::Basic(basic::AMQPMethod::Nack(basic::Nack { delivery_tag: tag, multiple: true, requeue })),
                                _ => AMQPClass::Basic(basic::AMQPMethod::Reject(basic::Reject { delivery_tag: tag, requeue })),
                            };
                            cx.expect_one(&name, a, want);
                        } else {
                            // must panic and send nothing
                            let panicked = r.is_err();
                            let sent = cx.probe.tap();
                            cx.part.evaluations += 1;
                            cx.part.distinct_nontrivial += 1;
                            cx.part.outcome(&format!("{}(other channel)", name));
                            if !panicked || !sent.is_empty() {
                                cx.part.violation(
                                    &format!("api:{}:cross-channel", name),
                                    format!("{}({}) with a delivery from channel {} through channel {}: panicked={} sent={:?}", name, a, dchan, chan, panicked, sent),
                                    json!({"engine":"seqx","check":"api","op":name,"args":a}),
                                );
                            }
                        }
                    }
                }
            }
        }
    }
    cx.preload_method(AMQPClass::Basic(basic::AMQPMethod::CancelOk(basic::CancelOk { consumer_tag: "ack-consumer".into() })));
    drop(consumer);
    drop(ctx_tx);
    let _ = cx.probe.tap();
}

/// Operations that take a handle (an exchange) declared on *another* channel: the method goes
/// out on the channel of the handle the operation is called on, naming both, and nothing
/// appears on the other channel.
fn cross_channel_handles(cx: &mut Ctx, ch: &Channel) {
    let (probe2, ch2) = ChannelProbe::open(131072, cx.chan + 1, 64);
    let _ = probe2.tap();
    let t = FieldTable::new();
    let q = ch.queue_declare_nowait("q-here", QueueDeclareOptions::default()).expect("queue");
    let here = ch.exchange_declare_nowait(ExchangeType::Direct, "x-here", ExchangeDeclareOptions::default()).expect("ex");
    let there = ch2.exchange_declare_nowait(ExchangeType::Direct, "x-there", ExchangeDeclareOptions::default()).expect("ex");
    let _ = cx.probe.tap();
    let _ = probe2.tap();
    let rk = "rk";
    let bind = |dst: &str, src: &str, nowait: bool| AMQPClass::Exchange(exchange::AMQPMethod::Bind(exchange::Bind { ticket: 0, destination: dst.into(), source: src.into(), routing_key: rk.into(), nowait, arguments: FieldTable::new() }));
    let unbind = |dst: &str, src: &str, nowait: bool| AMQPClass::Exchange(exchange::AMQPMethod::Unbind(exchange::Unbind { ticket: 0, destination: dst.into(), source: src.into(), routing_key: rk.into(), nowait, arguments: FieldTable::new() }));
    let a = json!({"other_handle_on_channel": cx.chan + 1});
    let mut done = |cx: &mut Ctx, op: &str, ok: bool, want: AMQPClass| {
        cx.check(op, &a, ok, "call failed".into());
        cx.expect_one(op, a.clone(), want);
        let other = probe2.tap();
        cx.part.evaluations += 1;
        cx.part.distinct_nontrivial += 1;
        if !other.is_empty() {
            cx.part.violation(&format!("api:{}:other-channel-used", op), format!("{} with a handle of channel {}: {} message(s) were sent through that channel", op, cx.chan + 1, other.len()), json!({"engine":"seqx","check":"api","op":op,"args":a}));
        }
    };
    // (a sync call issued on the wrong channel waits for ever: the stall watchdog of `run`
    // turns that into a verdict)
    let both = |cx: &Ctx, m: AMQPClass| cx.preload_method(m);
    // the nowait variants first: if one goes out on the wrong channel it still returns and is
    // reported as such; a sync call on the wrong channel would wait for ever (stall watchdog)
    let r = here.bind_to_source_nowait(&there, rk, t.clone());
    done(cx, "Exchange::bind_to_source_nowait[x-channel]", r.is_ok(), bind("x-here", "x-there", true));
    let r = here.bind_to_destination_nowait(&there, rk, t.clone());
    done(cx, "Exchange::bind_to_destination_nowait[x-channel]", r.is_ok(), bind("x-there", "x-here", true));
    let r = here.unbind_from_source_nowait(&there, rk, t.clone());
    done(cx, "Exchange::unbind_from_source_nowait[x-channel]", r.is_ok(), unbind("x-here", "x-there", true));
    let r = here.unbind_from_destination_nowait(&there, rk, t.clone());
    done(cx, "Exchange::unbind_from_destination_nowait[x-channel]", r.is_ok(), unbind("x-there", "x-here", true));
    let r = q.bind_nowait(&there, rk, t.clone());
    done(cx, "Queue::bind_nowait[x-channel]", r.is_ok(), AMQPClass::Queue(queue::AMQPMethod::Bind(queue::Bind { ticket: 0, queue: "q-here".into(), exchange: "x-there".into(), routing_key: rk.into(), nowait: true, arguments: FieldTable::new() })));
    both(cx, AMQPClass::Exchange(exchange::AMQPMethod::BindOk(exchange::BindOk {})));
    let r = here.bind_to_source(&there, rk, t.clone());
    done(cx, "Exchange::bind_to_source[x-channel]", r.is_ok(), bind("x-here", "x-there", false));
    both(cx, AMQPClass::Exchange(exchange::AMQPMethod::BindOk(exchange::BindOk {})));
    let r = here.bind_to_destination(&there, rk, t.clone());
    done(cx, "Exchange::bind_to_destination[x-channel]", r.is_ok(), bind("x-there", "x-here", false));
    both(cx, AMQPClass::Exchange(exchange::AMQPMethod::UnbindOk(exchange::UnbindOk {})));
    let r = here.unbind_from_source(&there, rk, t.clone());
    done(cx, "Exchange::unbind_from_source[x-channel]", r.is_ok(), unbind("x-here", "x-there", false));
    both(cx, AMQPClass::Exchange(exchange::AMQPMethod::UnbindOk(exchange::UnbindOk {})));
    let r = here.unbind_from_destination(&there, rk, t.clone());
    done(cx, "Exchange::unbind_from_destination[x-channel]", r.is_ok(), unbind("x-there", "x-here", false));
    both(cx, AMQPClass::Queue(queue::AMQPMethod::BindOk(queue::BindOk {})));
    let r = q.bind(&there, rk, t.clone());
    done(cx, "Queue::bind[x-channel]", r.is_ok(), AMQPClass::Queue(queue::AMQPMethod::Bind(queue::Bind { ticket: 0, queue: "q-here".into(), exchange: "x-there".into(), routing_key: rk.into(), nowait: false, arguments: FieldTable::new() })));
    both(cx, AMQPClass::Queue(queue::AMQPMethod::UnbindOk(queue::UnbindOk {})));
    let r = q.unbind(&there, rk, t.clone());
    done(cx, "Queue::unbind[x-channel]", r.is_ok(), AMQPClass::Queue(queue::AMQPMethod::Unbind(queue::Unbind { ticket: 0, queue: "q-here".into(), exchange: "x-there".into(), routing_key: rk.into(), arguments: FieldTable::new() })));
    std::mem::forget(ch2);
}

static PROGRESS: std::sync::atomic::AtomicU64 = std::sync::atomic::AtomicU64::new(0);
static LAST_OP: std::sync::Mutex<String> = std::sync::Mutex::new(String::new());

fn progress(op: &str) {
    PROGRESS.fetch_add(1, std::sync::atomic::Ordering::SeqCst);
    if let Ok(mut l) = LAST_OP.lock() {
        l.clear();
        l.push_str(op);
    }
}

/// The table runs on its own thread: an operation that waits for a reply its documented wire
/// behaviour does not produce (a second Basic.Cancel, a sync call where nowait was asked for)
/// would otherwise block this check for ever. No progress for `STALL_SECS` is a verdict.
pub fn run(args: &Args) {
    const STALL_SECS: u64 = 20;
    let (tx, rx) = std::sync::mpsc::channel::<()>();
    let a2 = Args { tier: args.tier.clone(), out: args.out.clone(), rest: args.rest.clone() };
    std::thread::spawn(move || {
        if let Err(e) = catch_unwind(AssertUnwindSafe(|| run_inner(&a2))) {
            // a table that dies after it has found something reports what it found (an operation
            // that sent nothing leaves its preloaded reply behind, and the next call trips over it)
            let found: Vec<(String, String, serde_json::Value)> = vh::report::VIOLATION_MIRROR.lock().map(|m| m.clone()).unwrap_or_default();
            if !found.is_empty() {
                let mut part = Part::new("C12", "api", "seqx", "exploration", &a2.tier);
                part.rule = "operation table (see the passing run); this run was cut short by a failure that followed the violations below".into();
                part.evaluations = PROGRESS.load(std::sync::atomic::Ordering::SeqCst);
                part.distinct_nontrivial = part.evaluations;
                part.exhaustive = false;
                for (k, d, r) in found {
                    part.violation(&k, d, r);
                }
                part.finish(a2.out.as_deref());
                std::process::exit(0);
            }
            eprintln!("MACHINERY: api table panicked: {}", crate::slots::panic_msg(&e));
            return;
        }
        let _ = tx.send(());
    });
    let mut seen = 0u64;
    let mut idle = 0u64;
    loop {
        match rx.recv_timeout(std::time::Duration::from_secs(1)) {
            Ok(()) => return,
            Err(std::sync::mpsc::RecvTimeoutError::Disconnected) => {
                eprintln!("MACHINERY: api table thread ended without a result");
                std::process::exit(2);
            }
            Err(std::sync::mpsc::RecvTimeoutError::Timeout) => {
                let now = PROGRESS.load(std::sync::atomic::Ordering::SeqCst);
                if now != seen {
                    seen = now;
                    idle = 0;
                } else {
                    idle += 1;
                }
                if idle >= STALL_SECS {
                    let last = LAST_OP.lock().map(|l| l.clone()).unwrap_or_default();
                    let mut part = Part::new("C12", "api", "seqx", "exploration", &args.tier);
                    part.rule = "operation table (see the passing run); this run ended at an operation that never returned".into();
                    part.evaluations = now;
                    part.distinct_nontrivial = now;
                    part.exhaustive = false;
                    part.violation("api:operation-hangs", format!("the operation following `{}` in the table did not return within {} s although the reply to the one method it should send was preloaded: it waits for a reply to something else it sent, or sent nothing", last, STALL_SECS), json!({"engine":"seqx","check":"api","op":last,"args":{}}));
                    part.finish(args.out.as_deref());
                    std::process::exit(0);
                }
            }
        }
    }
}

/// Objects whose `Drop` emits a method emit it also when they go out of scope because the code
/// holding them panics (own probe and channel: if the method is missing, its preloaded reply
/// stays behind and must not disturb the rest of the table).
fn drops_while_unwinding(cx: &mut Ctx) {
    let chan = cx.chan + 2;
    let (probe, ch) = ChannelProbe::open(131072, chan, 64);
    let _ = probe.tap();
    let (tx, rx) = ChannelProbe::consumer_pair();
    probe.preload(Reply::ConsumeOk("qu".into(), rx));
    let a = json!({"dropped": "while unwinding"});
    let mut judge = |cx: &mut Ctx, op: &str, taps: Vec<TapMsg>, want: AMQPClass| {
        cx.part.evaluations += 1;
        cx.part.distinct_nontrivial += 1;
        cx.part.outcome(op);
        let want_bytes = vh::wire::frame_bytes(&AMQPFrame::Method(chan, want));
        let ok = taps.len() == 1 && matches!(&taps[0], TapMsg::Send(b) if *b == want_bytes);
        if !ok {
            cx.part.violation(&format!("api:{}:while-unwinding", op), format!("{}({}): {} messages handed to the I/O thread: {:?}", op, a, taps.len(), taps.iter().map(|t| format!("{:?}", t).chars().take(80).collect::<String>()).collect::<Vec<_>>()), json!({"engine":"seqx","check":"api","op":op,"args":a}));
        }
    };
    match ch.basic_consume("q", ConsumerOptions::default()) {
        Ok(c) => {
            let _ = probe.tap();
            probe.preload(Reply::Method(AMQPClass::Basic(basic::AMQPMethod::CancelOk(basic::CancelOk { consumer_tag: "qu".into() }))));
            let _ = std::panic::catch_unwind(std::panic::AssertUnwindSafe(move || {
                let _held = c;
                panic!("holder failed");
            }));
            let taps = probe.tap();
            judge(cx, "Consumer::drop", taps, AMQPClass::Basic(basic::AMQPMethod::Cancel(basic::Cancel { consumer_tag: "qu".into(), nowait: false })));
        }
        Err(e) => cx.check("Channel::basic_consume", &a, false, format!("{:?}", e)),
    }
    drop(tx);
    // the channel itself: Channel.Close (a second probe, the first may hold a stale reply)
    std::mem::forget(ch);
    let (probe, ch) = ChannelProbe::open(131072, chan + 1, 64);
    let chan = chan + 1;
    let _ = probe.tap();
    probe.preload(Reply::Method(AMQPClass::Channel(channel::AMQPMethod::CloseOk(channel::CloseOk {}))));
    let _ = std::panic::catch_unwind(std::panic::AssertUnwindSafe(move || {
        let _held = ch;
        panic!("holder failed");
    }));
    let taps = probe.tap();
    let want_bytes = vh::wire::frame_bytes(&AMQPFrame::Method(chan, AMQPClass::Channel(channel::AMQPMethod::Close(channel::Close { reply_code: 0, reply_text: "".into(), class_id: 0, method_id: 0 }))));
    cx.part.evaluations += 1;
    cx.part.distinct_nontrivial += 1;
    cx.part.outcome("Channel::drop");
    if !(taps.len() == 1 && matches!(&taps[0], TapMsg::Send(b) if *b == want_bytes)) {
        cx.part.violation("api:Channel::drop:while-unwinding", format!("Channel::drop({}): {} messages handed to the I/O thread", a, taps.len()), json!({"engine":"seqx","check":"api","op":"Channel::drop","args":a}));
    }
}

/// Connection's own operation: the three methods of the opening handshake are built from
/// `ConnectionOptions`, and every field must equal the argument given to the builder that sets
/// it - whatever the order in which the builders were called (all 8! orders of the eight
/// builders, each with a non-default value).
fn connection_options_builders(cx: &mut Ctx) {
    use amiquip::verif::probe::{open, options_view, start_ok, tune_ok};
    use amiquip::{Auth, ConnectionOptions};
    use amq_protocol::protocol::connection::{Start, Tune};
    use amq_protocol::types::AMQPValue;
    let op = "Connection::open(options)";
    let n = 8usize;
    // Heap's algorithm over the builder indices
    let mut perm: Vec<usize> = (0..n).collect();
    let mut c = vec![0usize; n];
    let mut orders: Vec<Vec<usize>> = vec![perm.clone()];
    let mut i = 0;
    while i < n {
        if c[i] < i {
            if i % 2 == 0 {
                perm.swap(0, i);
            } else {
                perm.swap(c[i], i);
            }
            orders.push(perm.clone());
            c[i] += 1;
            i = 0;
        } else {
            c[i] = 0;
            i += 1;
        }
    }
    let names = ["auth", "virtual_host", "locale", "channel_max", "frame_max", "heartbeat", "connection_timeout", "information"];
    let mut reported = std::collections::BTreeSet::new();
    for order in &orders {
        progress(op);
        cx.part.evaluations += 1;
        cx.part.distinct_nontrivial += 1;
        let mut o: ConnectionOptions<Auth> = ConnectionOptions::default();
        for b in order {
            o = match b {
                0 => o.auth(Auth::Plain { username: "alice".into(), password: "s3cret".into() }),
                1 => o.virtual_host("orders"),
                2 => o.locale("de_DE"),
                3 => o.channel_max(77),
                4 => o.frame_max(8192),
                5 => o.heartbeat(13),
                6 => o.connection_timeout(Some(std::time::Duration::from_millis(4321))),
                _ => o.information(Some("billing worker".into())),
            };
        }
        let mut wrong: Vec<String> = Vec::new();
        let start = Start { version_major: 0, version_minor: 9, server_properties: Default::default(), mechanisms: "AMQPLAIN PLAIN EXTERNAL".into(), locales: "en_US de_DE".into() };
        match start_ok(&o, start) {
            Ok((ok, _)) => {
                if ok.mechanism != "PLAIN" || ok.response != "\u{0}alice\u{0}s3cret" {
                    wrong.push(format!("StartOk mechanism/response {:?}/{:?}", ok.mechanism, ok.response));
                }
                if ok.locale != "de_DE" {
                    wrong.push(format!("StartOk locale {:?}", ok.locale));
                }
                if ok.client_properties.get("information") != Some(&AMQPValue::LongString("billing worker".into())) {
                    wrong.push(format!("StartOk information {:?}", ok.client_properties.get("information")));
                }
            }
            Err(e) => wrong.push(format!("StartOk not built: {:?}", e)),
        }
        match tune_ok(&o, Tune { channel_max: 2047, frame_max: 131072, heartbeat: 60 }) {
            Ok(t) if (t.channel_max, t.frame_max, t.heartbeat) == (77, 8192, 13) => {}
            other => wrong.push(format!("TuneOk {:?}", other.map(|t| (t.channel_max, t.frame_max, t.heartbeat)))),
        }
        let open = open(&o);
        if open.virtual_host != "orders" {
            wrong.push(format!("Open virtual_host {:?}", open.virtual_host));
        }
        if options_view(&o).connection_timeout != Some(std::time::Duration::from_millis(4321)) {
            wrong.push(format!("connection_timeout {:?}", options_view(&o).connection_timeout));
        }
        if !wrong.is_empty() {
            let called: Vec<&str> = order.iter().map(|b| names[*b]).collect();
            // one report per (last builder called, what is wrong): 40320 orders share few causes
            let key = format!("{}|{}", called.last().unwrap(), wrong.join(";"));
            if reported.insert(key) && reported.len() <= 6 {
                cx.part.violation(&format!("api:{}:wrong-field", op), format!("builders called in the order {:?}: {}", called, wrong.join("; ")), json!({"engine":"seqx","check":"api","op":op,"args":{"order":called}}));
            }
        }
    }
    cx.part.outcome(op);
}

fn run_inner(args: &Args) {
    std::panic::set_hook(Box::new(|_| {}));
    let chan = 5u16;
    let (probe, ch) = ChannelProbe::open(131072, chan, 64);
    let mut cx = Ctx { probe, chan, part: Part::new("C12", "api", "seqx", "exploration", &args.tier) };
    cx.part.rule = "every wire-emitting public operation of Channel, Queue, Exchange, Consumer, Delivery, Get (plus Connection::open_channel / close) x every combination of its boolean options x string classes (empty, 1 char, 255 bytes, UTF-8; different class per argument so swaps show) x table classes (empty, every AMQPValue kind, nested) x numeric classes (0, 1, max); the single method frame handed to the I/O thread is decoded and compared for equality with a hand-written expected struct; sync calls run with the reply preloaded and their returned values are compared too; cross-channel ack/nack/reject must panic and send nothing. Every case is distinct.".into();
    // Connection::open_channel: Channel.Open on the requested id
    cx.expect_one("Connection::open_channel", json!({"id":chan}), AMQPClass::Channel(channel::AMQPMethod::Open(channel::Open { out_of_band: "".into() })));
    run_table(&mut cx, &ch);
    cross_channel_handles(&mut cx, &ch);
    drops_while_unwinding(&mut cx);
    connection_options_builders(&mut cx);
    // Channel::close
    cx.preload_method(AMQPClass::Channel(channel::AMQPMethod::CloseOk(channel::CloseOk {})));
    let r = ch.close();
    cx.check("Channel::close", &json!({}), r.is_ok(), format!("{:?}", r));
    cx.expect_one("Channel::close", json!({}), AMQPClass::Channel(channel::AMQPMethod::Close(channel::Close { reply_code: 0, reply_text: "".into(), class_id: 0, method_id: 0 })));
    // Connection::close
    let (r, taps) = cx.probe.close_connection_tap();
    cx.part.evaluations += 1;
    cx.part.distinct_nontrivial += 1;
    cx.part.outcome("Connection::close");
    let want = vh::wire::frame_bytes(&AMQPFrame::Method(0, AMQPClass::Connection(connection::AMQPMethod::Close(connection::Close { reply_code: 200, reply_text: "goodbye".into(), class_id: 0, method_id: 0 }))));
    if r.is_err() || taps != vec![TapMsg::ConnectionClose(want)] {
        cx.part.violation("api:Connection::close:wrong-method", format!("result {:?}, handed over {:?}", r, taps), json!({"engine":"seqx","check":"api","op":"Connection::close","args":{}}));
    }
    cx.part.sample(json!({"op":"Channel::queue_declare","args":{"queue_class":2,"table_class":1,"durable":true,"exclusive":false,"auto_delete":true}}));
    cx.part.sample(json!({"op":"Exchange::bind_to_destination","args":{"exchange_class":1,"table_class":2}}));
    cx.part.sample(json!({"op":"Consumer::reject","args":{"tag":"77","same_channel":false,"requeue":true}}));
    cx.part.extra.insert("operations".into(), json!(cx.part.outcomes.len()));
    cx.part.finish(args.out.as_deref());
}

pub fn replay(v: &Value) -> bool {
    // the table is small: re-run it and show the violations of the recorded operation
    std::panic::set_hook(Box::new(|_| {}));
    let chan = 5u16;
    let (probe, ch) = ChannelProbe::open(131072, chan, 64);
    let mut cx = Ctx { probe, chan, part: Part::new("C12", "api", "seqx", "exploration", "quick") };
    let _ = cx.probe.tap();
    run_table(&mut cx, &ch);
    drops_while_unwinding(&mut cx);
    std::mem::forget(ch);
    let op = v["op"].as_str().unwrap_or("");
    let mut ok = true;
    for viol in cx.part.violations.iter().filter(|x| x.key.contains(op)) {
        println!("VIOLATION {}: {}", viol.key, viol.detail);
        ok = false;
    }
    if ok {
        println!("operation {} behaves as expected for every argument combination", op);
    }
    ok
}
