//! C17 support: conformance of the virtual timer stand-in with the real mio-extras timer.
//! The same set / cancel / poll script is run against both (the real one in real time with
//! deadlines at least 3 timer ticks apart, the stand-in under the virtual clock) and the
//! observed firing sequences must be equal.
use crate::Args;
use amiquip::verif::{clock, timer::Timer};
use mio::{Events, Poll, PollOpt, Ready, Token};
use serde_json::json;
use std::time::Duration;
use vh::report::Part;

#[derive(Clone, Copy, Debug, PartialEq)]
enum Op {
    Set(u64, u32), // delay ms, value
    Cancel(usize), // index of an earlier Set
    WaitPoll(u64), // let this much time pass (ms), then poll until empty
    // let this much time pass, take the poll handle's events (did it wake up?) but do NOT poll
    // the timer: a wake-up nobody follows up
    WaitNoPoll(u64),
}

fn script(which: usize) -> Vec<Op> {
    if which == 1 {
        // a swallowed wake-up: the timer raises its readiness once per scheduled wake-up, more
        // time passing does not repeat it; setting a new timeout schedules the next one
        return vec![
            Op::Set(500, 1),
            Op::Set(1500, 2),
            Op::WaitNoPoll(800),  // t=800: woke (1 is due), nobody polls the timer
            Op::WaitNoPoll(1000), // t=1800: 2 is due as well, but no wake-up was scheduled
            Op::Set(500, 3),      // due at 2300: schedules a wake-up
            Op::WaitNoPoll(800),  // t=2600: woke
            Op::WaitNoPoll(300),  // t=2900: nothing new
            Op::WaitPoll(300),    // t=3200: 1, 2, 3 (no new wake-up)
            Op::Set(500, 4),      // due at 3700
            Op::WaitPoll(800),    // t=4000: woke, 4
        ];
    }
    vec![
        Op::Set(500, 1),
        Op::Set(1500, 2),
        Op::Set(2500, 3),
        Op::WaitPoll(250), // nothing
        Op::Cancel(1),
        Op::WaitPoll(600),  // t=850: 1
        Op::Set(600, 4),    // due at 1450
        Op::WaitPoll(1000), // t=1850: 4 (2 was cancelled)
        Op::WaitPoll(1000), // t=2850: 3
        Op::WaitPoll(300),  // nothing
    ]
}

/// Returns the observations, the instants they were made at, the deadlines set, and the worst
/// "slack" of the run in ms: how long an observation took from its timestamp to the end of its
/// polls, and how long after the preceding observation a Set / Cancel was executed (the stand-in
/// is driven as if both were zero).
fn run_script(which: usize, virtual_mode: bool, times: &[u64]) -> (Vec<(usize, Vec<u32>, bool)>, Vec<u64>, Vec<u64>, u64) {
    clock::set_virtual(virtual_mode);
    let started = std::time::Instant::now();
    let mut measured = Vec::new();
    let mut deadlines = Vec::new();
    let mut obs_ix = 0usize;
    let poll = Poll::new().unwrap();
    let mut timer: Timer<u32> = Timer::default();
    poll.register(&timer, Token(1), Ready::readable(), PollOpt::edge()).unwrap();
    let mut timeouts = Vec::new();
    let mut out = Vec::new();
    let mut events = Events::with_capacity(8);
    let mut slack = 0u64;
    let mut last_obs_end = 0u64;
    for (i, op) in script(which).into_iter().enumerate() {
        match op {
            Op::Set(ms, v) => {
                let now = if virtual_mode { clock::now_ns() / 1_000_000 } else { started.elapsed().as_millis() as u64 };
                slack = slack.max(now.saturating_sub(last_obs_end));
                deadlines.push(now + ms);
                timeouts.push(timer.set_timeout(Duration::from_millis(ms), v))
            }
            Op::Cancel(ix) => {
                let now = if virtual_mode { clock::now_ns() / 1_000_000 } else { started.elapsed().as_millis() as u64 };
                slack = slack.max(now.saturating_sub(last_obs_end));
                let _ = timer.cancel_timeout(&timeouts[ix]);
            }
            Op::WaitPoll(ms) | Op::WaitNoPoll(ms) => {
                if virtual_mode {
                    clock::advance_to(times[obs_ix] * 1_000_000);
                } else {
                    std::thread::sleep(Duration::from_millis(ms));
                }
                obs_ix += 1;
                measured.push(if virtual_mode { clock::now_ns() / 1_000_000 } else { started.elapsed().as_millis() as u64 });
                poll.poll(&mut events, Some(Duration::from_millis(0))).unwrap();
                let woke = !events.is_empty();
                let mut fired = Vec::new();
                if matches!(op, Op::WaitPoll(_)) {
                    while let Some(v) = timer.poll() {
                        fired.push(v);
                    }
                }
                out.push((i, fired, woke));
                let end = if virtual_mode { clock::now_ns() / 1_000_000 } else { started.elapsed().as_millis() as u64 };
                slack = slack.max(end.saturating_sub(*measured.last().unwrap()));
                last_obs_end = end;
            }
        }
    }
    clock::set_virtual(false);
    (out, measured, deadlines, slack)
}

pub fn run(args: &Args) {
    let mut part = Part::new("C17", "timershim", "seqx", "exploration", &args.tier);
    part.rule = "two set/cancel/poll scripts (4 timeouts, one cancelled, 5 observation points; and 4 timeouts with wake-ups that nobody follows up with a poll of the timer, 6 observation points; deadlines >= 3 ticks of 100 ms apart) run against the real mio-extras timer in real time and against the virtual-time stand-in; fired values per observation point and whether the poll handle woke up must be equal".into();
    // real time first; the stand-in is then observed at exactly the instants measured there.
    // An observation that landed within 160 ms of a deadline (tick granularity + scheduling
    // jitter of a busy machine) makes the attempt inconclusive: retry, never alarm.
    let mut all_conclusive = true;
    for which in 0..2usize {
        // An attempt is conclusive only if the real run was observed away from its deadlines
        // (160 ms: tick granularity + jitter) and nothing in it was delayed by more than 40 ms
        // (the stand-in is driven as if observations and the steps between them took no time).
        // A mismatch is an alarm only if a second conclusive attempt shows it again.
        let mut conclusive = false;
        let mut mismatches: Vec<String> = Vec::new();
        for attempt in 0..4 {
            let (real, times, deadlines, slack) = run_script(which, false, &[]);
            let close = times.iter().any(|t| deadlines.iter().any(|d| (*t as i64 - *d as i64).abs() < 160));
            part.evaluations += 1;
            if close || slack > 40 {
                part.outcome("inconclusive-attempt");
                continue;
            }
            let (virt, _, _, _) = run_script(which, true, &times);
            part.evaluations += 1;
            part.sample(json!({"script": which, "attempt": attempt, "observed_at_ms": times, "slack_ms": slack, "real": format!("{:?}", real), "virtual": format!("{:?}", virt)}));
            // fired values at every observation point; whether the poll handle woke up wherever
            // something fired and at every point of the swallowed-wake-up script
            let same = real.len() == virt.len() && real.iter().zip(virt.iter()).all(|(a, b)| a.1 == b.1 && ((a.1.is_empty() && which == 0) || a.2 == b.2));
            if same {
                conclusive = true;
                mismatches.clear();
                break;
            }
            mismatches.push(format!("script {} observed at {:?} ms: real timer {:?} vs stand-in {:?}", which, times, real, virt));
            if mismatches.len() >= 2 {
                conclusive = true;
                break;
            }
        }
        if mismatches.len() >= 2 {
            part.violation("timershim:differs", mismatches.join(" | "), json!({"engine":"seqx","check":"timershim"}));
        }
        all_conclusive &= conclusive;
    }
    part.distinct_nontrivial = 2;
    if all_conclusive {
        part.extra.insert("conformance".into(), json!("conclusive"));
    } else {
        part.extra.insert("conformance".into(), json!("inconclusive: the machine was too busy to observe the real timer away from its deadlines (4 attempts per script); not a verdict"));
        part.sample(json!({"inconclusive": true}));
    }
    part.finish(args.out.as_deref());
}
