//! C17 support: conformance of the virtual timer stand-in with the real mio-extras timer.
//! The same set / cancel / poll script is run against both (the real one in real time with
//! deadlines at least 3 timer ticks apart, the stand-in under the virtual clock) and the
//! observed firing sequences must be equal.
use crate::Args;
use amiquip::verif::{clock, timer::Timer};
use mio::{Events, Poll, PollOpt, Ready, Token};
use serde_json::json;
use std::time::Duration;
use vh::report::Part;

#[derive(Clone, Copy, Debug, PartialEq)]
enum Op {
    Set(u64, u32), // delay ms, value
    Cancel(usize), // index of an earlier Set
    WaitPoll(u64), // let this much time pass (ms), then poll until empty
}

fn script() -> Vec<Op> {
    vec![
        Op::Set(500, 1),
        Op::Set(1500, 2),
        Op::Set(2500, 3),
        Op::WaitPoll(250), // nothing
        Op::Cancel(1),
        Op::WaitPoll(600),  // t=850: 1
        Op::Set(600, 4),    // due at 1450
        Op::WaitPoll(1000), // t=1850: 4 (2 was cancelled)
        Op::WaitPoll(1000), // t=2850: 3
        Op::WaitPoll(300),  // nothing
    ]
}

fn run_script(virtual_mode: bool, times: &[u64]) -> (Vec<(usize, Vec<u32>, bool)>, Vec<u64>, Vec<u64>) {
    clock::set_virtual(virtual_mode);
    let started = std::time::Instant::now();
    let mut measured = Vec::new();
    let mut deadlines = Vec::new();
    let mut obs_ix = 0usize;
    let poll = Poll::new().unwrap();
    let mut timer: Timer<u32> = Timer::default();
    poll.register(&timer, Token(1), Ready::readable(), PollOpt::edge()).unwrap();
    let mut timeouts = Vec::new();
    let mut out = Vec::new();
    let mut events = Events::with_capacity(8);
    for (i, op) in script().into_iter().enumerate() {
        match op {
            Op::Set(ms, v) => {
                let now = if virtual_mode { clock::now_ns() / 1_000_000 } else { started.elapsed().as_millis() as u64 };
                deadlines.push(now + ms);
                timeouts.push(timer.set_timeout(Duration::from_millis(ms), v))
            }
            Op::Cancel(ix) => {
                let _ = timer.cancel_timeout(&timeouts[ix]);
            }
            Op::WaitPoll(ms) => {
                if virtual_mode {
                    clock::advance_to(times[obs_ix] * 1_000_000);
                } else {
                    std::thread::sleep(Duration::from_millis(ms));
                }
                obs_ix += 1;
                measured.push(if virtual_mode { clock::now_ns() / 1_000_000 } else { started.elapsed().as_millis() as u64 });
                poll.poll(&mut events, Some(Duration::from_millis(0))).unwrap();
                let woke = !events.is_empty();
                let mut fired = Vec::new();
                while let Some(v) = timer.poll() {
                    fired.push(v);
                }
                out.push((i, fired, woke));
            }
        }
    }
    clock::set_virtual(false);
    (out, measured, deadlines)
}

pub fn run(args: &Args) {
    let mut part = Part::new("C17", "timershim", "seqx", "exploration", &args.tier);
    part.rule = "one set/cancel/poll script (4 timeouts, one cancelled, 5 observation points, deadlines >= 3 ticks of 100 ms apart) run against the real mio-extras timer in real time and against the virtual-time stand-in; fired values per observation point and whether the poll handle woke up must be equal".into();
    // real time first; the stand-in is then observed at exactly the instants measured there.
    // An observation that landed within 160 ms of a deadline (tick granularity + scheduling
    // jitter of a busy machine) makes the attempt inconclusive: retry, never alarm.
    let mut conclusive = false;
    for attempt in 0..2 {
        let (real, times, deadlines) = run_script(false, &[]);
        let close = times.iter().any(|t| deadlines.iter().any(|d| (*t as i64 - *d as i64).abs() < 160));
        part.evaluations += 1;
        if close {
            part.outcome("inconclusive-attempt");
            continue;
        }
        let (virt, _, _) = run_script(true, &times);
        part.evaluations += 1;
        part.distinct_nontrivial = 2;
        part.sample(json!({"attempt": attempt, "observed_at_ms": times, "real": format!("{:?}", real), "virtual": format!("{:?}", virt)}));
        let same = real.len() == virt.len() && real.iter().zip(virt.iter()).all(|(a, b)| a.1 == b.1 && (a.1.is_empty() || a.2 == b.2));
        if !same {
            part.violation("timershim:differs", format!("observed at {:?} ms: real timer {:?} vs stand-in {:?}", times, real, virt), json!({"engine":"seqx","check":"timershim"}));
        }
        part.extra.insert("conformance".into(), json!("conclusive"));
        conclusive = true;
        break;
    }
    if !conclusive {
        part.distinct_nontrivial = 2;
        part.extra.insert("conformance".into(), json!("inconclusive: the machine was too busy to observe the real timer away from its deadlines (2 attempts); not a verdict"));
        part.sample(json!({"inconclusive": true}));
    }
    part.finish(args.out.as_deref());
}
