//! C03 / C07 / C11 / C13 (E1 parts): explicit-state breadth-first search over event histories
//! of the I/O thread's steady-state frame handling (`ConnectionState::process` + the client
//! message path) driven through `DispatchProbe`, against a reference model written from the
//! property statements.
use crate::Args;
use amiquip::verif::probe::{DispatchProbe, Reply};
use amiquip::{AmqpProperties, Confirm, ConsumerMessage, Error, Return};
use amq_protocol::frame::{AMQPContentHeader, AMQPFrame};
use amq_protocol::protocol::{access, basic, channel, confirm, connection, queue, tx, AMQPClass};
use crossbeam_channel::{Receiver, TryRecvError};
use serde_json::{json, Value};
use std::collections::{BTreeMap, HashMap, VecDeque};
use std::panic::{catch_unwind, AssertUnwindSafe};
use vh::report::Part;
use vh::wire::{frame_bytes, frames_bytes};

const TAGS: [&str; 3] = ["a", "b", "zz"];

#[derive(Clone, Copy, Debug, PartialEq, Eq, Hash, PartialOrd, Ord)]
pub enum Ev {
    Deliver(u16, u8),
    GetOk(u16),
    Return(u16),
    Header(u16, u8, bool),
    Body(u16, u8),
    ConsumeOk(u16, u8),
    CancelSrv(u16, u8, bool),
    CancelOk(u16, u8),
    ChClose(u16),
    ChCloseOk(u16),
    ConnClose,
    ConnCloseOk,
    Ack(u16, u8, bool),
    Nack(u16, u8, bool),
    GetEmpty(u16),
    QosOk(u16),
    Heartbeat(u16),
    ProtoHeader,
    ClientOnly(u16, u8),
    Unimpl(u16, u8),
    Ch0Other(u8),
    Blocked,
    // client-side actions
    CliCancel(u16, u8),
    CliChClose(u16),
    CliConnClose,
    CliListenReturns(u16),
    CliListenConfirms(u16),
    CliDropConfirms(u16),
    CliDropReturns(u16),
}

fn props(on: bool) -> AmqpProperties {
    if on {
        AmqpProperties::default().with_content_type("t/p".into()).with_priority(3)
    } else {
        AmqpProperties::default()
    }
}

fn body_bytes(chan: u16, len: u8, offset: usize) -> Vec<u8> {
    (0..len as usize).map(|i| (chan as u8) * 64 + (offset + i) as u8 * 4 + len).collect()
}

/// The frame (server side) of an event, if it is one.
fn frame_of(ev: Ev, body_offset: usize) -> Option<AMQPFrame> {
    use AMQPClass::*;
    Some(match ev {
        Ev::Deliver(n, t) => AMQPFrame::Method(n, Basic(basic::AMQPMethod::Deliver(basic::Deliver { consumer_tag: TAGS[t as usize].into(), delivery_tag: 40 + t as u64, redelivered: t == 1, exchange: format!("ex{}", n), routing_key: format!("rk{}", t) }))),
        Ev::GetOk(n) => AMQPFrame::Method(n, Basic(basic::AMQPMethod::GetOk(basic::GetOk { delivery_tag: 77, redelivered: true, exchange: format!("gx{}", n), routing_key: "gk".into(), message_count: 9 }))),
        Ev::Return(n) => AMQPFrame::Method(n, Basic(basic::AMQPMethod::Return(basic::Return { reply_code: 312, reply_text: "NO_ROUTE".into(), exchange: format!("rx{}", n), routing_key: "rrk".into() }))),
        Ev::Header(n, size, p) => AMQPFrame::Header(n, 60, Box::new(AMQPContentHeader { class_id: 60, weight: 0, body_size: size as u64, properties: props(p) })),
        Ev::Body(n, len) => AMQPFrame::Body(n, body_bytes(n, len, body_offset)),
        Ev::ConsumeOk(n, t) => AMQPFrame::Method(n, Basic(basic::AMQPMethod::ConsumeOk(basic::ConsumeOk { consumer_tag: TAGS[t as usize].into() }))),
        Ev::CancelSrv(n, t, nowait) => AMQPFrame::Method(n, Basic(basic::AMQPMethod::Cancel(basic::Cancel { consumer_tag: TAGS[t as usize].into(), nowait }))),
        Ev::CancelOk(n, t) => AMQPFrame::Method(n, Basic(basic::AMQPMethod::CancelOk(basic::CancelOk { consumer_tag: TAGS[t as usize].into() }))),
        Ev::ChClose(n) => AMQPFrame::Method(n, Channel(channel::AMQPMethod::Close(channel::Close { reply_code: 406, reply_text: "PRECOND".into(), class_id: 0, method_id: 0 }))),
        Ev::ChCloseOk(n) => AMQPFrame::Method(n, Channel(channel::AMQPMethod::CloseOk(channel::CloseOk {}))),
        Ev::ConnClose => AMQPFrame::Method(0, Connection(connection::AMQPMethod::Close(connection::Close { reply_code: 320, reply_text: "FORCED".into(), class_id: 0, method_id: 0 }))),
        Ev::ConnCloseOk => AMQPFrame::Method(0, Connection(connection::AMQPMethod::CloseOk(connection::CloseOk {}))),
        Ev::Ack(n, t, m) => AMQPFrame::Method(n, Basic(basic::AMQPMethod::Ack(basic::Ack { delivery_tag: t as u64, multiple: m }))),
        Ev::Nack(n, t, m) => AMQPFrame::Method(n, Basic(basic::AMQPMethod::Nack(basic::Nack { delivery_tag: t as u64, multiple: m, requeue: false }))),
        Ev::GetEmpty(n) => AMQPFrame::Method(n, Basic(basic::AMQPMethod::GetEmpty(basic::GetEmpty { cluster_id: String::new() }))),
        Ev::QosOk(n) => AMQPFrame::Method(n, Basic(basic::AMQPMethod::QosOk(basic::QosOk {}))),
        Ev::Heartbeat(n) => AMQPFrame::Heartbeat(n),
        Ev::ProtoHeader => AMQPFrame::ProtocolHeader,
        Ev::ClientOnly(n, k) => AMQPFrame::Method(
            n,
            match k {
                0 => Basic(basic::AMQPMethod::Publish(basic::Publish { ticket: 0, exchange: "e".into(), routing_key: "k".into(), mandatory: false, immediate: false })),
                1 => Basic(basic::AMQPMethod::Consume(basic::Consume { ticket: 0, queue: "q".into(), consumer_tag: "".into(), no_local: false, no_ack: false, exclusive: false, nowait: false, arguments: Default::default() })),
                2 => Channel(channel::AMQPMethod::Open(channel::Open { out_of_band: "".into() })),
                3 => Queue(queue::AMQPMethod::Declare(queue::Declare { ticket: 0, queue: "q".into(), passive: false, durable: false, exclusive: false, auto_delete: false, nowait: false, arguments: Default::default() })),
                4 => Confirm(confirm::AMQPMethod::Select(confirm::Select { nowait: false })),
                // long texts of multi-byte characters (the exception text quotes the frame and has
                // to fit a shortstr): 2-, 3- and 4-byte characters at both parities of the offset
                6 => Basic(basic::AMQPMethod::Publish(basic::Publish { ticket: 0, exchange: "é".repeat(120), routing_key: "k".into(), mandatory: false, immediate: false })),
                7 => Basic(basic::AMQPMethod::Publish(basic::Publish { ticket: 0, exchange: format!("x{}", "é".repeat(120)), routing_key: "k".into(), mandatory: false, immediate: false })),
                8 => Basic(basic::AMQPMethod::Publish(basic::Publish { ticket: 0, exchange: "€".repeat(80), routing_key: "ключ".repeat(10), mandatory: false, immediate: false })),
                9 => Basic(basic::AMQPMethod::Publish(basic::Publish { ticket: 0, exchange: format!("xy{}", "€".repeat(80)), routing_key: "🐇".repeat(20), mandatory: false, immediate: false })),
                10 => Basic(basic::AMQPMethod::Publish(basic::Publish { ticket: 0, exchange: format!("x{}", "€".repeat(80)), routing_key: "k".into(), mandatory: false, immediate: false })),
                11 => Queue(queue::AMQPMethod::Declare(queue::Declare { ticket: 0, queue: "🐇".repeat(60), passive: false, durable: false, exclusive: false, auto_delete: false, nowait: false, arguments: Default::default() })),
                12 => Queue(queue::AMQPMethod::Declare(queue::Declare { ticket: 0, queue: format!("a{}", "🐇".repeat(60)), passive: false, durable: false, exclusive: false, auto_delete: false, nowait: false, arguments: Default::default() })),
                13 => Queue(queue::AMQPMethod::Declare(queue::Declare { ticket: 0, queue: format!("ab{}", "🐇".repeat(60)), passive: false, durable: false, exclusive: false, auto_delete: false, nowait: false, arguments: Default::default() })),
                14 => Queue(queue::AMQPMethod::Declare(queue::Declare { ticket: 0, queue: format!("abc{}", "🐇".repeat(60)), passive: false, durable: false, exclusive: false, auto_delete: false, nowait: false, arguments: Default::default() })),
                _ => Connection(connection::AMQPMethod::Tune(connection::Tune { channel_max: 1, frame_max: 4096, heartbeat: 1 })),
            },
        ),
        Ev::Unimpl(n, k) => AMQPFrame::Method(
            n,
            match k {
                0 => Tx(tx::AMQPMethod::SelectOk(tx::SelectOk {})),
                1 => Channel(channel::AMQPMethod::Flow(channel::Flow { active: true })),
                2 => Channel(channel::AMQPMethod::FlowOk(channel::FlowOk { active: true })),
                _ => Access(access::AMQPMethod::RequestOk(access::RequestOk { ticket: 1 })),
            },
        ),
        Ev::Ch0Other(k) => AMQPFrame::Method(
            0,
            match k {
                0 => Connection(connection::AMQPMethod::OpenOk(connection::OpenOk { known_hosts: "".into() })),
                1 => Connection(connection::AMQPMethod::Tune(connection::Tune { channel_max: 1, frame_max: 4096, heartbeat: 1 })),
                2 => Basic(basic::AMQPMethod::QosOk(basic::QosOk {})),
                _ => Channel(channel::AMQPMethod::OpenOk(channel::OpenOk { channel_id: "".into() })),
            },
        ),
        Ev::Blocked => AMQPFrame::Method(0, Connection(connection::AMQPMethod::Blocked(connection::Blocked { reason: "mem".into() }))),
        _ => return None,
    })
}

// ---------------------------------------------------------------------------------------
// reference model
// ---------------------------------------------------------------------------------------

#[derive(Clone, Debug, PartialEq, Eq, Hash, PartialOrd, Ord)]
enum Coll {
    None,
    Started(Ev),
    Body(Ev, bool, u8, Vec<u8>), // start symbol, props flag, announced size, bytes so far
}

#[derive(Clone, Debug, Default, PartialEq, Eq, Hash, PartialOrd, Ord)]
struct RefChan {
    coll_tag: u8, // 0 none 1 started 2 body (kept in Coll; this mirrors for hashing convenience)
    consumers: BTreeMap<u8, usize>,
    cancel_pending: Vec<u8>,
    return_listener: Option<(usize, bool)>, // (id, receiver still held)
    confirm_listener: Option<(usize, bool)>,
    close_pending: bool,
}

#[derive(Clone, Debug, PartialEq, Eq, Hash, PartialOrd, Ord)]
enum ConnSt {
    Steady,
    ServerClosing,
    ClientException,
    ClientClosed,
}

#[derive(Clone, Debug, PartialEq, Eq, Hash)]
struct RefConn {
    st: ConnSt,
    sealed: bool,
    chans: BTreeMap<u16, (RefChan, Coll)>,
    next_id: usize,
    conn_close_pending: bool,
    /// consumers that received their terminal message (ids), for "nothing after it"
    ended: Vec<usize>,
}

#[derive(Clone, Debug, PartialEq)]
enum Res {
    Ok,
    /// the connection must end with one of these errors
    Err(Vec<&'static str>),
    /// client-side exception: Connection.Close with one of these codes, sealed; or one of the errors
    Exception(Vec<u16>, Vec<&'static str>),
    /// the statement leaves the choice: the event is tolerated (and then everything the
    /// reference says about it holds) or the connection ends with one of these errors
    Either(Vec<&'static str>),
}

#[derive(Default, Clone, Debug)]
struct Expect {
    /// addressee -> lines
    to: BTreeMap<String, Vec<String>>,
    wrote: Vec<AMQPFrame>,
    new_consumer: Option<(u16, u8, usize)>,
    new_return_listener: Option<(u16, usize)>,
    new_confirm_listener: Option<(u16, usize)>,
    client_send_fails: bool,
}

impl Expect {
    fn say(&mut self, who: String, what: String) {
        self.to.entry(who).or_default().push(what);
    }
}

fn show_props(p: &AmqpProperties) -> String {
    format!("{:?}", p)
}

fn want_delivery(start: Ev, p: bool, body: &[u8]) -> String {
    match start {
        Ev::Deliver(n, t) => format!("Delivery tag={} red={} ex=ex{} rk=rk{} body={:?} props={}", 40 + t as u64, t == 1, n, t, body, show_props(&props(p))),
        Ev::GetOk(n) => format!("Get count=9 tag=77 red=true ex=gx{} rk=gk body={:?} props={}", n, body, show_props(&props(p))),
        Ev::Return(n) => format!("Return 312 NO_ROUTE ex=rx{} rk=rrk body={:?} props={}", n, body, show_props(&props(p))),
        _ => unreachable!(),
    }
}

impl RefConn {
    fn new() -> RefConn {
        RefConn { st: ConnSt::Steady, sealed: false, chans: BTreeMap::new(), next_id: 0, conn_close_pending: false, ended: Vec::new() }
    }

    fn open(&mut self, n: u16) {
        self.chans.insert(n, (RefChan::default(), Coll::None));
    }

    fn complete(&mut self, n: u16, start: Ev, p: bool, body: Vec<u8>, ex: &mut Expect) -> Res {
        let (ch, _) = self.chans.get_mut(&n).unwrap();
        match start {
            Ev::Deliver(_, t) => match ch.consumers.get(&t) {
                Some(id) => {
                    ex.say(format!("consumer#{}", id), want_delivery(start, p, &body));
                    Res::Ok
                }
                None => Res::Err(vec!["UnknownConsumerTag"]),
            },
            Ev::GetOk(_) => {
                ex.say(format!("reply{}", n), want_delivery(start, p, &body));
                Res::Ok
            }
            Ev::Return(_) => {
                if let Some((id, alive)) = ch.return_listener {
                    if alive {
                        ex.say(format!("returns#{}", id), want_delivery(start, p, &body));
                    } else {
                        ch.return_listener = None;
                    }
                }
                Res::Ok
            }
            _ => unreachable!(),
        }
    }

    fn end_consumers(&mut self, n: u16, what: &str, ex: &mut Expect) {
        if let Some((ch, _)) = self.chans.get_mut(&n) {
            for (_, id) in std::mem::take(&mut ch.consumers) {
                ex.say(format!("consumer#{}", id), what.to_string());
                ex.say(format!("consumer#{}", id), "DISCONNECTED".to_string());
                self.ended.push(id);
            }
        }
    }

    fn drop_chan(&mut self, n: u16, ex: &mut Expect) {
        if let Some((ch, _)) = self.chans.remove(&n) {
            ex.say(format!("reply{}", n), "DISCONNECTED".to_string());
            if let Some((id, true)) = ch.return_listener {
                ex.say(format!("returns#{}", id), "DISCONNECTED".to_string());
            }
            if let Some((id, true)) = ch.confirm_listener {
                ex.say(format!("confirms#{}", id), "DISCONNECTED".to_string());
            }
        }
    }

    /// What the statement prescribes for this event in this state.
    fn step(&mut self, ev: Ev) -> (Res, Expect) {
        let mut ex = Expect::default();
        // ---- client actions first (they do not depend on the connection state machine)
        match ev {
            Ev::CliCancel(n, t) => {
                if !self.chans.contains_key(&n) {
                    ex.client_send_fails = true;
                    return (Res::Ok, ex);
                }
                if !self.sealed {
                    ex.wrote.push(AMQPFrame::Method(n, AMQPClass::Basic(basic::AMQPMethod::Cancel(basic::Cancel { consumer_tag: TAGS[t as usize].into(), nowait: false }))));
                }
                self.chans.get_mut(&n).unwrap().0.cancel_pending.push(t);
                return (Res::Ok, ex);
            }
            Ev::CliChClose(n) => {
                if !self.chans.contains_key(&n) {
                    ex.client_send_fails = true;
                    return (Res::Ok, ex);
                }
                if !self.sealed {
                    ex.wrote.push(AMQPFrame::Method(n, AMQPClass::Channel(channel::AMQPMethod::Close(channel::Close { reply_code: 0, reply_text: "".into(), class_id: 0, method_id: 0 }))));
                }
                self.chans.get_mut(&n).unwrap().0.close_pending = true;
                return (Res::Ok, ex);
            }
            Ev::CliConnClose => {
                if self.st != ConnSt::Steady {
                    ex.client_send_fails = true;
                    return (Res::Ok, ex);
                }
                if !self.sealed {
                    ex.wrote.push(AMQPFrame::Method(0, AMQPClass::Connection(connection::AMQPMethod::Close(connection::Close { reply_code: 200, reply_text: "goodbye".into(), class_id: 0, method_id: 0 }))));
                }
                self.sealed = true;
                self.conn_close_pending = true;
                return (Res::Ok, ex);
            }
            Ev::CliListenReturns(n) | Ev::CliListenConfirms(n) => {
                if !self.chans.contains_key(&n) {
                    ex.client_send_fails = true;
                    return (Res::Ok, ex);
                }
                let id = self.next_id;
                self.next_id += 1;
                let ch = &mut self.chans.get_mut(&n).unwrap().0;
                if matches!(ev, Ev::CliListenReturns(_)) {
                    if let Some((old, true)) = ch.return_listener {
                        ex.say(format!("returns#{}", old), "DISCONNECTED".into());
                    }
                    ch.return_listener = Some((id, true));
                    ex.new_return_listener = Some((n, id));
                } else {
                    if let Some((old, true)) = ch.confirm_listener {
                        ex.say(format!("confirms#{}", old), "DISCONNECTED".into());
                    }
                    ch.confirm_listener = Some((id, true));
                    ex.new_confirm_listener = Some((n, id));
                }
                return (Res::Ok, ex);
            }
            Ev::CliDropConfirms(n) => {
                if let Some((ch, _)) = self.chans.get_mut(&n) {
                    if let Some((id, _)) = ch.confirm_listener {
                        ch.confirm_listener = Some((id, false));
                    }
                }
                return (Res::Ok, ex);
            }
            Ev::CliDropReturns(n) => {
                if let Some((ch, _)) = self.chans.get_mut(&n) {
                    if let Some((id, _)) = ch.return_listener {
                        ch.return_listener = Some((id, false));
                    }
                }
                return (Res::Ok, ex);
            }
            _ => {}
        }
        // ---- frames
        match self.st {
            ConnSt::ClientException => return (Res::Ok, ex),
            // (nothing in the statements says whether frames behind the server's Close / the
            // CloseOk are an error or are ignored)
            ConnSt::ServerClosing | ConnSt::ClientClosed => return (Res::Either(vec!["FrameUnexpected"]), ex),
            ConnSt::Steady => {}
        }
        let chan_of = |ev: Ev| -> Option<u16> {
            Some(match ev {
                Ev::Deliver(n, _) | Ev::GetOk(n) | Ev::Return(n) | Ev::Header(n, _, _) | Ev::Body(n, _) | Ev::ConsumeOk(n, _) | Ev::CancelSrv(n, _, _) | Ev::CancelOk(n, _) | Ev::ChClose(n) | Ev::ChCloseOk(n) | Ev::Ack(n, _, _) | Ev::Nack(n, _, _) | Ev::GetEmpty(n) | Ev::QosOk(n) | Ev::ClientOnly(n, _) | Ev::Unimpl(n, _) => n,
                _ => return None,
            })
        };
        let exception = |self_: &mut RefConn, codes: Vec<u16>, errs: Vec<&'static str>| {
            // the Close frame itself is compared separately (its text is free)
            self_.st = ConnSt::ClientException;
            self_.sealed = true;
            Res::Exception(codes, errs)
        };
        match ev {
            Ev::Heartbeat(0) => return (Res::Ok, ex),
            Ev::Heartbeat(_) | Ev::ProtoHeader => return (Res::Err(vec!["FrameUnexpected"]), ex),
            Ev::Blocked => return (Res::Ok, ex),
            Ev::ConnClose => {
                if !self.sealed {
                    ex.wrote.push(AMQPFrame::Method(0, AMQPClass::Connection(connection::AMQPMethod::CloseOk(connection::CloseOk {}))));
                }
                self.sealed = true;
                self.st = ConnSt::ServerClosing;
                let ids: Vec<u16> = self.chans.keys().copied().collect();
                for n in ids {
                    ex.say(format!("reply{}", n), "Err ServerClosedConnection(320,FORCED)".into());
                    self.end_consumers(n, "ServerClosedConnection(320,FORCED)", &mut ex);
                    self.drop_chan(n, &mut ex);
                }
                return (Res::Ok, ex);
            }
            Ev::ConnCloseOk => {
                ex.say("reply0".into(), "Method Connection.CloseOk".into());
                self.st = ConnSt::ClientClosed;
                let ids: Vec<u16> = self.chans.keys().copied().collect();
                for n in ids {
                    ex.say(format!("reply{}", n), "Err ClientClosedConnection".into());
                    self.end_consumers(n, "ClientClosedConnection", &mut ex);
                    self.drop_chan(n, &mut ex);
                }
                return (Res::Ok, ex);
            }
            Ev::Ch0Other(_) => return (exception(self, vec![540, 530], vec![]), ex),
            // content on channel 0: C07 asks for an error; which one (a plain error or a client
            // exception with one of the framing / not-allowed codes) is the implementation's choice
            Ev::Header(0, _, _) | Ev::Body(0, _) => return (exception(self, vec![530, 503, 504, 505], vec!["FrameUnexpected", "ReceivedFrameWithBogusChannelId"]), ex),
            _ => {}
        }
        let n = chan_of(ev).unwrap();
        let open = self.chans.contains_key(&n);
        // methods only a client may send / unimplemented classes: exception whatever the channel
        match ev {
            Ev::ClientOnly(_, _) => return (exception(self, vec![530], if open { vec![] } else { vec!["ReceivedFrameWithBogusChannelId"] }), ex),
            Ev::Unimpl(_, _) => return (exception(self, vec![540], if open { vec![] } else { vec!["ReceivedFrameWithBogusChannelId"] }), ex),
            _ => {}
        }
        if !open {
            return match ev {
                Ev::ChCloseOk(_) => (Res::Either(vec!["ReceivedFrameWithBogusChannelId"]), ex), // may be tolerated: close race
                _ => (Res::Err(vec!["ReceivedFrameWithBogusChannelId"]), ex),
            };
        }
        let coll = self.chans.get(&n).unwrap().1.clone();
        match ev {
            Ev::Deliver(_, _) | Ev::GetOk(_) | Ev::Return(_) => {
                if coll != Coll::None {
                    return (Res::Err(vec!["FrameUnexpected"]), ex);
                }
                let unknown_tag = matches!(ev, Ev::Deliver(_, t) if !self.chans.get(&n).unwrap().0.consumers.contains_key(&t));
                self.chans.get_mut(&n).unwrap().1 = Coll::Started(ev);
                // an unknown tag may be refused at the Deliver frame or when the content is complete
                if unknown_tag {
                    (Res::Either(vec!["UnknownConsumerTag"]), ex)
                } else {
                    (Res::Ok, ex)
                }
            }
            Ev::Header(_, size, p) => match coll {
                Coll::Started(start) => {
                    if size == 0 {
                        self.chans.get_mut(&n).unwrap().1 = Coll::None;
                        let r = self.complete(n, start, p, Vec::new(), &mut ex);
                        (r, ex)
                    } else {
                        self.chans.get_mut(&n).unwrap().1 = Coll::Body(start, p, size, Vec::new());
                        (Res::Ok, ex)
                    }
                }
                _ => (Res::Err(vec!["FrameUnexpected"]), ex),
            },
            Ev::Body(_, len) => match coll {
                Coll::Body(start, p, size, mut got) => {
                    let chunk = body_bytes(n, len, got.len());
                    if got.len() + chunk.len() > size as usize {
                        return (Res::Err(vec!["FrameUnexpected"]), ex);
                    }
                    got.extend_from_slice(&chunk);
                    if got.len() == size as usize {
                        self.chans.get_mut(&n).unwrap().1 = Coll::None;
                        let r = self.complete(n, start, p, got, &mut ex);
                        (r, ex)
                    } else {
                        self.chans.get_mut(&n).unwrap().1 = Coll::Body(start, p, size, got);
                        (Res::Ok, ex)
                    }
                }
                _ => (Res::Err(vec!["FrameUnexpected"]), ex),
            },
            Ev::ConsumeOk(_, t) => {
                let ch = &mut self.chans.get_mut(&n).unwrap().0;
                if ch.consumers.contains_key(&t) {
                    return (Res::Err(vec!["DuplicateConsumerTag"]), ex);
                }
                let id = self.next_id;
                self.next_id += 1;
                ch.consumers.insert(t, id);
                ex.say(format!("reply{}", n), format!("ConsumeOk {}", TAGS[t as usize]));
                ex.new_consumer = Some((n, t, id));
                (Res::Ok, ex)
            }
            Ev::CancelSrv(_, t, nowait) => {
                let ch = &mut self.chans.get_mut(&n).unwrap().0;
                let known = ch.consumers.contains_key(&t);
                if let Some(id) = ch.consumers.remove(&t) {
                    ex.say(format!("consumer#{}", id), "ServerCancelled".into());
                    ex.say(format!("consumer#{}", id), "DISCONNECTED".into());
                    self.ended.push(id);
                }
                if !nowait && !self.sealed {
                    ex.wrote.push(AMQPFrame::Method(n, AMQPClass::Basic(basic::AMQPMethod::CancelOk(basic::CancelOk { consumer_tag: TAGS[t as usize].into() }))));
                }
                // cancelling a tag nobody holds (e.g. one the client cancelled a moment ago) may be
                // answered like any other cancel or be refused as an unknown tag
                if known {
                    (Res::Ok, ex)
                } else {
                    (Res::Either(vec!["UnknownConsumerTag"]), ex)
                }
            }
            Ev::CancelOk(_, t) => {
                let ch = &mut self.chans.get_mut(&n).unwrap().0;
                ex.say(format!("reply{}", n), "Method Basic.CancelOk".into());
                ch.cancel_pending.retain(|x| *x != t);
                if let Some(id) = ch.consumers.remove(&t) {
                    ex.say(format!("consumer#{}", id), "ClientCancelled".into());
                    ex.say(format!("consumer#{}", id), "DISCONNECTED".into());
                    self.ended.push(id);
                }
                (Res::Ok, ex)
            }
            Ev::ChClose(_) => {
                ex.say(format!("reply{}", n), format!("Err ServerClosedChannel({},406,PRECOND)", n));
                self.end_consumers(n, &format!("ServerClosedChannel({},406,PRECOND)", n), &mut ex);
                self.drop_chan(n, &mut ex);
                if !self.sealed {
                    ex.wrote.push(AMQPFrame::Method(n, AMQPClass::Channel(channel::AMQPMethod::CloseOk(channel::CloseOk {}))));
                }
                (Res::Ok, ex)
            }
            Ev::ChCloseOk(_) => {
                ex.say(format!("reply{}", n), "Method Channel.CloseOk".into());
                self.end_consumers(n, "ClientClosedChannel", &mut ex);
                self.drop_chan(n, &mut ex);
                (Res::Ok, ex)
            }
            Ev::Ack(_, t, m) | Ev::Nack(_, t, m) => {
                let ch = &mut self.chans.get_mut(&n).unwrap().0;
                if let Some((id, alive)) = ch.confirm_listener {
                    if alive {
                        ex.say(format!("confirms#{}", id), format!("{} tag={} multiple={}", if matches!(ev, Ev::Ack(..)) { "Ack" } else { "Nack" }, t, m));
                    } else {
                        ch.confirm_listener = None;
                    }
                }
                (Res::Ok, ex)
            }
            Ev::GetEmpty(_) => {
                ex.say(format!("reply{}", n), "GetEmpty".into());
                (Res::Ok, ex)
            }
            Ev::QosOk(_) => {
                ex.say(format!("reply{}", n), "Method Basic.QosOk".into());
                (Res::Ok, ex)
            }
            _ => unreachable!("{:?}", ev),
        }
    }
}

// ---------------------------------------------------------------------------------------
// the real thing, observed
// ---------------------------------------------------------------------------------------

struct Real {
    probe: DispatchProbe,
    consumers: BTreeMap<usize, Receiver<ConsumerMessage>>,
    returns: BTreeMap<usize, Receiver<Return>>,
    confirms: BTreeMap<usize, Receiver<Confirm>>,
    body_offsets: HashMap<u16, usize>,
    pending_consume: VecDeque<(String, Receiver<ConsumerMessage>)>,
    reply_disconnected: std::collections::HashSet<u16>,
    opened: std::collections::HashSet<u16>,
}

fn err_name(e: &Error) -> String {
    match e {
        Error::ServerClosedConnection { code, message } => format!("ServerClosedConnection({},{})", code, message),
        Error::ServerClosedChannel { channel_id, code, message } => format!("ServerClosedChannel({},{},{})", channel_id, code, message),
        other => {
            let s = format!("{:?}", other);
            s.split(|c: char| !c.is_alphanumeric()).next().unwrap_or("").to_string()
        }
    }
}

fn show_msg(m: &ConsumerMessage) -> String {
    match m {
        ConsumerMessage::Delivery(d) => format!("Delivery tag={} red={} ex={} rk={} body={:?} props={}", d.delivery_tag(), d.redelivered, d.exchange, d.routing_key, d.body, show_props(&d.properties)),
        ConsumerMessage::ClientCancelled => "ClientCancelled".into(),
        ConsumerMessage::ServerCancelled => "ServerCancelled".into(),
        ConsumerMessage::ClientClosedChannel => "ClientClosedChannel".into(),
        ConsumerMessage::ServerClosedChannel(e) => err_name(e),
        ConsumerMessage::ClientClosedConnection => "ClientClosedConnection".into(),
        ConsumerMessage::ServerClosedConnection(e) => err_name(e),
    }
}

impl Real {
    fn new() -> Real {
        Real { probe: DispatchProbe::new(8, 16), consumers: BTreeMap::new(), returns: BTreeMap::new(), confirms: BTreeMap::new(), body_offsets: HashMap::new(), pending_consume: VecDeque::new(), reply_disconnected: Default::default(), opened: Default::default() }
    }

    /// Apply the event to the real code; returns (result of process / pump, client send failed).
    fn apply(&mut self, ev: Ev, ex: &Expect) -> (Result<(), Error>, bool) {
        match ev {
            Ev::CliCancel(n, t) => {
                let (sent, pumped) = self.probe.client_send_method(n, AMQPClass::Basic(basic::AMQPMethod::Cancel(basic::Cancel { consumer_tag: TAGS[t as usize].into(), nowait: false })));
                (pumped, sent.is_err())
            }
            Ev::CliChClose(n) => {
                let (sent, pumped) = self.probe.client_send_method(n, AMQPClass::Channel(channel::AMQPMethod::Close(channel::Close { reply_code: 0, reply_text: "".into(), class_id: 0, method_id: 0 })));
                (pumped, sent.is_err())
            }
            Ev::CliConnClose => {
                let (sent, pumped) = self.probe.client_connection_close();
                (pumped, sent.is_err())
            }
            Ev::CliListenReturns(n) => {
                let (rx, pumped) = self.probe.client_listen_returns(n);
                let failed = rx.is_err();
                if let (Ok(rx), Some((_, id))) = (rx, ex.new_return_listener) {
                    self.returns.insert(id, rx);
                }
                (pumped, failed)
            }
            Ev::CliListenConfirms(n) => {
                let (rx, pumped) = self.probe.client_listen_confirms(n);
                let failed = rx.is_err();
                if let (Ok(rx), Some((_, id))) = (rx, ex.new_confirm_listener) {
                    self.confirms.insert(id, rx);
                }
                (pumped, failed)
            }
            Ev::CliDropConfirms(_) | Ev::CliDropReturns(_) => (Ok(()), false), // handled by the caller (needs the id)
            _ => {
                let off = match ev {
                    Ev::Body(n, _) => *self.body_offsets.get(&n).unwrap_or(&0),
                    _ => 0,
                };
                let frame = frame_of(ev, off).unwrap();
                match ev {
                    Ev::Body(n, len) => {
                        *self.body_offsets.entry(n).or_insert(0) += len as usize;
                    }
                    Ev::Header(n, _, _) | Ev::Deliver(n, _) | Ev::GetOk(n) | Ev::Return(n) => {
                        self.body_offsets.insert(n, 0);
                    }
                    _ => {}
                }
                (self.probe.feed(frame), false)
            }
        }
    }

    /// Drain everything observable into addressee -> lines.
    fn observe(&mut self, chans: &[u16], ex: &Expect) -> BTreeMap<String, Vec<String>> {
        let mut out: BTreeMap<String, Vec<String>> = BTreeMap::new();
        for n in chans {
            let (replies, disc) = self.probe.drain_replies(*n);
            for r in replies {
                let line = match r {
                    Reply::Method(m) => {
                        let s = format!("{:?}", m);
                        // "Basic(QosOk(QosOk))" -> "Method Basic.QosOk"
                        let class = s.split('(').next().unwrap_or("").to_string();
                        let method = s.split('(').nth(1).unwrap_or("").to_string();
                        format!("Method {}.{}", class, method)
                    }
                    Reply::ConsumeOk(tag, rx) => {
                        self.pending_consume.push_back((tag.clone(), rx));
                        format!("ConsumeOk {}", tag)
                    }
                    Reply::GetOk(None) => "GetEmpty".to_string(),
                    Reply::GetOk(Some(g)) => format!("Get count={} tag={} red={} ex={} rk={} body={:?} props={}", g.message_count, g.delivery.delivery_tag(), g.delivery.redelivered, g.delivery.exchange, g.delivery.routing_key, g.delivery.body, show_props(&g.delivery.properties)),
                    Reply::Err(e) => format!("Err {}", err_name(&e)),
                };
                out.entry(format!("reply{}", n)).or_default().push(line);
            }
            if disc && *n != 0 && self.opened.contains(n) && self.reply_disconnected.insert(*n) {
                out.entry(format!("reply{}", n)).or_default().push("DISCONNECTED".into());
            }
        }
        if let Some((_, _, id)) = ex.new_consumer {
            if let Some((_, rx)) = self.pending_consume.pop_front() {
                self.consumers.insert(id, rx);
            }
        }
        let mut gone = Vec::new();
        for (id, rx) in self.consumers.iter() {
            loop {
                match rx.try_recv() {
                    Ok(m) => out.entry(format!("consumer#{}", id)).or_default().push(show_msg(&m)),
                    Err(TryRecvError::Empty) => break,
                    Err(TryRecvError::Disconnected) => {
                        out.entry(format!("consumer#{}", id)).or_default().push("DISCONNECTED".into());
                        gone.push(*id);
                        break;
                    }
                }
            }
        }
        for id in gone {
            self.consumers.remove(&id);
        }
        let mut gone = Vec::new();
        for (id, rx) in self.returns.iter() {
            loop {
                match rx.try_recv() {
                    Ok(r) => out.entry(format!("returns#{}", id)).or_default().push(format!("Return {} {} ex={} rk={} body={:?} props={}", r.reply_code, r.reply_text, r.exchange, r.routing_key, r.content, show_props(&r.properties))),
                    Err(TryRecvError::Empty) => break,
                    Err(TryRecvError::Disconnected) => {
                        out.entry(format!("returns#{}", id)).or_default().push("DISCONNECTED".into());
                        gone.push(*id);
                        break;
                    }
                }
            }
        }
        for id in gone {
            self.returns.remove(&id);
        }
        let mut gone = Vec::new();
        for (id, rx) in self.confirms.iter() {
            loop {
                match rx.try_recv() {
                    Ok(c) => {
                        let (k, p) = match c {
                            Confirm::Ack(p) => ("Ack", p),
                            Confirm::Nack(p) => ("Nack", p),
                        };
                        out.entry(format!("confirms#{}", id)).or_default().push(format!("{} tag={} multiple={}", k, p.delivery_tag, p.multiple));
                    }
                    Err(TryRecvError::Empty) => break,
                    Err(TryRecvError::Disconnected) => {
                        out.entry(format!("confirms#{}", id)).or_default().push("DISCONNECTED".into());
                        gone.push(*id);
                        break;
                    }
                }
            }
        }
        for id in gone {
            self.confirms.remove(&id);
        }
        out
    }
}

// ---------------------------------------------------------------------------------------
// one step with its oracle
// ---------------------------------------------------------------------------------------

/// A line that hands a message or a notification payload to somebody (as opposed to an error
/// result, a plain method reply or a disconnect).
fn is_message(l: &str) -> bool {
    ["Delivery ", "Get ", "Return ", "Ack ", "Nack ", "Blocked", "Unblocked"].iter().any(|p| l.starts_with(p))
}

/// Outcome of a judged step.
enum Judged {
    Continue,
    Terminal, // the connection ended (error): legitimate end of this history
    Violation(String, String),
}

fn judge_step(real: &mut Real, rf: &mut RefConn, ev: Ev, all_chans: &[u16]) -> Judged {
    // listeners dropped by the client: drop the receiver of the current listener
    match ev {
        Ev::CliDropConfirms(n) => {
            if let Some((ch, _)) = rf.chans.get(&n) {
                if let Some((id, _)) = ch.confirm_listener {
                    real.confirms.remove(&id);
                }
            }
        }
        Ev::CliDropReturns(n) => {
            if let Some((ch, _)) = rf.chans.get(&n) {
                if let Some((id, _)) = ch.return_listener {
                    real.returns.remove(&id);
                }
            }
        }
        _ => {}
    }
    let was_exception = rf.st == ConnSt::ClientException;
    let (want_res, ex) = rf.step(ev);
    let r = catch_unwind(AssertUnwindSafe(|| real.apply(ev, &ex)));
    let (res, send_failed) = match r {
        Ok(x) => x,
        Err(e) => return Judged::Violation("panic".into(), format!("panicked: {}", crate::slots::panic_msg(&e))),
    };
    if send_failed != ex.client_send_fails {
        return Judged::Violation("client-send".into(), format!("client-side send failed={} expected {}", send_failed, ex.client_send_fails));
    }
    let wrote = real.probe.take_outbuf();
    let state = real.probe.state_name();
    let got = real.observe(all_chans, &ex);
    match (&want_res, &res) {
        (Res::Ok, Ok(())) => {}
        (Res::Ok, Err(e)) => return Judged::Violation(format!("unexpected-error:{}", err_name(e)), format!("a valid event ended the connection with {}", err_name(e))),
        (Res::Either(_), Ok(())) => {}
        (Res::Err(allowed), Err(e)) | (Res::Either(allowed), Err(e)) => {
            if !allowed.contains(&err_name(e).as_str()) {
                return Judged::Violation(format!("wrong-error:{}", err_name(e)), format!("connection ended with {} expected one of {:?}", err_name(e), allowed));
            }
            // nothing may have been delivered by the violating frame (to anybody: consumers,
            // listeners, or the caller waiting for a get)
            let delivered: Vec<&String> = got.iter().flat_map(|(_, v)| v.iter()).filter(|l| is_message(l)).collect();
            if !delivered.is_empty() {
                return Judged::Violation("delivered-on-violation".into(), format!("a violating frame still delivered {:?}", delivered));
            }
            return Judged::Terminal;
        }
        (Res::Err(allowed), Ok(())) => return Judged::Violation("violation-tolerated".into(), format!("the connection did not end; expected one of {:?} (state {})", allowed, state)),
        (Res::Exception(codes, errs), r) => {
            if was_exception {
                unreachable!();
            }
            match r {
                Err(e) => {
                    if !errs.contains(&err_name(e).as_str()) {
                        return Judged::Violation(format!("wrong-error:{}", err_name(e)), format!("connection ended with {} expected a client exception with code {:?} (or {:?})", err_name(e), codes, errs));
                    }
                    return Judged::Terminal;
                }
                Ok(()) => {
                    if state != "ClientException" || !real.probe.sealed() {
                        return Judged::Violation("exception-state".into(), format!("state {} sealed {} after a frame that must raise a client exception", state, real.probe.sealed()));
                    }
                    // last (only) frame written: Connection.Close with the hard-error code
                    let (envs, used, _) = vh::wire::split_envelopes(&wrote);
                    let ok = used == wrote.len()
                        && envs.len() == 1
                        && match envs[0].decode() {
                            Some(AMQPFrame::Method(0, AMQPClass::Connection(connection::AMQPMethod::Close(c)))) => codes.contains(&c.reply_code),
                            _ => false,
                        };
                    if !ok {
                        return Judged::Violation("exception-close-frame".into(), format!("wrote {:?} expected a single Connection.Close with code in {:?}", envs.iter().map(|e| e.decode().map(|f| vh::wire::brief(&f))).collect::<Vec<_>>(), codes));
                    }
                    let delivered: Vec<&String> = got.iter().flat_map(|(_, v)| v.iter()).filter(|l| is_message(l)).collect();
                    if !delivered.is_empty() {
                        return Judged::Violation("delivered-on-violation".into(), format!("{:?}", delivered));
                    }
                    return Judged::Continue;
                }
            }
        }
    }
    // valid step: compare what everybody received and what was written
    if got != ex.to {
        return Judged::Violation("wrong-delivery".into(), format!("received {:?}\n expected {:?}", got, ex.to));
    }
    let want_bytes = frames_bytes(&ex.wrote);
    if wrote != want_bytes {
        let (envs, _, _) = vh::wire::split_envelopes(&wrote);
        return Judged::Violation("wrong-frames-written".into(), format!("wrote {:?} expected {:?}", envs.iter().map(|e| e.decode().map(|f| vh::wire::brief(&f))).collect::<Vec<_>>(), ex.wrote.iter().map(vh::wire::brief).collect::<Vec<_>>()));
    }
    let want_state = match rf.st {
        ConnSt::Steady => "Steady",
        ConnSt::ServerClosing => "ServerClosing",
        ConnSt::ClientException => "ClientException",
        ConnSt::ClientClosed => "ClientClosed",
    };
    if state != want_state || real.probe.sealed() != rf.sealed {
        return Judged::Violation("wrong-state".into(), format!("state {} sealed {} expected {} {}", state, real.probe.sealed(), want_state, rf.sealed));
    }
    let _ = frame_bytes;
    Judged::Continue
}

// ---------------------------------------------------------------------------------------
// modes
// ---------------------------------------------------------------------------------------

#[derive(Clone, Copy, PartialEq)]
enum Mode {
    Content,    // C03
    Violations, // C07
    Lifecycle,  // C11
    Listeners,  // C13
}

fn setup(mode: Mode) -> Vec<Ev> {
    match mode {
        // (channel 1's return listener is registered twice: the second registration is the current one)
        // ... and a confirm listener on channel 1 has come and gone (with a confirmation for nobody)
        Mode::Content => vec![Ev::ConsumeOk(1, 0), Ev::ConsumeOk(1, 1), Ev::ConsumeOk(2, 0), Ev::CliListenReturns(1), Ev::CliListenReturns(1), Ev::CliListenReturns(2), Ev::CliListenConfirms(1), Ev::CliDropConfirms(1), Ev::Ack(1, 1, false)],
        Mode::Violations => vec![Ev::ConsumeOk(1, 0), Ev::CliListenReturns(1)],
        Mode::Lifecycle => vec![],
        Mode::Listeners => vec![],
    }
}

fn open_channels(mode: Mode) -> Vec<u16> {
    match mode {
        Mode::Violations => vec![1],
        _ => vec![1, 2],
    }
}

/// Events offered in the current reference state.
fn alphabet(mode: Mode, rf: &RefConn, thorough: bool) -> Vec<Ev> {
    let mut v = Vec::new();
    match mode {
        Mode::Content => {
            for n in [1u16, 2] {
                let (coll, has_b) = match rf.chans.get(&n) {
                    Some((ch, c)) => (c.clone(), ch.consumers.contains_key(&1)),
                    None => continue,
                };
                match coll {
                    Coll::None => {
                        v.push(Ev::Deliver(n, 0));
                        if n == 1 && has_b {
                            v.push(Ev::Deliver(n, 1));
                            // the server cancels b: a (same channel) and a on channel 2 go on receiving
                            v.push(Ev::CancelSrv(n, 1, true));
                        }
                        v.push(Ev::GetOk(n));
                        v.push(Ev::Return(n));
                    }
                    Coll::Started(_) => {
                        for size in 0..=3u8 {
                            v.push(Ev::Header(n, size, size % 2 == 1));
                        }
                    }
                    Coll::Body(_, _, size, got) => {
                        for len in 0..=(size - got.len() as u8) {
                            v.push(Ev::Body(n, len));
                        }
                    }
                }
            }
            v.push(Ev::Heartbeat(0));
        }
        Mode::Violations => {
            // every arm of the dispatch, on channel 0, the open channel 1 and the unopened 2
            for n in [1u16, 2] {
                v.push(Ev::Deliver(n, 0));
                v.push(Ev::Header(n, 0, false));
                v.push(Ev::Header(n, 2, true));
                // (an empty body frame is out of sequence wherever a body frame is, and changes
                // nothing inside a body)
                v.push(Ev::Body(n, 0));
                v.push(Ev::Body(n, 1));
                v.push(Ev::Body(n, 2));
                v.push(Ev::Body(n, 3));
                v.push(Ev::ClientOnly(n, 0));
                v.push(Ev::Unimpl(n, 0));
            }
            v.push(Ev::Header(1, 3, false));
            v.push(Ev::Deliver(1, 2)); // unknown tag
            v.push(Ev::GetOk(1));
            v.push(Ev::Return(1));
            v.push(Ev::ConsumeOk(1, 0)); // duplicate
            v.push(Ev::ConsumeOk(1, 1));
            v.push(Ev::ConsumeOk(2, 0));
            v.push(Ev::CancelSrv(1, 2, false));
            v.push(Ev::CancelOk(2, 0));
            v.push(Ev::ChClose(2));
            v.push(Ev::ChCloseOk(2));
            v.push(Ev::QosOk(1));
            v.push(Ev::QosOk(2));
            v.push(Ev::GetEmpty(2));
            v.push(Ev::Ack(2, 1, false));
            v.push(Ev::Header(0, 1, false));
            v.push(Ev::Body(0, 0));
            v.push(Ev::Body(0, 1));
            v.push(Ev::Ch0Other(0));
            v.push(Ev::Ch0Other(2));
            v.push(Ev::Heartbeat(1));
            v.push(Ev::Heartbeat(0));
            v.push(Ev::ProtoHeader);
            v.push(Ev::Blocked);
            for k in 6..=14u8 {
                v.push(Ev::ClientOnly(1, k));
            }
            if thorough {
                for k in 1..=5u8 {
                    v.push(Ev::ClientOnly(1, k));
                }
                for k in 1..=3u8 {
                    v.push(Ev::Unimpl(1, k));
                    v.push(Ev::Ch0Other(k));
                }
                v.push(Ev::ChClose(1));
                v.push(Ev::ConnClose);
            }
        }
        Mode::Lifecycle => {
            if rf.st != ConnSt::Steady {
                return v;
            }
            for n in [1u16, 2] {
                let (ch, coll) = match rf.chans.get(&n) {
                    Some(x) => x,
                    None => continue,
                };
                if *coll != Coll::None {
                    // finish the delivery in progress first (bodyless)
                    v.push(Ev::Header(n, 0, false));
                    continue;
                }
                for t in [0u8, 1] {
                    if n == 2 && t == 1 {
                        continue;
                    }
                    if ch.consumers.contains_key(&t) {
                        v.push(Ev::Deliver(n, t));
                        if !ch.cancel_pending.contains(&t) {
                            v.push(Ev::CliCancel(n, t));
                        }
                        v.push(Ev::CancelSrv(n, t, false));
                        v.push(Ev::CancelSrv(n, t, true));
                    } else if !rf.ended.is_empty() || ch.consumers.len() < 2 {
                        // (re)register the tag
                        if !ch.cancel_pending.contains(&t) {
                            v.push(Ev::ConsumeOk(n, t));
                        }
                    }
                    if ch.cancel_pending.contains(&t) {
                        v.push(Ev::CancelOk(n, t));
                    }
                }
                v.push(Ev::ChClose(n));
                if !ch.close_pending {
                    v.push(Ev::CliChClose(n));
                } else {
                    v.push(Ev::ChCloseOk(n));
                }
            }
            v.push(Ev::ConnClose);
            if !rf.conn_close_pending {
                v.push(Ev::CliConnClose);
            } else {
                v.push(Ev::ConnCloseOk);
            }
        }
        Mode::Listeners => {
            if rf.st != ConnSt::Steady {
                return v;
            }
            for n in [1u16, 2] {
                let (_, coll) = match rf.chans.get(&n) {
                    Some(x) => x,
                    None => continue,
                };
                match coll {
                    Coll::None => {}
                    // a returned message in progress: bodyless, or a two-byte body in one or two frames
                    Coll::Started(_) => {
                        v.push(Ev::Header(n, 0, true));
                        v.push(Ev::Header(n, 2, false));
                        continue;
                    }
                    Coll::Body(_, _, size, got) => {
                        for len in 1..=(*size - got.len() as u8) {
                            v.push(Ev::Body(n, len));
                        }
                        continue;
                    }
                }
                if n == 1 {
                    v.push(Ev::Ack(n, 1, false));
                    v.push(Ev::Nack(n, 2, true));
                    v.push(Ev::Return(n));
                    v.push(Ev::CliListenConfirms(n));
                    v.push(Ev::CliListenReturns(n));
                    v.push(Ev::CliDropConfirms(n));
                    v.push(Ev::CliDropReturns(n));
                    v.push(Ev::QosOk(n));
                } else {
                    v.push(Ev::Ack(n, 3, true));
                    v.push(Ev::CliListenConfirms(n));
                }
            }
            v.push(Ev::Blocked);
        }
    }
    v
}

fn ev_json(e: &Ev) -> Value {
    json!(format!("{:?}", e))
}

fn build(mode: Mode, hist: &[Ev]) -> Option<(Real, RefConn)> {
    let mut real = Real::new();
    let mut rf = RefConn::new();
    let chans = open_channels(mode);
    for n in &chans {
        real.probe.open_slot(Some(*n)).ok()?;
        real.opened.insert(*n);
        rf.open(*n);
    }
    let all: Vec<u16> = vec![0, 1, 2];
    let _ = real.probe.take_outbuf();
    for ev in setup(mode).iter().chain(hist.iter()) {
        match judge_step(&mut real, &mut rf, *ev, &all) {
            Judged::Continue => {}
            _ => return None,
        }
    }
    Some((real, rf))
}

fn explore(mode: Mode, name: &str, property: &str, depth: usize, thorough: bool, part: &mut Part) {
    type Key = (String, RefConn);
    let mut seen: HashMap<Key, usize> = HashMap::new();
    let mut frontier: VecDeque<Vec<Ev>> = VecDeque::new();
    // the setup events are judged like any other step
    {
        let mut real = Real::new();
        let mut rf = RefConn::new();
        for n in &open_channels(mode) {
            let _ = real.probe.open_slot(Some(*n));
            real.opened.insert(*n);
            rf.open(*n);
        }
        let all: Vec<u16> = vec![0, 1, 2];
        let _ = real.probe.take_outbuf();
        let evs = setup(mode);
        for (k, ev) in evs.iter().enumerate() {
            part.transitions += 1;
            match judge_step(&mut real, &mut rf, *ev, &all) {
                Judged::Continue => {}
                Judged::Violation(kind, detail) => {
                    let key_kind = kind.split(':').next().unwrap().to_string();
                    part.violation(&format!("{}:{}", name, key_kind), format!("after {:?} then {:?}: {}", &evs[..k], ev, detail), json!({"engine":"seqx","check":"dispatch","mode":name,"history":[]}));
                    return;
                }
                Judged::Terminal => {
                    part.violation(&format!("{}:setup", name), format!("after {:?} then {:?}: the connection ended", &evs[..k], ev), json!({"engine":"seqx","check":"dispatch","mode":name,"history":[]}));
                    return;
                }
            }
        }
    }
    let (r0, f0) = build(mode, &[]).expect("setup must be valid");
    seen.insert((format!("{:?}", r0.probe.fingerprint()), f0), 0);
    frontier.push_back(vec![]);
    let all: Vec<u16> = vec![0, 1, 2];
    let mut last_new_depth = 0;
    let mut terminal = 0u64;
    while let Some(hist) = frontier.pop_front() {
        if hist.len() >= depth {
            continue;
        }
        let (_, rf0) = match build(mode, &hist) {
            Some(x) => x,
            None => continue,
        };
        for ev in alphabet(mode, &rf0, thorough) {
            let (mut real, mut rf) = build(mode, &hist).unwrap();
            let j = judge_step(&mut real, &mut rf, ev, &all);
            part.transitions += 1;
            let mut h2 = hist.clone();
            h2.push(ev);
            match j {
                Judged::Violation(kind, detail) => {
                    let key_kind = kind.split(':').next().unwrap().to_string();
                    part.violation(
                        &format!("{}:{}", name, key_kind),
                        format!("after {:?} then {:?}: {}", setup(mode).iter().chain(hist.iter()).collect::<Vec<_>>(), ev, detail),
                        json!({"engine":"seqx","check":"dispatch","mode":name,"history":h2.iter().map(ev_json).collect::<Vec<_>>()}),
                    );
                    let _ = property;
                }
                Judged::Terminal => {
                    terminal += 1;
                    part.outcome("connection-ended-with-error");
                }
                Judged::Continue => {
                    let key = (format!("{:?}", real.probe.fingerprint()), rf);
                    if !seen.contains_key(&key) {
                        seen.insert(key, h2.len());
                        last_new_depth = last_new_depth.max(h2.len());
                        if part.samples.len() < 2 && h2.len() >= 3 {
                            part.sample(json!({"mode": name, "history": h2.iter().map(ev_json).collect::<Vec<_>>()}));
                        }
                        frontier.push_back(h2);
                    }
                }
            }
        }
    }
    part.states += seen.len() as u64;
    part.evaluations += seen.len() as u64 + terminal;
    part.distinct_nontrivial += seen.len() as u64;
    part.extra.insert(format!("{}_states", name), json!(seen.len()));
    part.extra.insert(format!("{}_terminal_histories", name), json!(terminal));
    part.extra.insert(format!("{}_depth_of_last_new_state", name), json!(last_new_depth));
    part.extra.insert(format!("{}_depth_bound", name), json!(depth));
    part.traces_validated += part.transitions;
}

fn run_mode(args: &Args, mode: Mode, name: &str, property: &str, depth: (usize, usize), rule: &str) {
    std::panic::set_hook(Box::new(|_| {}));
    let mut part = Part::new(property, &format!("dispatch-{}", name), "seqx", "model_checking", &args.tier);
    part.rule = rule.to_string();
    let d = if args.thorough() { depth.1 } else { depth.0 };
    part.bounds.insert("depth".into(), json!(d));
    explore(mode, name, property, d, args.thorough(), &mut part);
    if mode == Mode::Violations {
        huge_sizes(&mut part);
        huge_frames(&mut part);
        nested_tables(&mut part);
    }
    if mode == Mode::Content || mode == Mode::Listeners {
        flood(mode, &mut part);
    }
    part.finish(args.out.as_deref());
}

/// Announced body sizes that cannot be allocated: each in a child process (abort detection).
/// An addressee that does not read its queue delays nobody and loses nothing: `K` messages are
/// fed to a consumer / return listener / confirm listener nobody drains (on its own thread: a
/// dispatch that blocks on a full queue would otherwise hang the check), the replies of the
/// same channel keep flowing, and afterwards the queue holds all `K`, in order.
fn flood(mode: Mode, part: &mut Part) {
    const K: usize = 2000;
    let (tx, rx) = std::sync::mpsc::channel::<Result<(), (String, String)>>();
    std::thread::spawn(move || {
        let r = std::panic::catch_unwind(move || -> Result<(), (String, String)> {
            let mut real = Real::new();
            let mut rf = RefConn::new();
            for n in [1u16, 2] {
                real.probe.open_slot(Some(n)).map_err(|e| ("flood:setup".to_string(), format!("{:?}", e)))?;
                real.opened.insert(n);
                rf.open(n);
            }
            let all: Vec<u16> = vec![0, 1, 2];
            let _ = real.probe.take_outbuf();
            let setup: Vec<Ev> = if mode == Mode::Content { vec![Ev::ConsumeOk(1, 0), Ev::CliListenReturns(1)] } else { vec![Ev::CliListenConfirms(1)] };
            for ev in setup {
                if let Judged::Violation(k, d) = judge_step(&mut real, &mut rf, ev, &all) {
                    return Err((format!("flood:setup:{}", k), d));
                }
            }
            let ex = Expect::default();
            let feed = |real: &mut Real, ev: Ev| -> Result<(), (String, String)> { real.apply(ev, &ex).0.map_err(|e| ("flood:error".to_string(), format!("{:?} ended the connection with {} while its addressee was not reading", ev, err_name(&e)))) };
            for i in 0..K {
                if mode == Mode::Content {
                    feed(&mut real, Ev::Deliver(1, 0))?;
                    feed(&mut real, Ev::Header(1, 0, false))?;
                    feed(&mut real, Ev::Return(1))?;
                    feed(&mut real, Ev::Header(1, 0, true))?;
                } else {
                    feed(&mut real, if i % 2 == 0 { Ev::Ack(1, 1, false) } else { Ev::Nack(1, 2, true) })?;
                }
                // ... and the channel's replies are not held up
                if i % 500 == 0 {
                    feed(&mut real, Ev::QosOk(1))?;
                    let (replies, _) = real.probe.drain_replies(1);
                    if replies.len() != 1 {
                        return Err(("flood:reply-delayed".to_string(), format!("{} replies on channel 1 after a QosOk behind {} unread messages", replies.len(), i)));
                    }
                }
            }
            let counts: Vec<(String, usize)> = if mode == Mode::Content {
                vec![("consumer".to_string(), real.consumers.values().map(|rx| rx.try_iter().filter(|m| show_msg(m).starts_with("Delivery tag=40 ")).count()).sum()), ("return listener".to_string(), real.returns.values().map(|rx| rx.try_iter().count()).sum())]
            } else {
                let all: Vec<String> = real.confirms.values().flat_map(|rx| rx.try_iter().map(|c| format!("{:?}", c)).collect::<Vec<_>>()).collect();
                let in_order = all.iter().enumerate().all(|(i, c)| c.starts_with(if i % 2 == 0 { "Ack" } else { "Nack" }));
                if !in_order {
                    return Err(("flood:order".to_string(), "confirms of an unread listener out of order".to_string()));
                }
                vec![("confirm listener".to_string(), all.len())]
            };
            for (who, n) in counts {
                if n != K {
                    return Err(("flood:lost".to_string(), format!("{} messages were sent to a {} that was not reading; its queue holds {}", K, who, n)));
                }
            }
            Ok(())
        });
        let _ = tx.send(match r {
            Ok(x) => x,
            Err(e) => Err(("flood:panic".to_string(), crate::slots::panic_msg(&e))),
        });
    });
    let verdict = match rx.recv_timeout(std::time::Duration::from_secs(60)) {
        Ok(v) => v,
        Err(_) => Err(("flood:blocked".to_string(), format!("feeding {} messages to an addressee that does not read its queue did not finish within 60 s: the dispatch blocks on a full queue and with it every other channel", K))),
    };
    part.evaluations += 1;
    part.distinct_nontrivial += 1;
    part.extra.insert("flood_messages".into(), json!(K));
    if let Err((k, d)) = verdict {
        part.violation(&k, d, json!({"engine":"seqx","check":"dispatch","mode":"flood"}));
    }
}

fn huge_sizes(part: &mut Part) {
    let exe = std::env::current_exe().unwrap();
    let sizes: Vec<u64> = vec![1 << 31, (1 << 32) - 1, 1 << 32, 1 << 40, 1 << 63, u64::MAX];
    let results = vh::par::par_map(sizes.len(), |i| {
        let out = std::process::Command::new(&exe).arg("dispatch-huge-child").arg(sizes[i].to_string()).output();
        match out {
            Ok(o) => (o.status.code(), String::from_utf8_lossy(&o.stdout).to_string()),
            Err(e) => (None, e.to_string()),
        }
    });
    for (i, (code, text)) in results.into_iter().enumerate() {
        part.evaluations += 1;
        part.distinct_nontrivial += 1;
        part.transitions += 3;
        if code != Some(0) || !text.contains("OK") {
            part.violation(
                "violations:huge-body-size",
                format!("Deliver, Header(body_size = {}), Body(1 byte): child exited with {:?}: {}", sizes[i], code, text.lines().last().unwrap_or("").chars().take(200).collect::<String>()),
                json!({"engine":"seqx","check":"dispatch","mode":"huge","size":sizes[i].to_string()}),
            );
        }
    }
    part.extra.insert("huge_body_sizes".into(), json!(sizes.iter().map(|s| s.to_string()).collect::<Vec<_>>()));
}

/// Seven bytes of frame header announcing a payload of 1.25 GiB (what a peer's own protocol
/// header "AMQP\0\0\9\1", sent on a version mismatch, reads as), 2 GiB and 4 GiB - 1, followed by
/// 64 bytes and then nothing - through the real frame buffer in a child process whose address
/// space is limited to 1 GiB (`ulimit -v`; a container, a 32-bit target): the announced size is
/// the peer's say-so, the process must survive it.
fn huge_frames(part: &mut Part) {
    let exe = std::env::current_exe().unwrap();
    let sizes: Vec<u64> = vec![0x5000_0009, 1 << 31, 0xFFFF_FFFF];
    let results = vh::par::par_map(sizes.len(), |i| {
        let out = std::process::Command::new("sh")
            .arg("-c")
            .arg("ulimit -v 1048576 && exec \"$0\" dispatch-hugeframe-child \"$1\"")
            .arg(&exe)
            .arg(sizes[i].to_string())
            .output();
        match out {
            Ok(o) => (o.status.code(), String::from_utf8_lossy(&o.stdout).to_string(), format!("{:?} {}", o.status, String::from_utf8_lossy(&o.stderr).lines().next().unwrap_or("").chars().take(120).collect::<String>())),
            Err(e) => (None, e.to_string(), String::new()),
        }
    });
    for (i, (code, text, status)) in results.into_iter().enumerate() {
        part.evaluations += 1;
        part.distinct_nontrivial += 1;
        part.transitions += 1;
        if !text.contains("CHILD-STARTED") {
            // the limit could not be set or the child did not start: nothing was judged
            eprintln!("MACHINERY: huge-frame child for size {} did not start under `ulimit -v 1048576`: {} {}", sizes[i], status, text);
            part.exhaustive = false;
            continue;
        }
        if code != Some(0) || !text.contains("OK") {
            part.violation(
                "violations:huge-frame-size",
                format!("a frame header announcing {} payload bytes, 64 bytes behind it, in a process limited to 1 GiB of address space: {} {}", sizes[i], status, text.lines().last().unwrap_or("")),
                json!({"engine":"seqx","check":"dispatch","mode":"hugeframe","size":sizes[i].to_string()}),
            );
        }
    }
    part.extra.insert("huge_frame_sizes".into(), json!(sizes.iter().map(|s| s.to_string()).collect::<Vec<_>>()));
}

pub fn hugeframe_child(size: &str) {
    struct S {
        data: Vec<u8>,
        pos: usize,
    }
    impl std::io::Read for S {
        fn read(&mut self, buf: &mut [u8]) -> std::io::Result<usize> {
            if self.pos >= self.data.len() {
                return Err(std::io::ErrorKind::WouldBlock.into());
            }
            let n = (self.data.len() - self.pos).min(buf.len());
            buf[..n].copy_from_slice(&self.data[self.pos..self.pos + n]);
            self.pos += n;
            Ok(n)
        }
    }
    println!("CHILD-STARTED");
    let size: u32 = size.parse::<u64>().unwrap() as u32;
    let mut data = vec![1u8, 0, 1];
    data.extend_from_slice(&size.to_be_bytes());
    data.extend_from_slice(&[0u8; 64]);
    let mut s = S { data, pos: 0 };
    let mut fb = amiquip::verif::probe::FrameBuffer::new();
    let r = catch_unwind(AssertUnwindSafe(|| fb.read_from(&mut s, |_f| Ok(()))));
    match r {
        Err(e) => {
            println!("PANIC: {}", crate::slots::panic_msg(&e));
            std::process::exit(3);
        }
        // (waiting for the rest, or refusing the frame: both are containment)
        Ok(r) => println!("read_from -> {:?}", r.map_err(|e| format!("{:?}", e))),
    }
    println!("OK");
}

/// A content header whose `headers` table is nested `depth` levels deep - a syntactically valid
/// frame of 35 + 7 * depth bytes - through the real frame buffer (parse included), on a thread
/// with the stack the I/O thread has (a spawned thread's default), in a child process: whatever
/// the client makes of it, the process must survive.
fn nested_tables(part: &mut Part) {
    let exe = std::env::current_exe().unwrap();
    let depths: Vec<usize> = vec![8, 64, 600, 5000, 18000];
    let results = vh::par::par_map(depths.len(), |i| {
        let out = std::process::Command::new(&exe).arg("dispatch-nested-child").arg(depths[i].to_string()).output();
        match out {
            Ok(o) => (o.status.code(), String::from_utf8_lossy(&o.stdout).to_string(), format!("{:?}", o.status)),
            Err(e) => (None, e.to_string(), String::new()),
        }
    });
    let mut died: Vec<String> = Vec::new();
    for (i, (code, text, status)) in results.into_iter().enumerate() {
        part.evaluations += 1;
        part.distinct_nontrivial += 1;
        part.transitions += 1;
        if code != Some(0) || !text.contains("OK") {
            died.push(format!("depth {} ({} bytes): {}", depths[i], 35 + 7 * depths[i], status));
        }
    }
    if !died.is_empty() {
        part.violation(
            "violations:nested-table-abort",
            format!("a content header whose headers table is nested deeply ends the process (stack overflow in the frame parser on the I/O thread's stack): {}", died.join("; ")),
            json!({"engine":"seqx","check":"dispatch","mode":"nested","depths":depths}),
        );
    }
    part.extra.insert("nested_table_depths".into(), json!(depths));
}

pub fn nested_child(depth: &str) {
    let depth: usize = depth.parse().unwrap();
    // innermost table is empty; each level wraps it as {"k": <table>}
    let mut content: Vec<u8> = Vec::new();
    for _ in 0..depth {
        let mut outer = vec![1u8, b'k', b'F'];
        outer.extend_from_slice(&(content.len() as u32).to_be_bytes());
        outer.extend_from_slice(&content);
        content = outer;
    }
    let mut payload: Vec<u8> = vec![0, 60, 0, 0, 0, 0, 0, 0, 0, 0, 0, 0, 0x20, 0x00];
    payload.extend_from_slice(&(content.len() as u32).to_be_bytes());
    payload.extend_from_slice(&content);
    let mut bytes = vec![2u8, 0, 1];
    bytes.extend_from_slice(&(payload.len() as u32).to_be_bytes());
    bytes.extend_from_slice(&payload);
    bytes.push(0xCE);
    let h = std::thread::Builder::new()
        .name("like-amiquip-io".into())
        .spawn(move || {
            let mut fb = amiquip::verif::probe::FrameBuffer::new();
            let mut cur = std::io::Cursor::new(bytes);
            let mut n = 0usize;
            let r = fb.read_from(&mut cur, |_f| {
                n += 1;
                Ok(())
            });
            (n, r.map_err(|e| format!("{:?}", e)))
        })
        .unwrap();
    match h.join() {
        Ok((n, r)) => {
            println!("frames handed on: {}, read_from -> {:?}", n, r.map(|_| ()));
            println!("OK");
        }
        Err(_) => {
            println!("PANIC");
            std::process::exit(3);
        }
    }
}

pub fn huge_child(size: &str) {
    let size: u64 = size.parse().unwrap();
    let mut real = Real::new();
    real.probe.open_slot(Some(1)).unwrap();
    real.probe.feed(frame_of(Ev::ConsumeOk(1, 0), 0).unwrap()).unwrap();
    real.probe.feed(frame_of(Ev::Deliver(1, 0), 0).unwrap()).unwrap();
    let r = catch_unwind(AssertUnwindSafe(|| real.probe.feed(AMQPFrame::Header(1, 60, Box::new(AMQPContentHeader { class_id: 60, weight: 0, body_size: size, properties: Default::default() })))));
    match r {
        Err(e) => {
            println!("PANIC on header: {}", crate::slots::panic_msg(&e));
            std::process::exit(3);
        }
        Ok(Err(e)) => {
            // refusing such a size with an error is acceptable containment
            println!("header refused: {:?}", e);
            println!("OK");
            return;
        }
        Ok(Ok(())) => {}
    }
    let r = catch_unwind(AssertUnwindSafe(|| real.probe.feed(AMQPFrame::Body(1, vec![7]))));
    match r {
        Err(e) => {
            println!("PANIC on body: {}", crate::slots::panic_msg(&e));
            std::process::exit(3);
        }
        Ok(r) => println!("body -> {:?}", r.map_err(|e| format!("{:?}", e))),
    }
    // nothing may have been delivered: the content is not complete
    let ex = Expect::default();
    let got = real.observe(&[1], &ex);
    let delivered = got.iter().any(|(k, v)| k.starts_with("consumer") && !v.is_empty());
    if delivered {
        println!("DELIVERED incomplete content {:?}", got);
        std::process::exit(4);
    }
    println!("OK");
}

pub fn run_content(args: &Args) {
    run_mode(args, Mode::Content, "content", "C03", (9, 12), "BFS over valid server histories on channels 1 and 2 (consumers a,b on 1 and a on 2 - the same tag on two channels on purpose -, return listeners, gets): server Basic.Cancel of b on channel 1 (the other consumers go on receiving), Deliver/GetOk/Return, Header(size 0..3, with/without properties), Body(1..remaining) in every per-channel-valid continuation and every cross-channel interleaving; after every frame everything every addressee received (full message content) is compared with a reference reassembler; state = real fingerprint x reference state");
}
pub fn run_violations(args: &Args) {
    run_mode(args, Mode::Violations, "violations", "C07", (5, 6), "BFS over frame sequences from a 33-symbol (thorough 45) alphabet covering every arm of the dispatch on channel 0, the open channel 1 and the unopened channel 2 (content without method, second header, body overrun, new content method mid-content, frames for an unopened channel, content on channel 0, unknown / duplicate consumer tag, client-only methods, unimplemented classes, channel-0 methods, heartbeat on channel 1, protocol header, unsolicited replies) from every reachable collector state; per step: no panic, the error / client exception (Connection.Close with the matching hard-error code, sealed, later frames ignored) the statement names for that violation class, nothing delivered by a violating frame; plus six unallocatable body sizes in child processes");
}
pub fn run_lifecycle(args: &Args) {
    run_mode(args, Mode::Lifecycle, "lifecycle", "C11", (7, 9), "BFS over consumer lifecycle histories on tags {a,b} x channels {1,2}: ConsumeOk, bodyless deliveries, client cancel request, CancelOk, server Cancel (nowait or not), server Channel.Close, client Channel.Close + CloseOk, server Connection.Close, client Connection.Close + CloseOk, in every order the protocol allows; after every event each consumer queue's content is compared with the reference: deliveries in order, exactly one terminal message of the right kind, then disconnected; CancelOk written iff the server's cancel was not nowait");
}
pub fn run_listeners(args: &Args) {
    run_mode(args, Mode::Listeners, "listeners", "C13", (7, 9), "BFS over acks / nacks / returned messages on two channels interleaved with confirm- and return-listener registration, replacement and dropping and an RPC reply; after every event each listener's queue is compared with the reference (verbatim payloads, order, replaced listeners disconnected, dropped or absent listeners discard without disturbing the connection)");
}

pub fn replay(v: &Value) -> bool {
    std::panic::set_hook(Box::new(|_| {}));
    if v["mode"] == "huge" {
        println!("re-run: seqx dispatch-huge-child {}", v["size"]);
        return false;
    }
    if v["mode"] == "flood" {
        println!("re-run: seqx dispatch-content / dispatch-listeners (the flood child runs at the end)");
        return false;
    }
    let mode = match v["mode"].as_str().unwrap() {
        "content" => Mode::Content,
        "violations" => Mode::Violations,
        "lifecycle" => Mode::Lifecycle,
        _ => Mode::Listeners,
    };
    // histories are stored in Debug form; re-derive by searching the alphabet at each step
    let want: Vec<String> = v["history"].as_array().unwrap().iter().map(|x| x.as_str().unwrap().to_string()).collect();
    let mut hist: Vec<Ev> = Vec::new();
    let all: Vec<u16> = vec![0, 1, 2];
    for w in &want {
        let (_, rf) = match build(mode, &hist) {
            Some(x) => x,
            None => {
                println!("history prefix no longer valid");
                return false;
            }
        };
        let ev = alphabet(mode, &rf, true).into_iter().find(|e| format!("{:?}", e) == *w);
        let ev = match ev {
            Some(e) => e,
            None => {
                println!("event {} not offered in this state", w);
                return false;
            }
        };
        let (mut real, mut rf2) = build(mode, &hist).unwrap();
        match judge_step(&mut real, &mut rf2, ev, &all) {
            Judged::Violation(k, d) => {
                println!("{:?} -> VIOLATION {}: {}", ev, k, d);
                return false;
            }
            Judged::Terminal => println!("{:?} -> connection ended (as expected)", ev),
            Judged::Continue => println!("{:?} -> ok, state {}", ev, real.probe.state_name()),
        }
        hist.push(ev);
    }
    true
}
