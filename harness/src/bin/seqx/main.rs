//! E1 `seqx`: sequential bounded-exhaustive enumeration of amiquip's components, driven
//! directly on this thread through the public API or `cfg(amiquip_verif)` probes.
mod api;
mod dispatch;
mod framebuf;
mod publish;
mod slots;
mod smoother;
mod startok;
mod timershim;
mod tune;
mod url;
mod handover;
mod writeprobe;

use serde_json::Value;

pub struct Args {
    pub tier: String,
    pub out: Option<String>,
    pub rest: Vec<String>,
}

impl Args {
    pub fn thorough(&self) -> bool {
        self.tier == "thorough"
    }
}

fn usage() -> ! {
    eprintln!("usage: seqx <check> [--tier quick|thorough] [--out FILE] | seqx replay FILE");
    std::process::exit(2);
}

fn main() {
    let argv: Vec<String> = std::env::args().collect();
    if argv.len() < 2 {
        usage();
    }
    let cmd = argv[1].clone();
    let mut args = Args {
        tier: "quick".into(),
        out: None,
        rest: Vec::new(),
    };
    let mut i = 2;
    while i < argv.len() {
        match argv[i].as_str() {
            "--tier" => {
                args.tier = argv[i + 1].clone();
                i += 2;
            }
            "--out" => {
                args.out = Some(argv[i + 1].clone());
                i += 2;
            }
            _ => {
                args.rest.push(argv[i].clone());
                i += 1;
            }
        }
    }
    // keep panic output of caught panics quiet: checks install their own hooks when needed
    match cmd.as_str() {
        "smoother" => smoother::run(&args),
        "slots" => slots::run(&args),
        "tune" => tune::run(&args),
        "timershim" => timershim::run(&args),
        "dispatch-content" => dispatch::run_content(&args),
        "dispatch-violations" => dispatch::run_violations(&args),
        "dispatch-lifecycle" => dispatch::run_lifecycle(&args),
        "dispatch-listeners" => dispatch::run_listeners(&args),
        "dispatch-huge-child" => dispatch::huge_child(&args.rest[0]),
        "dispatch-nested-child" => dispatch::nested_child(&args.rest[0]),
        "dispatch-hugeframe-child" => dispatch::hugeframe_child(&args.rest[0]),
        "startok" => startok::run(&args),
        "api" => api::run(&args),
        "publish" => publish::run(&args),
        "writeprobe" => writeprobe::run(&args),
        "framebuf" => framebuf::run(&args),
        "url" => url::run(&args),
        "handover" => handover::run(&args),
        "backpressure" => handover::run_resume(&args),
        "tuning-builders" => handover::run_tuning(&args),
        "slots-boundary-child" => slots::boundary_child(&args.rest[0]),
        "replay" => {
            let path = args.rest.first().cloned().unwrap_or_else(|| usage());
            let text = std::fs::read_to_string(&path).expect("read replay file");
            let v: Value = serde_json::from_str(&text).expect("parse replay file");
            let check = v["check"].as_str().unwrap_or("").to_string();
            let ok = match check.as_str() {
                "smoother" => smoother::replay(&v),
                "slots" => slots::replay(&v),
                "tune" => tune::replay(&v),
                "dispatch" => dispatch::replay(&v),
                "startok" => startok::replay(&v),
                "api" => api::replay(&v),
                "publish" => publish::replay(&v),
                "writeprobe" => writeprobe::replay(&v),
                "framebuf" => framebuf::replay(&v),
                "url" => url::replay(&v),
                "handover" => handover::replay(&v),
                other => {
                    eprintln!("unknown replay check {:?}", other);
                    std::process::exit(2);
                }
            };
            std::process::exit(if ok { 0 } else { 1 });
        }
        _ => usage(),
    }
}
