//! C10: channel id table. Complete reachable state graph of the real `ChannelSlots` for
//! small channel_max, plus the u16 counter boundary at channel_max = 65535 (child process).
use crate::Args;
use amiquip::verif::probe::{SlotsProbe, SlotsSnapshot};
use amiquip::Error;
use serde_json::{json, Value};
use std::collections::{BTreeSet, HashMap, VecDeque};
use std::panic::{catch_unwind, AssertUnwindSafe};
use vh::report::Part;

#[derive(Clone, Copy, Debug, PartialEq, Eq, Hash, PartialOrd, Ord)]
pub enum Op {
    Open(Option<u16>),
    OpenFail(Option<u16>), // entry constructor fails: roll-back path
    Close(u16),
    Drain,
}

fn op_json(op: Op) -> Value {
    match op {
        Op::Open(Some(i)) => json!(["open", i]),
        Op::Open(None) => json!(["open", null]),
        Op::OpenFail(Some(i)) => json!(["open_entry_fails", i]),
        Op::OpenFail(None) => json!(["open_entry_fails", null]),
        Op::Close(i) => json!(["close", i]),
        Op::Drain => json!(["drain"]),
    }
}

fn op_from_json(v: &Value) -> Op {
    let name = v[0].as_str().unwrap();
    let arg = v.get(1).and_then(|x| x.as_u64()).map(|x| x as u16);
    match name {
        "open" => Op::Open(arg),
        "open_entry_fails" => Op::OpenFail(arg),
        "close" => Op::Close(arg.unwrap()),
        "drain" => Op::Drain,
        _ => panic!("bad op"),
    }
}

#[derive(Debug, Clone, PartialEq)]
enum Outcome {
    Id(u16),
    Unavailable(u16),
    Exhausted,
    EntryFailed,
    Closed(bool),
    Drained(Vec<u16>),
    OtherErr(String),
    Panic(String),
}

fn apply_real(p: &mut SlotsProbe, op: Op) -> Outcome {
    let r = catch_unwind(AssertUnwindSafe(|| match op {
        Op::Open(id) | Op::OpenFail(id) => {
            let fail = matches!(op, Op::OpenFail(_));
            match p.insert(id, fail) {
                Ok(i) => Outcome::Id(i),
                Err(Error::UnavailableChannelId { channel_id }) => Outcome::Unavailable(channel_id),
                Err(Error::ExhaustedChannelIds) => Outcome::Exhausted,
                Err(Error::FrameUnexpected) if fail => Outcome::EntryFailed,
                Err(e) => Outcome::OtherErr(format!("{:?}", e)),
            }
        }
        Op::Close(i) => Outcome::Closed(p.remove(i)),
        Op::Drain => Outcome::Drained(p.drain()),
    }));
    match r {
        Ok(o) => o,
        Err(e) => Outcome::Panic(panic_msg(&e)),
    }
}

pub fn panic_msg(e: &Box<dyn std::any::Any + Send>) -> String {
    if let Some(s) = e.downcast_ref::<&str>() {
        s.to_string()
    } else if let Some(s) = e.downcast_ref::<String>() {
        s.clone()
    } else {
        "panic".to_string()
    }
}

/// Check one transition against the statement. `open` is the reference set before the op;
/// it is updated. Returns a violation kind.
fn judge(max: u16, open: &mut BTreeSet<u16>, op: Op, got: &Outcome) -> Option<String> {
    if let Outcome::Panic(m) = got {
        return Some(format!("panic:{}", m));
    }
    match op {
        Op::Open(Some(i)) | Op::OpenFail(Some(i)) => {
            let fail = matches!(op, Op::OpenFail(_));
            let ok = i >= 1 && i <= max && !open.contains(&i);
            if ok {
                if fail {
                    if *got != Outcome::EntryFailed {
                        return Some("rollback-result".into());
                    }
                } else {
                    if *got != Outcome::Id(i) {
                        return Some(if i == 0 { "id0".into() } else { "explicit-id-refused-or-wrong".into() });
                    }
                    open.insert(i);
                }
            } else if *got != Outcome::Unavailable(i) {
                if let Outcome::Id(g) = got {
                    open.insert(*g);
                }
                return Some(if i == 0 { "explicit-id0-accepted".into() } else { "unavailable-id-accepted".into() });
            }
        }
        Op::Open(None) | Op::OpenFail(None) => {
            let fail = matches!(op, Op::OpenFail(_));
            let in_range = open.len() - open.contains(&0) as usize - open.range((max as u32 + 1).min(65535) as u16..).filter(|i| **i > max).count();
            let any_free = in_range < max as usize;
            if any_free {
                if fail {
                    if *got != Outcome::EntryFailed {
                        return Some("rollback-result".into());
                    }
                } else {
                    match got {
                        Outcome::Id(g) if *g >= 1 && *g <= max && !open.contains(g) => {
                            open.insert(*g);
                        }
                        Outcome::Id(0) => return Some("handed-out-id0".into()),
                        Outcome::Id(g) => {
                            let k = if open.contains(g) { "handed-out-open-id" } else { "handed-out-id-out-of-range" };
                            return Some(k.into());
                        }
                        Outcome::Exhausted => return Some("exhausted-although-free-id-exists".into()),
                        _ => return Some("auto-id-wrong-result".into()),
                    }
                }
            } else if *got != Outcome::Exhausted {
                if let Outcome::Id(g) = got {
                    open.insert(*g);
                }
                return Some("not-exhausted-although-all-open".into());
            }
        }
        Op::Close(i) => {
            let was = open.remove(&i);
            if *got != Outcome::Closed(was) {
                return Some("close-result".into());
            }
        }
        Op::Drain => {
            let want: Vec<u16> = open.iter().copied().collect();
            open.clear();
            if *got != Outcome::Drained(want) {
                return Some("drain-result".into());
            }
        }
    }
    None
}

fn invariant(max: u16, open: &BTreeSet<u16>, snap: &SlotsSnapshot) -> Option<&'static str> {
    let real: BTreeSet<u16> = snap.open.iter().copied().collect();
    if real.len() != snap.open.len() {
        return Some("duplicate-open-id");
    }
    if real.contains(&0) {
        return Some("id0-open");
    }
    if real.iter().any(|i| *i > max) {
        return Some("open-id-above-max");
    }
    if &real != open {
        return Some("open-set-differs-from-reference");
    }
    None
}

fn ops_for(max: u16, open: &BTreeSet<u16>) -> Vec<Op> {
    let mut v = Vec::new();
    v.push(Op::Open(None));
    for i in 1..=max {
        v.push(Op::Open(Some(i)));
    }
    v.push(Op::Open(Some(0)));
    v.push(Op::Open(Some(max + 1)));
    for i in open.iter() {
        v.push(Op::Close(*i));
    }
    // closing an id that is not open must be a no-op
    for i in 0..=max + 1 {
        if !open.contains(&i) {
            v.push(Op::Close(i));
            break;
        }
    }
    v.push(Op::OpenFail(None));
    v.push(Op::OpenFail(Some(1)));
    v.push(Op::Drain);
    v
}

fn build(max: u16, hist: &[Op]) -> (SlotsProbe, BTreeSet<u16>) {
    let mut p = SlotsProbe::new(max);
    let mut open = BTreeSet::new();
    for op in hist {
        let got = apply_real(&mut p, *op);
        let _ = judge(max, &mut open, *op, &got);
    }
    (p, open)
}

fn explore(max: u16, part: &mut Part, depth_cap: usize) {
    type Key = (SlotsSnapshot, Vec<u16>);
    let mut seen: HashMap<Key, usize> = HashMap::new();
    let mut frontier: VecDeque<Vec<Op>> = VecDeque::new();
    let (p0, o0) = build(max, &[]);
    seen.insert((p0.snapshot(), o0.iter().copied().collect()), 0);
    frontier.push_back(Vec::new());
    let mut max_depth = 0;
    while let Some(hist) = frontier.pop_front() {
        if hist.len() >= depth_cap {
            part.exhaustive = false;
            part.caps.push(format!("slots max={} depth cap {} reached with non-empty frontier", max, depth_cap));
            break;
        }
        let (_, open) = build(max, &hist);
        for op in ops_for(max, &open) {
            let (mut p, mut open2) = build(max, &hist);
            let got = apply_real(&mut p, op);
            part.transitions += 1;
            part.outcome(match &got {
                Outcome::Id(_) => "id",
                Outcome::Unavailable(_) => "unavailable",
                Outcome::Exhausted => "exhausted",
                Outcome::EntryFailed => "entry-failed",
                Outcome::Closed(true) => "closed",
                Outcome::Closed(false) => "close-noop",
                Outcome::Drained(_) => "drained",
                Outcome::OtherErr(_) => "other-error",
                Outcome::Panic(_) => "panic",
            });
            let mut h2 = hist.clone();
            h2.push(op);
            let mut bad = judge(max, &mut open2, op, &got);
            if bad.is_none() {
                let snap = p.snapshot();
                bad = invariant(max, &open2, &snap).map(|s| s.to_string());
            }
            if let Some(kind) = bad {
                let kind_key = kind.split(':').next().unwrap().to_string();
                part.violation(
                    &format!("slots:{}", kind_key),
                    format!("channel_max={} ops={} -> {:?} ({})", max, serde_json::to_string(&h2.iter().map(|o| op_json(*o)).collect::<Vec<_>>()).unwrap(), got, kind),
                    json!({"engine":"seqx","check":"slots","channel_max":max,"ops":h2.iter().map(|o| op_json(*o)).collect::<Vec<_>>()}),
                );
                continue; // do not explore below a violating state
            }
            let key = (p.snapshot(), open2.iter().copied().collect::<Vec<u16>>());
            if !seen.contains_key(&key) {
                seen.insert(key, h2.len());
                max_depth = max_depth.max(h2.len());
                if part.samples.len() < 2 && h2.len() >= 4 {
                    part.sample(json!({"channel_max":max,"ops":h2.iter().map(|o| op_json(*o)).collect::<Vec<_>>(),"state":format!("{:?}", p.snapshot())}));
                }
                frontier.push_back(h2);
            }
        }
    }
    part.states += seen.len() as u64;
    part.evaluations += seen.len() as u64;
    part.distinct_nontrivial += seen.iter().filter(|(k, _)| !k.0.freed.is_empty()).count() as u64;
    part.extra.insert(format!("max{}_states", max), json!(seen.len()));
    part.extra.insert(format!("max{}_depth_of_last_new_state", max), json!(max_depth));
}

/// Child mode: counter boundary at channel_max = 65535. `which` = "<lead>:<explicit_top>:<depth>"
/// or "fill". Prints one JSON line per violation and a final "DONE <n>" line.
pub fn boundary_child(which: &str) {
    let max: u16 = 65535;
    let mut n = 0u64;
    if which != "fill" {
        let f: Vec<&str> = which.split(':').collect();
        let lead: u32 = f[0].parse().unwrap();
        let explicit_top = f[1] == "true";
        let depth: usize = f[2].parse().unwrap();
        let alphabet = [Op::Open(None), Op::Open(Some(65535)), Op::Open(Some(0)), Op::Close(65535), Op::Close(1), Op::Close(65534)];
        let mut seqs: Vec<Vec<Op>> = vec![vec![]];
        let mut layer: Vec<Vec<Op>> = vec![vec![]];
        for _ in 0..depth {
            let mut next = Vec::new();
            for s in &layer {
                for a in alphabet.iter() {
                    let mut t = s.clone();
                    t.push(*a);
                    next.push(t);
                }
            }
            seqs.extend(next.clone());
            layer = next;
        }
        for seq in seqs.iter().filter(|s| !s.is_empty()) {
            let mut p = SlotsProbe::new(max);
            let mut open = BTreeSet::new();
            if explicit_top {
                let g = apply_real(&mut p, Op::Open(Some(65535)));
                let _ = judge(max, &mut open, Op::Open(Some(65535)), &g);
            }
            let mut bad = None;
            for _ in 0..lead {
                let g = apply_real(&mut p, Op::Open(None));
                if let Some(k) = judge(max, &mut open, Op::Open(None), &g) {
                    bad = Some((k, g, vec![]));
                    break;
                }
            }
            if bad.is_none() {
                let mut done = Vec::new();
                for op in seq {
                    let g = apply_real(&mut p, *op);
                    done.push(*op);
                    let mut k = judge(max, &mut open, *op, &g);
                    if k.is_none() {
                        k = invariant(max, &open, &p.snapshot()).map(|s| s.to_string());
                    }
                    if let Some(k) = k {
                        bad = Some((k, g, done.clone()));
                        break;
                    }
                }
            }
            n += 1;
            if let Some((k, g, done)) = bad {
                println!("{}", json!({"kind": k.split(':').next().unwrap(), "detail": format!("channel_max=65535, {} x open(None){}, then {} -> {:?} ({})", lead, if explicit_top {" after open(Some(65535))"} else {""}, serde_json::to_string(&done.iter().map(|o| op_json(*o)).collect::<Vec<_>>()).unwrap(), g, k),
                    "replay": {"engine":"seqx","check":"slots","channel_max":65535,"lead_auto_opens":lead,"explicit_top":explicit_top,"ops":done.iter().map(|o| op_json(*o)).collect::<Vec<_>>()}}));
            }
        }
    } else {
        // fill everything, then ask for more (must be ExhaustedChannelIds, must terminate)
        let mut p = SlotsProbe::new(max);
        let mut open = BTreeSet::new();
        let mut bad = None;
        for i in 0..65535u32 {
            let g = apply_real(&mut p, Op::Open(None));
            if let Some(k) = judge(max, &mut open, Op::Open(None), &g) {
                bad = Some((k, g, i));
                break;
            }
        }
        if bad.is_none() {
            println!("PROGRESS all-open");
            for extra in 0..3u32 {
                let g = apply_real(&mut p, Op::Open(None));
                if let Some(k) = judge(max, &mut open, Op::Open(None), &g) {
                    bad = Some((k, g, 65535 + extra));
                    break;
                }
            }
        }
        n += 1;
        if let Some((k, g, i)) = bad {
            println!("{}", json!({"kind": k.split(':').next().unwrap(), "detail": format!("channel_max=65535: open(None) number {} -> {:?} ({})", i + 1, g, k),
                "replay": {"engine":"seqx","check":"slots","channel_max":65535,"lead_auto_opens":i,"explicit_top":false,"ops":[["open",null]]}}));
        }
    }
    println!("DONE {}", n);
}

pub fn run(args: &Args) {
    std::panic::set_hook(Box::new(|_| {}));
    let mut part = Part::new("C10", "slots", "seqx", "model_checking", &args.tier);
    part.rule = "breadth-first search of the complete reachable state graph of the real ChannelSlots (state = open ids, freed-id list in pop order, never-used counter, reference open set) under open(Some(i)) for i in 0..=max+1, open(None), close(i), close of a non-open id, entry-constructor failure (roll-back), drain; every transition judged against the statement. Plus the counter boundary at channel_max=65535 in a child process (hang detection). Non-trivial state: freed list non-empty.".into();
    let maxes: Vec<u16> = if args.thorough() { vec![1, 2, 3, 4] } else { vec![1, 2, 3] };
    part.bounds.insert("channel_max".into(), json!(maxes));
    for m in maxes {
        explore(m, &mut part, 64);
    }
    // boundary: child processes with a wall limit (a spinning allocator is a verdict)
    let exe = std::env::current_exe().unwrap();
    let depth = if args.thorough() { 3 } else { 2 };
    part.bounds.insert("boundary_depth".into(), json!(depth));
    let mut specs: Vec<String> = vec!["fill".to_string()];
    for lead in [65533u32, 65534, 65535] {
        for top in [false, true] {
            specs.push(format!("{}:{}:{}", lead, top, depth));
        }
    }
    let limit = std::time::Duration::from_secs(if args.thorough() { 120 } else { 40 });
    let results = vh::par::par_map(specs.len(), |i| {
        let mut child = std::process::Command::new(&exe)
            .arg("slots-boundary-child")
            .arg(&specs[i])
            .stdout(std::process::Stdio::piped())
            .spawn()
            .expect("spawn child");
        let start = std::time::Instant::now();
        let mut timed_out = false;
        loop {
            match child.try_wait().unwrap() {
                Some(_) => break,
                None => {
                    if start.elapsed() > limit {
                        let _ = child.kill();
                        timed_out = true;
                        break;
                    }
                    std::thread::sleep(std::time::Duration::from_millis(10));
                }
            }
        }
        let out = child.wait_with_output().unwrap();
        (timed_out, out.status, String::from_utf8_lossy(&out.stdout).to_string())
    });
    let mut bseq = 0u64;
    for (i, (timed_out, status, text)) in results.into_iter().enumerate() {
        let mut done = false;
        for line in text.lines() {
            if let Some(rest) = line.strip_prefix("DONE ") {
                done = true;
                let n: u64 = rest.trim().parse().unwrap_or(0);
                bseq += n;
            } else if line.starts_with('{') {
                if let Ok(v) = serde_json::from_str::<Value>(line) {
                    part.violation(&format!("slots-boundary:{}", v["kind"].as_str().unwrap_or("?")), v["detail"].as_str().unwrap_or("").to_string(), v["replay"].clone());
                }
            }
        }
        if timed_out {
            part.violation(
                "slots-boundary:hang",
                format!("channel_max=65535 ({}): child did not finish within {:?}; the id allocator spins{}", specs[i], limit, if text.contains("PROGRESS all-open") {" when asked for an id with all 65535 open"} else {""}),
                json!({"engine":"seqx","check":"slots","channel_max":65535,"lead_auto_opens":65535,"explicit_top":false,"ops":[["open",null]],"expect_hang":true}),
            );
        } else if !done {
            part.violation("slots-boundary:child-died", format!("boundary child {} ended with {:?} without finishing: {}", specs[i], status, text.lines().last().unwrap_or("")), json!({"engine":"seqx","check":"slots","channel_max":65535,"ops":[]}));
        }
    }
    part.evaluations += bseq;
    part.distinct_nontrivial += bseq;
    part.traces_validated += bseq;
    part.extra.insert("boundary_sequences".into(), json!(bseq));
    part.traces_validated += part.transitions;
    part.finish(args.out.as_deref());
}

pub fn replay(v: &Value) -> bool {
    let max = v["channel_max"].as_u64().unwrap() as u16;
    let mut p = SlotsProbe::new(max);
    let mut open = BTreeSet::new();
    let mut ok = true;
    if v["explicit_top"].as_bool() == Some(true) {
        let g = apply_real(&mut p, Op::Open(Some(65535)));
        let _ = judge(max, &mut open, Op::Open(Some(65535)), &g);
    }
    for i in 0..v["lead_auto_opens"].as_u64().unwrap_or(0) {
        let g = apply_real(&mut p, Op::Open(None));
        if let Some(k) = judge(max, &mut open, Op::Open(None), &g) {
            println!("lead open(None) #{} -> {:?}  VIOLATION {}", i + 1, g, k);
            ok = false;
        }
    }
    for o in v["ops"].as_array().unwrap() {
        let op = op_from_json(o);
        let g = apply_real(&mut p, op);
        let mut k = judge(max, &mut open, op, &g);
        if k.is_none() {
            k = invariant(max, &open, &p.snapshot()).map(|s| s.to_string());
        }
        println!("{:?} -> {:?}   state {:?}{}", op, g, p.snapshot(), k.as_ref().map(|k| format!("   VIOLATION {}", k)).unwrap_or_default());
        if k.is_some() {
            ok = false;
        }
    }
    ok
}
