//! Scenario catalogue.
use amiquip::{Auth, Connection, ConnectionOptions, ConnectionTuning, Error, QueueDeclareOptions};
use serde_json::{json, Value};
use vh::sim::broker::{Handshake, StdBroker};
use vh::sim::explore::{Built, Ctx, Scenario};
use vh::sim::world::{EnvConfig, Outcome, World};

pub fn err_name(e: &Error) -> String {
    match e {
        Error::ServerClosedConnection { code, message } => format!("ServerClosedConnection({},{})", code, message),
        Error::ServerClosedChannel { channel_id, code, message } => format!("ServerClosedChannel({},{},{})", channel_id, code, message),
        Error::IoErrorReadingSocket { .. } => "IoErrorReadingSocket".into(),
        Error::IoErrorWritingSocket { .. } => "IoErrorWritingSocket".into(),
        Error::UnavailableChannelId { channel_id } => format!("UnavailableChannelId({})", channel_id),
        Error::ReceivedFrameWithBogusChannelId { channel_id } => format!("ReceivedFrameWithBogusChannelId({})", channel_id),
        Error::UnknownConsumerTag { channel_id, consumer_tag } => format!("UnknownConsumerTag({},{})", channel_id, consumer_tag),
        Error::DuplicateConsumerTag { channel_id, consumer_tag } => format!("DuplicateConsumerTag({},{})", channel_id, consumer_tag),
        Error::UnsupportedAuthMechanism { .. } => "UnsupportedAuthMechanism".into(),
        Error::UnsupportedLocale { .. } => "UnsupportedLocale".into(),
        Error::FrameMaxTooSmall { .. } => "FrameMaxTooSmall".into(),
        other => {
            let s = format!("{:?}", other);
            s.split(|c: char| !c.is_alphanumeric()).next().unwrap_or("").to_string()
        }
    }
}

pub fn res<T>(r: &Result<T, Error>) -> String {
    match r {
        Ok(_) => "Ok".to_string(),
        Err(e) => format!("Err({})", err_name(e)),
    }
}

pub fn open(ctx: &Ctx, options: ConnectionOptions<Auth>, tuning: ConnectionTuning) -> Result<Connection, Error> {
    if let Some(addr) = ctx.tcp_addr() {
        // free-running conformance run over a real socket
        let stream = mio::net::TcpStream::connect(&addr).expect("connect to loopback broker");
        return Connection::insecure_open_stream(stream, options, tuning);
    }
    Connection::insecure_open_stream(ctx.stream(), options, tuning)
}

// -----------------------------------------------------------------------------------------

pub struct Basic;

impl Scenario for Basic {
    fn name(&self) -> &'static str {
        "basic"
    }
    fn property(&self) -> &'static str {
        "C04"
    }
    fn variants(&self, _tier: &str) -> Vec<Value> {
        vec![json!({})]
    }
    fn bound(&self, tier: &str, _p: &Value) -> usize {
        if tier == "thorough" {
            2
        } else {
            1
        }
    }
    fn describe(&self) -> String {
        "smoke scenario: open, open_channel, queue_declare, close".into()
    }
    fn build(&self, _p: &Value) -> Built {
        let broker = StdBroker::new(Handshake::default());
        Built {
            broker: Box::new(broker),
            cfg: EnvConfig::default(),
            root: Box::new(|ctx: Ctx| {
                let mut conn = match open(&ctx, ConnectionOptions::default(), ConnectionTuning::default()) {
                    Ok(c) => c,
                    Err(e) => {
                        ctx.log(format!("open -> Err({})", err_name(&e)));
                        return;
                    }
                };
                ctx.log("open -> Ok");
                let ch = conn.open_channel(None);
                ctx.log(format!("open_channel -> {}", res(&ch)));
                if let Ok(ch) = ch {
                    // any free id is a legal answer to open_channel(None): the expected reply
                    // values follow the id actually handed out
                    ctx.log(format!("id {}", ch.channel_id()));
                    let q = ch.queue_declare("q1", QueueDeclareOptions::default());
                    ctx.log(format!("declare -> {:?}", q.as_ref().map(|q| (q.name().to_string(), q.declared_message_count(), q.declared_consumer_count())).map_err(err_name)));
                    let r = ch.close();
                    ctx.log(format!("channel close -> {}", res(&r)));
                }
                let r = conn.close();
                ctx.log(format!("close -> {}", res(&r)));
            }),
        }
    }
    fn check(&self, _p: &Value, o: &Outcome, _w: &World) -> Vec<(String, String)> {
        let mut v = Vec::new();
        let log = o.logs.get("main").cloned().unwrap_or_default();
        let id: u32 = log.iter().find_map(|l| l.strip_prefix("id ")).and_then(|x| x.parse().ok()).unwrap_or(0);
        let want = vec!["open -> Ok".to_string(), "open_channel -> Ok".to_string(), format!("id {}", id), format!("declare -> Ok((\"q1\", Some({}), Some({})))", id * 1000 + 2, id * 100 + 2), "channel close -> Ok".to_string(), "close -> Ok".to_string()];
        if log != want || id == 0 {
            v.push(("basic:results".to_string(), format!("results {:?} expected {:?}", log, want)));
        }
        if !o.io_gone || !o.transport_dropped {
            v.push(("basic:not-released".to_string(), format!("after close: io_gone={} transport_dropped={}", o.io_gone, o.transport_dropped)));
        }
        v
    }
}



// -----------------------------------------------------------------------------------------
// shared helpers

use amiquip::{Channel, ConsumerMessage, ConsumerOptions, Publish};
use amq_protocol::frame::AMQPFrame;
use amq_protocol::protocol::{basic, channel as pchannel, connection as pconnection, AMQPClass};
use vh::sim::broker::{CloseBehaviour, Push};
use vh::wire::{split_envelopes, Env};

pub fn wire_frames(o: &Outcome) -> (Vec<Env>, usize) {
    if o.wire.len() <= 8 {
        return (vec![], 0);
    }
    let (envs, used, _) = split_envelopes(&o.wire[8..]);
    let rest = o.wire.len() - 8 - used;
    (envs, rest)
}

pub fn is_method(e: &Env, class: u16, method: u16) -> bool {
    e.ty == 1 && e.payload.len() >= 4 && u16::from_be_bytes([e.payload[0], e.payload[1]]) == class && u16::from_be_bytes([e.payload[2], e.payload[3]]) == method
}

pub fn consumer_msg_name(m: &ConsumerMessage) -> String {
    match m {
        ConsumerMessage::Delivery(d) => format!("Delivery(tag={},body={:?})", d.delivery_tag(), d.body),
        ConsumerMessage::ClientCancelled => "ClientCancelled".into(),
        ConsumerMessage::ServerCancelled => "ServerCancelled".into(),
        ConsumerMessage::ClientClosedChannel => "ClientClosedChannel".into(),
        ConsumerMessage::ServerClosedChannel(e) => format!("ServerClosedChannel[{}]", err_name(e)),
        ConsumerMessage::ClientClosedConnection => "ClientClosedConnection".into(),
        ConsumerMessage::ServerClosedConnection(e) => format!("ServerClosedConnection[{}]", err_name(e)),
    }
}

/// Read a consumer queue until it is disconnected, logging every message.
pub fn drain_consumer(ctx: &Ctx, name: &str, rx: &crossbeam_channel::Receiver<ConsumerMessage>) {
    loop {
        match ctx.recv(name, rx) {
            Ok(m) => ctx.log(format!("{} <- {}", name, consumer_msg_name(&m))),
            Err(_) => {
                ctx.log(format!("{} disconnected", name));
                return;
            }
        }
    }
}

pub fn conn_close_frame(code: u16, text: &str) -> AMQPFrame {
    AMQPFrame::Method(0, AMQPClass::Connection(pconnection::AMQPMethod::Close(pconnection::Close { reply_code: code, reply_text: text.into(), class_id: 0, method_id: 0 })))
}

pub fn chan_close_frame(ch: u16, code: u16, text: &str) -> AMQPFrame {
    AMQPFrame::Method(ch, AMQPClass::Channel(pchannel::AMQPMethod::Close(pchannel::Close { reply_code: code, reply_text: text.into(), class_id: 0, method_id: 0 })))
}

/// Lines of an actor's log that record a call result ("<op> -> Ok|Err(..)").
pub fn call_results(log: &[String]) -> Vec<(String, String)> {
    log.iter().filter_map(|l| l.split_once(" -> ").map(|(a, b)| (a.to_string(), b.to_string()))).collect()
}

// -----------------------------------------------------------------------------------------
// C08: connection close handshake

pub struct Close;

fn want_err_server(code: u64, text: &str) -> String {
    format!("Err(ServerClosedConnection({},{}))", code, text)
}

impl Scenario for Close {
    fn name(&self) -> &'static str {
        "close"
    }
    fn property(&self) -> &'static str {
        "C08"
    }
    fn variants(&self, tier: &str) -> Vec<Value> {
        let mut v = Vec::new();
        for who in ["client", "server"] {
            for after in ["closeok", "closeok+eof", "closeok-delayed"] {
                if who == "server" && after != "closeok" {
                    continue;
                }
                for stall in [false, true] {
                    for code in if tier == "thorough" { vec![320u16, 541] } else { vec![320u16] } {
                        if who == "client" && code != 320 {
                            continue;
                        }
                        v.push(json!({"who": who, "after": after, "stall": stall, "code": code}));
                        // fine mode (the order in which a connection close notifies the open channels
                        // is that of a map whose hasher is fixed in verification builds)
                        if tier == "thorough" && !stall && after == "closeok" {
                            v.push(json!({"who": who, "after": after, "stall": stall, "code": code, "fine": true}));
                        }
                        // a backlog of more than a megabyte behind the stalled transport when the
                        // close happens (sizes no other variant reaches)
                        if stall && after == "closeok" && code == 320 {
                            v.push(json!({"who": who, "after": after, "stall": stall, "code": code, "big": true}));
                        }
                        // both channel ids have been used, closed and opened again (explicitly)
                        // before the session: they are open channels like any other when the
                        // connection closes
                        if !stall && after == "closeok" && code == 320 {
                            v.push(json!({"who": who, "after": after, "stall": stall, "code": code, "reopened": true}));
                        }
                    }
                }
            }
        }
        // every kind of reply code and text a server may close with (no deviation: the values
        // are what is swept here)
        for code in [0u16, 1, 199, 200, 201, 311, 404, 541, 65535] {
            for text in ["", "x", "CONNECTION_FORCED - broker forced connection closure with reason 'shutdown'", "gr\u{fc}\u{df} \u{2014} \u{4e16}\u{754c}"] {
                v.push(json!({"who": "server", "after": "closeok", "stall": false, "code": code, "text": text, "codes": true}));
            }
        }
        v.push(json!({"who": "server", "after": "closeok", "stall": false, "code": 320, "text": "y".repeat(255), "codes": true}));
        // crossing closes against a server that, like RabbitMQ in its closing state, still answers
        // the client's Close with CloseOk (which then follows the server's own Close in the stream).
        // (In this session the connection thread closes only after the other threads have seen the
        // server's close, so a push-driven crossing cannot occur: the crossing is scripted.)
        v.push(json!({"who": "client", "after": "closeok", "stall": false, "code": 320, "crossing_same_read": true}));
        // queues of one entry and a high-water mark of 0 behind a stalled transport: when the close
        // happens a caller is blocked handing its request over (not yet waiting for a reply)
        for who in ["server", "client"] {
            v.push(json!({"who": who, "after": "closeok", "stall": true, "code": 320, "tight": true}));
        }
        v
    }
    fn bound(&self, tier: &str, p: &Value) -> usize {
        if p["codes"] == true {
            return if tier == "thorough" { 1 } else { 0 };
        }
        if p["fine"] == true {
            return 2;
        }
        if p["big"] == true {
            return if tier == "thorough" { 2 } else { 1 };
        }
        if tier == "thorough" {
            3
        } else {
            2
        }
    }
    fn describe(&self) -> String {
        "connection close (client- or server-initiated, CloseOk with/without immediate EOF, transport stalled or not) racing with a consumer + blocked call on channel 1 and publishes + call on channel 2 from two other threads; every schedule / delivery cut / EOF placement within the deviation bound".into()
    }
    fn build(&self, p: &Value) -> Built {
        let mut broker = StdBroker::new(Handshake::default());
        let server = p["who"] == "server";
        let big = p["big"] == true;
        let tight = p["tight"] == true;
        let reopened = p["reopened"] == true;
        let code = p["code"].as_u64().unwrap() as u16;
        let text = p["text"].as_str().unwrap_or("server says bye").to_string();
        if p["after"] == "closeok+eof" {
            broker.close_behaviour = CloseBehaviour::CloseOkThenEof;
        }
        broker.answer_crossing_close = p["answer_crossing"] == true;
        if p["crossing_same_read"] == true {
            // the server's own Close had just gone out when the client's arrived: the client finds
            // the server's Close and the CloseOk for its own in one read
            broker.close_behaviour = CloseBehaviour::FramesThenCloseOk(vec![conn_close_frame(code, &text)]);
        }
        let slow = p["after"] == "closeok-delayed";
        if slow {
            // the server takes 1.5 heartbeat intervals to answer the client's Close
            broker.close_behaviour = CloseBehaviour::Delayed(1_500_000_000);
        }
        if server {
            // (after the handshake, the channel opens - twice each in the reopened variants - and
            // the first request)
            broker.pushes.push(Push::new("conn-close", vec![conn_close_frame(code, &text)]).after_frames(if p["reopened"] == true { 10 } else { 6 }));
        }
        let mut cfg = EnvConfig::default();
        cfg.deliver_cuts = true;
        cfg.fine = p["fine"] == true;
        if cfg.fine {
            cfg.max_steps = 20000;
        }
        if p["stall"] == true {
            // handshake + channel opens + consume fit; later traffic hits a stalled transport
            cfg.stall_after = Some(300);
            cfg.grant_menu = vec![8];
        }
        Built {
            broker: Box::new(broker),
            cfg,
            root: Box::new(move |ctx: Ctx| {
                let tuning = if tight { ConnectionTuning::default().mem_channel_bound(1).buffered_writes_high_water(0).buffered_writes_low_water(0) } else { ConnectionTuning::default() };
                let mut conn = match open(&ctx, ConnectionOptions::default().heartbeat(if slow { 1 } else { 0 }), tuning) {
                    Ok(c) => c,
                    Err(e) => {
                        ctx.log(format!("open -> Err({})", err_name(&e)));
                        return;
                    }
                };
                if reopened {
                    for id in [1u16, 2] {
                        if let Ok(c) = conn.open_channel(Some(id)) {
                            let _ = c.close();
                        }
                    }
                }
                let ch1 = conn.open_channel(Some(1));
                let ch2 = conn.open_channel(Some(2));
                let (ch1, ch2) = match (ch1, ch2) {
                    (Ok(a), Ok(b)) => (a, b),
                    (a, b) => {
                        ctx.log(format!("open_channel -> {} {}", res(&a), res(&b)));
                        let r = conn.close();
                        ctx.log(format!("close -> {}", res(&r)));
                        return;
                    }
                };
                let (closed_tx, closed_rx) = crossbeam_channel::bounded::<()>(0);
                let (rx_a, rx_b) = (closed_rx.clone(), closed_rx);
                let a = ctx.spawn("a", move |ctx| {
                    let ch: Channel = ch1;
                    let c = ch.basic_consume("q", ConsumerOptions::default());
                    ctx.log(format!("consume -> {}", res(&c)));
                    let r = ch.queue_declare("qa", QueueDeclareOptions::default());
                    ctx.log(format!("declare -> {}", res(&r)));
                    if let Ok(c) = &c {
                        // ends with the terminal message, i.e. after the connection is closed
                        drain_consumer(&ctx, "consumer", c.receiver());
                    } else if !server {
                        let _ = ctx.recv("closed", &rx_a);
                    }
                    if c.is_ok() || !server {
                        ctx.log("AFTER-CLOSE");
                    }
                    let r = ch.qos(0, 1, false);
                    ctx.log(format!("qos -> {}", res(&r)));
                    let r = ch.qos(0, 2, false);
                    ctx.log(format!("qos2 -> {}", res(&r)));
                    std::mem::forget(c);
                });
                let b = ctx.spawn("b", move |ctx| {
                    let ch: Channel = ch2;
                    for i in 0..2u8 {
                        let body = if big && i == 0 { vec![7u8; 1_300_000] } else { vec![i, i, i] };
                        let r = ch.basic_publish("", Publish::new(&body, "rk"));
                        ctx.log(format!("publish{} -> {}", i, res(&r)));
                    }
                    for i in 0..3 {
                        let r = ch.queue_purge("qb");
                        ctx.log(format!("purge{} -> {}", i, res(&r)));
                        if r.is_err() {
                            break;
                        }
                    }
                    if !server {
                        let _ = ctx.recv("closed", &rx_b);
                        ctx.log("AFTER-CLOSE");
                        let r = ch.queue_purge("qb");
                        ctx.log(format!("purge-late -> {}", res(&r)));
                    }
                });
                let r = if server {
                    drop(closed_tx);
                    // the other threads end once the connection is closed (or they are done)
                    ctx.join(a);
                    ctx.join(b);
                    conn.close()
                } else {
                    let r = conn.close();
                    ctx.log(format!("close -> {}", res(&r)));
                    drop(closed_tx);
                    ctx.join(a);
                    ctx.join(b);
                    return;
                };
                ctx.log(format!("close -> {}", res(&r)));
            }),
        }
    }
    fn check(&self, p: &Value, o: &Outcome, _w: &World) -> Vec<(String, String)> {
        let mut v = Vec::new();
        let server = p["who"] == "server";
        let code = p["code"].as_u64().unwrap();
        let main = o.logs.get("main").cloned().unwrap_or_default();
        let close_res = call_results(&main).into_iter().find(|(a, _)| a == "close").map(|(_, b)| b);
        let text = p["text"].as_str().unwrap_or("server says bye").to_string();
        let want_err = if server { format!("Err(ServerClosedConnection({},{}))", code, text) } else { "Err(ClientClosedConnection)".to_string() };
        let (envs, rest) = wire_frames(o);
        let server_closed = o.io_events.iter().any(|e| matches!(e, vh::sim::world::IoEvent::Frame(AMQPFrame::Method(0, AMQPClass::Connection(pconnection::AMQPMethod::Close(_))))));
        if server && !server_closed {
            return v; // the server never got to close in this execution (push not taken): nothing to check
        }
        if p["crossing_same_read"] == true {
            // both sides closed; the client may report its own close as completed or the server's,
            // but nothing else, and its Close stays the last frame it wrote
            let ok = matches!(close_res.as_deref(), Some("Ok")) || close_res.as_deref() == Some(want_err_server(code, &text).as_str());
            if !ok {
                v.push((format!("close:crossing-result:{}", close_res.clone().unwrap_or_default()), format!("the server's Close and its CloseOk arrived in one read: Connection::close returned {:?}", close_res)));
            }
            if !envs.last().map(|e| e.chan == 0 && is_method(e, 10, 50)).unwrap_or(false) || rest != 0 {
                v.push(("close:last-frame".into(), "the last frame written is not the client's Connection.Close".into()));
            }
            return v;
        }
        match close_res.as_deref() {
            None => v.push(("close:no-result".into(), format!("Connection::close did not return: {:?}", main))),
            Some(r) => {
                let want = if server { want_err.clone() } else { "Ok".to_string() };
                if r != want {
                    v.push((format!("close:result:{}", r), format!("Connection::close returned {} expected {}", r, want)));
                }
            }
        }
        // last frame on the wire
        if rest != 0 {
            v.push(("close:partial-frame-at-end".into(), format!("{} trailing bytes after the last whole frame", rest)));
        }
        if let Some(last) = envs.last() {
            let ok = if server { last.chan == 0 && is_method(last, 10, 51) } else { last.chan == 0 && is_method(last, 10, 50) };
            if !ok {
                v.push(("close:last-frame".into(), format!("last frame written is type {} chan {} ids {:?}", last.ty, last.chan, &last.payload[..4.min(last.payload.len())])));
            }
        }
        if !server {
            // exactly one Connection.Close, carrying 200 / goodbye
            let closes: Vec<&Env> = envs.iter().filter(|e| e.chan == 0 && is_method(e, 10, 50)).collect();
            if closes.len() != 1 {
                v.push(("close:close-count".into(), format!("{} Connection.Close frames written", closes.len())));
            } else if let Some(AMQPFrame::Method(_, AMQPClass::Connection(pconnection::AMQPMethod::Close(c)))) = closes[0].decode() {
                if c.reply_code != 200 || c.reply_text != "goodbye" {
                    v.push(("close:close-args".into(), format!("{:?}", c)));
                }
            }
        }
        // the close point: the I/O thread acts on the server's Close / takes the client's close
        // request. Every byte it accepted from a channel before that point is written, none of
        // what it takes afterwards is (no frame on channels 1 and 2 originates in the I/O thread
        // itself in this scenario).
        {
            use amiquip::verif::MsgKind;
            use vh::sim::world::IoEvent;
            let cut = o.io_events.iter().position(|e| match e {
                IoEvent::Frame(AMQPFrame::Method(0, AMQPClass::Connection(pconnection::AMQPMethod::Close(_)))) => server,
                IoEvent::Recv { msg: MsgKind::ConnectionClose { .. }, .. } => !server,
                _ => false,
            });
            if let (Some(cut), 0) = (cut, rest) {
                for chan in [1u16, 2] {
                    let accepted: usize = o.io_events[..cut].iter().map(|e| match e {
                        IoEvent::Recv { channel_id, msg: MsgKind::Send { len }, .. } if *channel_id == chan => *len,
                        _ => 0,
                    }).sum();
                    let written: usize = envs.iter().filter(|e| e.chan == chan).map(|e| e.wire_len()).sum();
                    if written < accepted {
                        v.push(("close:queued-data-not-written".into(), format!("channel {}: the I/O thread had accepted {} bytes before the close point but only {} reached the wire", chan, accepted, written)));
                    } else if written > accepted {
                        v.push(("close:written-after-close-point".into(), format!("channel {}: {} bytes on the wire but only {} were accepted before the close point", chan, written, accepted)));
                    }
                }
            }
        }
        // channels: the first failing call names the cause, everything after fails too
        for actor in ["a", "b"] {
            let log = o.logs.get(actor).cloned().unwrap_or_default();
            let calls = call_results(&log);
            let first_err = calls.iter().position(|(_, r)| r.starts_with("Err"));
            let after = log.iter().position(|l| l == "AFTER-CLOSE");
            match first_err {
                None => {
                    if after.is_some() {
                        v.push(("close:channel-never-failed".into(), format!("actor {} made calls after the close and saw no error: {:?}", actor, log)));
                    }
                }
                Some(i) => {
                    if calls[i].1 != want_err {
                        v.push((format!("close:channel-first-error:{}", calls[i].1), format!("actor {}: first failing call {} returned {} expected {}; log {:?}", actor, calls[i].0, calls[i].1, want_err, log)));
                    }
                    if let Some((op, r)) = calls[i..].iter().find(|(_, r)| !r.starts_with("Err")) {
                        v.push(("close:call-after-close-succeeded".into(), format!("actor {}: {} -> {} after the connection had failed; log {:?}", actor, op, r, log)));
                    }
                }
            }
            if let Some(a) = after {
                if let Some(l) = log[a..].iter().find(|l| l.ends_with("-> Ok")) {
                    v.push(("close:call-after-close-succeeded".into(), format!("actor {}: {} although the connection was closed before the call; log {:?}", actor, l, log)));
                }
            }
        }
        // consumer: exactly one terminal message naming the cause, then disconnected
        let a = o.logs.get("a").cloned().unwrap_or_default();
        if a.iter().any(|l| l == "consume -> Ok") {
            let msgs: Vec<&String> = a.iter().filter(|l| l.starts_with("consumer <- ")).collect();
            let want = if server { format!("consumer <- ServerClosedConnection[ServerClosedConnection({},{})]", code, text) } else { "consumer <- ClientClosedConnection".to_string() };
            if msgs.len() != 1 || *msgs[0] != want || !a.iter().any(|l| l == "consumer disconnected") {
                v.push(("close:consumer-terminal".into(), format!("consumer saw {:?}, expected exactly [{}] then disconnect", msgs, want)));
            }
        }
        if !o.io_gone || !o.transport_dropped {
            v.push(("close:not-released".into(), format!("after close returned: io_gone={} transport_dropped={}", o.io_gone, o.transport_dropped)));
        }
        v
    }
}



// -----------------------------------------------------------------------------------------
// C05: when a connection dies everybody is released with an error

pub struct Death;

fn death_session(ctx: Ctx, bound: usize, drain: bool, drop_instead: bool, unwind: bool, dead_peer: bool, backlog: bool) {
    let tuning = ConnectionTuning::default().mem_channel_bound(bound);
    let mut conn = match open(&ctx, ConnectionOptions::default().heartbeat(2), tuning) {
        Ok(c) => c,
        Err(e) => {
            ctx.log(format!("open -> Err({})", err_name(&e)));
            return;
        }
    };
    ctx.log("open -> Ok");
    let ch1 = conn.open_channel(Some(1));
    ctx.log(format!("open_channel1 -> {}", res(&ch1)));
    let ch2 = conn.open_channel(Some(2));
    ctx.log(format!("open_channel2 -> {}", res(&ch2)));
    if dead_peer || backlog {
        // from here on the peer neither talks nor takes anything: whatever the client wants to
        // send (its own heartbeats included) stays in its buffer
        // (backlog: the peer takes everything again at some point - an environment choice)
        ctx.stall_transport();
    }
    let mut actors = Vec::new();
    if let Ok(ch) = ch1 {
        actors.push(ctx.spawn("a", move |ctx| {
            let c = ch.basic_consume("q", ConsumerOptions::default());
            ctx.log(format!("consume -> {}", res(&c)));
            let r = ch.queue_declare("qa", QueueDeclareOptions::default());
            ctx.log(format!("declare -> {}", res(&r)));
            if let (Ok(c), true) = (&c, drain) {
                drain_consumer(&ctx, "consumer", c.receiver());
            }
            let r = ch.qos(0, 1, false);
            ctx.log(format!("qos -> {}", res(&r)));
            std::mem::forget(c);
            let r = ch.close();
            ctx.log(format!("chclose -> {}", res(&r)));
        }));
    }
    if let Ok(ch) = ch2 {
        actors.push(ctx.spawn("b", move |ctx| {
            for i in 0..2u8 {
                // (backlog: 80 000 bytes wait in the I/O thread's buffer)
                let body = vec![i; if backlog { 40000 } else { 3 }];
                let r = ch.basic_publish("", Publish::new(&body, "rk"));
                ctx.log(format!("publish{} -> {}", i, res(&r)));
            }
            // keep calling until the connection is gone (bounded)
            for i in 0..4 {
                let r = ch.queue_purge("qb");
                ctx.log(format!("purge{} -> {}", i, res(&r)));
                if r.is_err() {
                    break;
                }
            }
            let r = ch.close();
            ctx.log(format!("chclose -> {}", res(&r)));
        }));
    }
    for a in actors {
        ctx.join(a);
    }
    if drop_instead {
        // dropping the connection closes it too; there is no result, but when drop returns the
        // I/O thread is gone and the transport released
        if unwind {
            // ... also when it goes out of scope because its owner panics
            let r = std::panic::catch_unwind(std::panic::AssertUnwindSafe(move || {
                let _held = conn;
                panic!("owner failed");
            }));
            ctx.log(format!("owner panicked: {}", r.is_err()));
        } else {
            drop(conn);
        }
        ctx.log("dropped");
        ctx.log(format!("released {}", ctx.released()));
        return;
    }
    let r = conn.close();
    ctx.log(format!("close -> {}", res(&r)));
    ctx.log(format!("released {}", ctx.released()));
}

impl Scenario for Death {
    fn name(&self) -> &'static str {
        "death"
    }
    fn property(&self) -> &'static str {
        "C05"
    }
    fn variants(&self, tier: &str) -> Vec<Value> {
        let mut v = Vec::new();
        let thorough = tier == "thorough";
        // crash points of the server->client stream (about 330 bytes in the default schedule)
        let offsets: Vec<usize> = if thorough { (0..=340).collect() } else { (0..98).step_by(3).chain([1, 7, 8, 77, 79, 85, 97].into_iter()).chain(98..=300).collect() };
        for at in offsets {
            for fault in ["eof", "readerr"] {
                v.push(json!({"fault": fault, "at": at, "bound": 16}));
            }
            if at % 4 == 0 || thorough {
                v.push(json!({"fault": "readerr-interrupted", "at": at, "bound": 16}));
            }
        }
        // the same faults while the client's own close is in flight (nobody waits on the consumer,
        // so the session reaches Connection::close; the sweep covers the bytes around CloseOk)
        let step = if thorough { 1 } else { 2 };
        for at in (150..=300).step_by(step) {
            for fault in ["eof", "readerr"] {
                v.push(json!({"fault": fault, "at": at, "bound": 16, "closing": true}));
            }
        }
        for call in 0..(if thorough { 14 } else { 10 }) {
            v.push(json!({"fault": "writeerr", "call": call, "bound": 16}));
        }
        for frame in 0..(if thorough { 12 } else { 8 }) {
            v.push(json!({"fault": "malformed", "frame": frame, "bound": 16}));
        }
        for bound in [0usize, 1, 16] {
            v.push(json!({"fault": "silence", "bound": bound}));
            v.push(json!({"fault": "serverclose", "bound": bound}));
            v.push(json!({"fault": "clientexception", "bound": bound}));
            v.push(json!({"fault": "none", "bound": bound}));
            v.push(json!({"fault": "eof", "at": 200, "bound": bound}));
        }
        for k in 0..3 {
            v.push(json!({"fault": "clientexception", "bound": 16, "long": k}));
        }
        v.push(json!({"fault": "unsolicited", "bound": 16}));
        // the connection ends while 80 000 bytes of publishes are still buffered behind a peer
        // that stopped reading; the client's last frame (CloseOk / Close) waits behind them and
        // everything goes out in one piece when the peer reads again
        for fault in ["serverclose", "clientexception", "none"] {
            v.push(json!({"fault": fault, "bound": 16, "backlog": true}));
        }
        for bound in [1usize, 16] {
            v.push(json!({"fault": "serverclose-eof", "bound": bound}));
        }
        // ... hangs up in a way that shows as a reset on the client's reads and / or a broken
        // pipe on its writes (the client was still sending when the server closed the socket)
        for hangup in ["reset", "pipe", "reset+pipe"] {
            v.push(json!({"fault": "serverclose-eof", "bound": 16, "hangup": hangup}));
        }
        // ... says why it closes and then neither reads nor talks any more: the CloseOk cannot be
        // written, and the heartbeat timeout ends the wait
        v.push(json!({"fault": "serverclose", "bound": 16, "dead_peer": true}));
        // the same ends reached through drop instead of close
        for fault in ["silence", "serverclose", "clientexception", "none"] {
            v.push(json!({"fault": fault, "bound": 16, "drop": true}));
        }
        // ... and through drop while the owning thread unwinds from a panic
        for fault in ["serverclose", "none"] {
            v.push(json!({"fault": fault, "bound": 16, "drop": true, "unwind": true}));
        }
        v.push(json!({"fault": "eof", "at": 200, "bound": 16, "drop": true, "unwind": true}));
        // a peer that has gone silent and takes no more bytes either (with close and with drop)
        for bound in [1usize, 16] {
            v.push(json!({"fault": "deadpeer", "bound": bound, "dead_peer": true}));
            v.push(json!({"fault": "deadpeer", "bound": bound, "dead_peer": true, "drop": true}));
        }
        for at in [0usize, 120, 200, 260] {
            v.push(json!({"fault": "eof", "at": at, "bound": 16, "drop": true}));
            v.push(json!({"fault": "readerr", "at": at, "bound": 16, "drop": true}));
        }
        v.push(json!({"fault": "writeerr", "call": 5, "bound": 16, "drop": true}));
        v
    }
    fn bound(&self, tier: &str, p: &Value) -> usize {
        let sweep = p["fault"] == "eof" || p["fault"] == "readerr" || p["fault"] == "readerr-interrupted";
        match (tier == "thorough", sweep) {
            (false, true) => 1,
            (false, false) => 2,
            (true, true) => 2,
            (true, false) => 3,
        }
    }
    fn describe(&self) -> String {
        "fault enumeration over a live session (handshake with heartbeat 2 s, two channels, a consumer, a blocked call, publishes, close): EOF / read error at every chosen byte offset of the server->client stream, write error at every client write call, a malformed frame at every server frame position, total silence (virtual time), server Connection.Close, a client-side protocol exception; each combined with every single-deviation schedule (thorough: two deviations for the non-sweep faults); mem_channel_bound in {0,1,16}".into()
    }
    fn build(&self, p: &Value) -> Built {
        let mut hs = Handshake::default();
        hs.tune = (2047, 131072, 2);
        let mut broker = StdBroker::new(hs);
        let mut cfg = EnvConfig::default();
        cfg.horizon_ns = 30_000_000_000;
        match p["fault"].as_str().unwrap() {
            "eof" => cfg.crash_after_inbound = Some((p["at"].as_u64().unwrap() as usize, vh::sim::world::FaultKind::ReadEof)),
            "readerr" => cfg.crash_after_inbound = Some((p["at"].as_u64().unwrap() as usize, vh::sim::world::FaultKind::ReadErr)),
            "readerr-interrupted" => cfg.crash_after_inbound = Some((p["at"].as_u64().unwrap() as usize, vh::sim::world::FaultKind::ReadErrInterrupted)),
            "writeerr" => cfg.fail_write_call = Some(p["call"].as_u64().unwrap() as usize),
            "malformed" => broker.corrupt_frame = Some(p["frame"].as_u64().unwrap() as usize),
            "silence" => broker.silent_after_handshake = true,
            "serverclose" => broker.pushes.push(Push::new("conn-close", vec![conn_close_frame(320, "going down")]).after_frames(5)),
            // the server says why it closes and hangs up without waiting for the answer
            "serverclose-eof" => broker.pushes.push(Push::new("conn-close", vec![conn_close_frame(320, "going down")]).after_frames(5).eof()),
            "unsolicited" => {
                // two replies nobody asked for fill channel 1's reply queue; then the server closes
                // the connection: whichever of the two the client names as the cause, it ends
                let qos_ok = || AMQPFrame::Method(1, AMQPClass::Basic(amq_protocol::protocol::basic::AMQPMethod::QosOk(amq_protocol::protocol::basic::QosOk {})));
                broker.pushes.push(Push::new("unsolicited", vec![qos_ok(), qos_ok()]).after_frames(5));
                broker.pushes.push(Push::new("conn-close", vec![conn_close_frame(320, "going down")]).after("unsolicited"));
            }
            "clientexception" if !p["long"].is_null() => {
                // the offending frame's description (quoted in the client's Close) is longer than a
                // short string and made of 2- and 3-byte characters, at every alignment
                let k = p["long"].as_u64().unwrap() as usize;
                let f = AMQPFrame::Method(1, AMQPClass::Basic(amq_protocol::protocol::basic::AMQPMethod::Publish(amq_protocol::protocol::basic::Publish { ticket: 0, exchange: format!("{}{}", "a".repeat(k), "\u{e9}".repeat(100)), routing_key: "\u{4e16}\u{754c}".repeat(20), mandatory: false, immediate: false })));
                broker.pushes.push(Push::new("illegal-publish", vec![f]).after_frames(5))
            }
            "clientexception" => broker.pushes.push(
                Push::new("tx-select-ok", vec![AMQPFrame::Method(1, AMQPClass::Tx(amq_protocol::protocol::tx::AMQPMethod::SelectOk(amq_protocol::protocol::tx::SelectOk {})))]).after_frames(5),
            ),
            _ => {}
        }
        let bound = p["bound"].as_u64().unwrap() as usize;
        let drain = p["fault"] != "none" && p["closing"] != true;
        let drop_instead = p["drop"] == true;
        let unwind = p["unwind"] == true;
        let dead_peer = p["dead_peer"] == true;
        if dead_peer {
            cfg.no_grants = true;
        }
        cfg.hangup = match p["hangup"].as_str() {
            Some("reset") => "reset",
            Some("pipe") => "pipe",
            Some("reset+pipe") => "reset+pipe",
            _ => "eof",
        };
        let backlog = p["backlog"] == true;
        Built { broker: Box::new(broker), cfg, root: Box::new(move |ctx: Ctx| death_session(ctx, bound, drain, drop_instead, unwind, dead_peer, backlog)) }
    }
    fn check(&self, p: &Value, o: &Outcome, _w: &World) -> Vec<(String, String)> {
        use vh::sim::world::IoEvent;
        let mut v = Vec::new();
        let fault = p["fault"].as_str().unwrap();
        let main = o.logs.get("main").cloned().unwrap_or_default();
        let opened = main.iter().any(|l| l == "open -> Ok");
        if o.io_existed && (!o.io_gone || !o.transport_dropped) {
            v.push(("death:not-released".into(), format!("session over but io_gone={} transport_dropped={}", o.io_gone, o.transport_dropped)));
        }
        if let Some(l) = main.iter().find(|l| l.starts_with("released ")) {
            if l != "released io=true transport=true" {
                v.push(("death:not-released-on-return".into(), format!("when Connection::close / drop returned: {} (main log {:?})", l, main)));
            }
        }
        if !opened {
            if !main.iter().any(|l| l.starts_with("open -> Err")) {
                v.push(("death:open-no-result".into(), format!("open did not return: {:?}", main)));
            }
            return v;
        }
        let close_res = call_results(&main).into_iter().find(|(a, _)| a == "close").map(|(_, b)| b);
        if p["drop"] == true && !main.iter().any(|l| l == "dropped") {
            v.push(("death:drop-did-not-return".into(), format!("{:?}", main)));
        }
        let got_closeok = o.io_events.iter().any(|e| matches!(e, IoEvent::Frame(AMQPFrame::Method(0, AMQPClass::Connection(pconnection::AMQPMethod::CloseOk(_))))));
        let got_server_close = o.io_events.iter().any(|e| matches!(e, IoEvent::Frame(AMQPFrame::Method(0, AMQPClass::Connection(pconnection::AMQPMethod::Close(_))))));
        let got_tx = o.io_events.iter().any(|e| matches!(e, IoEvent::Frame(AMQPFrame::Method(_, AMQPClass::Tx(_))) | IoEvent::Frame(AMQPFrame::Method(_, AMQPClass::Basic(amq_protocol::protocol::basic::AMQPMethod::Publish(_))))));
        let want: Vec<String> = match fault {
            "eof" => vec!["Err(UnexpectedSocketClose)".into()],
            "readerr" | "readerr-interrupted" => vec!["Err(IoErrorReadingSocket)".into()],
            "writeerr" => vec!["Err(IoErrorWritingSocket)".into()],
            "malformed" => vec!["Err(MalformedFrame)".into()],
            "silence" | "deadpeer" => vec!["Err(MissedServerHeartbeats)".into()],
            "serverclose" | "serverclose-eof" if got_server_close => vec!["Err(ServerClosedConnection(320,going down))".into()],
            // (a hang-up that breaks the pipe can be met by a write before the server's Close has
            // been read - the event loop writes first: the client then knows of a write error only)
            "serverclose-eof" if p["hangup"].as_str().map(|h| h.contains("pipe")).unwrap_or(false) => vec!["Err(IoErrorWritingSocket)".into(), "Ok".into()],
            "unsolicited" => vec!["Err(ServerClosedConnection(320,going down))".into(), "Err(FrameUnexpected)".into(), "Ok".into()],
            "clientexception" if got_tx => vec!["Err(ClientException)".into()],
            _ => vec!["Ok".into()],
        };
        match close_res {
            None if p["drop"] == true => {}
            None => v.push(("death:close-no-result".into(), format!("Connection::close did not return: {:?}", main))),
            Some(r) => {
                // a fault that never became visible (crash offset beyond the stream, write call
                // never made, frame never sent) leaves a clean close
                // (a corrupted frame is not sticky like the other faults: if the server emitted one,
                // it precedes CloseOk in the stream and a clean close means it was overlooked)
                let corrupt_emitted = fault == "malformed" && {
                    let b = &o.inbound;
                    let mut pos = 0usize;
                    let mut bad = false;
                    while pos + 8 <= b.len() {
                        let size = u32::from_be_bytes([b[pos + 3], b[pos + 4], b[pos + 5], b[pos + 6]]) as usize;
                        if pos + 8 + size > b.len() {
                            break;
                        }
                        if b[pos + 7 + size] != 0xCE {
                            bad = true;
                            break;
                        }
                        pos += 8 + size;
                    }
                    bad
                };
                let clean_ok = got_closeok && r == "Ok" && !corrupt_emitted;
                // a fault that was never presented (a frame / write call index the session does
                // not reach) leaves the session as it is without faults: it ends cleanly or,
                // where somebody waits on the consumer for ever, by the silent scripted server
                // being declared dead
                let presented = match fault {
                    "malformed" => corrupt_emitted,
                    "eof" | "readerr" | "readerr-interrupted" | "writeerr" => o.fault_injected,
                    _ => true,
                };
                let clean_ok = clean_ok || (!presented && r == "Err(MissedServerHeartbeats)");
                // (unsolicited replies are a server fault the statement says nothing specific about:
                // stale replies make the channel's own calls fail, handles get dropped with their
                // slot alive - any cause may win; what matters is that everything ends)
                if !want.contains(&r) && !clean_ok && fault != "unsolicited" {
                    v.push((format!("death:close-result:{}", r), format!("Connection::close returned {} expected {:?} (fault {}); main log {:?}", r, want, fault, main)));
                }
                if r == "Ok" && !got_closeok {
                    v.push(("death:close-ok-without-closeok".into(), "close returned Ok although no CloseOk was ever received".into()));
                }
            }
        }
        // the connection handle itself: once one of its calls failed, the later ones fail too
        {
            let calls = call_results(&main);
            if let Some(i) = calls.iter().position(|(_, r)| r.starts_with("Err")) {
                if let Some((op, r)) = calls[i..].iter().find(|(_, r)| !r.starts_with("Err")) {
                    v.push(("death:call-after-death-succeeded".into(), format!("connection handle: {} -> {} after an earlier call had failed; log {:?}", op, r, main)));
                }
            }
        }
        // every actor ran to its end (no hang is covered by the deadlock check); once a call
        // failed every later call fails; the consumer queue terminated
        for actor in ["a", "b"] {
            if let Some(log) = o.logs.get(actor) {
                let calls = call_results(log);
                if let Some(i) = calls.iter().position(|(_, r)| r.starts_with("Err")) {
                    if let Some((op, r)) = calls[i..].iter().find(|(_, r)| !r.starts_with("Err")) {
                        v.push(("death:call-after-death-succeeded".into(), format!("actor {}: {} -> {} after an earlier call had failed; log {:?}", actor, op, r, log)));
                    }
                }
                if !log.iter().any(|l| l.starts_with("chclose -> ")) {
                    v.push(("death:actor-incomplete".into(), format!("actor {} did not finish: {:?}", actor, log)));
                }
                if actor == "a" && fault != "none" && p["closing"] != true && log.iter().any(|l| l == "consume -> Ok") && !log.iter().any(|l| l == "consumer disconnected") {
                    v.push(("death:consumer-not-terminated".into(), format!("{:?}", log)));
                }
            }
        }
        v
    }
}


