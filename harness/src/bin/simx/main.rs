//! E2 `simx`: exploration of a live amiquip connection under a controlled scheduler.
mod scenarios;
mod scn_rpc;
mod scn_batch;
mod scn_hs;
mod scn_time;
mod scn_inbound;

fn all_scenarios() -> Vec<&'static dyn Scenario> {
    vec![&scenarios::Basic, &scenarios::Close, &scenarios::Death, &scn_rpc::Rpc, &scn_rpc::ChClose, &scn_rpc::Ids, &scn_rpc::Wire, &scn_rpc::PubWire, &scn_batch::Batch, &scn_hs::Hs, &scn_time::Hb, &scn_time::Throttle, &scn_time::Tuned, &scn_inbound::Inbound, &scn_inbound::Segments, &scn_inbound::ConsumerLife, &scn_inbound::ConsumerRace, &scn_inbound::Listeners, &scn_inbound::Violations]
}

use serde_json::{json, Value};
use std::collections::{BTreeMap, HashSet};
use vh::report::Part;
use vh::sim::explore::{install_quiet_panic_hook, point_kind_name, run_once, Explorer, Scenario};

fn arg(argv: &[String], name: &str) -> Option<String> {
    argv.iter().position(|a| a == name).and_then(|i| argv.get(i + 1).cloned())
}

fn find(name: &str) -> &'static dyn Scenario {
    for s in all_scenarios() {
        if s.name() == name {
            return s;
        }
    }
    eprintln!("unknown scenario {}; known: {:?}", name, all_scenarios().iter().map(|s| s.name()).collect::<Vec<_>>());
    std::process::exit(2);
}

fn print_trace(scn: &dyn Scenario, params: &Value, decisions: &[usize]) -> bool {
    let run = run_once(scn, params, decisions, &[], true);
    println!("scenario {} params {}", scn.name(), params);
    for (i, p) in run.points.iter().enumerate() {
        println!("{:4} {:5} {}/{} {}", i, point_kind_name(&p.kind), p.chosen, p.n, p.labels.iter().enumerate().map(|(j, l)| if j == p.chosen { format!("[{}]", l) } else { l.clone() }).collect::<Vec<_>>().join(" "));
    }
    for (name, log) in &run.outcome.logs {
        for l in log {
            println!("  {}: {}", name, l);
        }
    }
    println!("wire {} bytes, inbound {} bytes, io_gone {}, transport_dropped {}, t={}ms", run.outcome.wire.len(), run.outcome.inbound.len(), run.outcome.io_gone, run.outcome.transport_dropped, run.outcome.final_time_ns / 1_000_000);
    if std::env::var("SIMX_EVENTS").is_ok() {
        for e in &run.outcome.io_events {
            println!("  io: {:?}", e);
        }
    }
    if let Some(m) = &run.machinery {
        println!("MACHINERY: {}", m);
    }
    for (k, d) in &run.violations {
        println!("VIOLATION {}: {}", k, d);
    }
    run.violations.is_empty() && run.machinery.is_none()
}

fn worker(argv: &[String]) {
    let scn = find(&arg(argv, "--scenario").unwrap());
    let tier = arg(argv, "--tier").unwrap_or_else(|| "quick".into());
    let vi: usize = arg(argv, "--variant").unwrap().parse().unwrap();
    let shard: Vec<usize> = arg(argv, "--shard").unwrap_or_else(|| "0/1".into()).split('/').map(|x| x.parse().unwrap()).collect();
    let max_secs: u64 = arg(argv, "--max-secs").map(|s| s.parse().unwrap()).unwrap_or(600);
    let out = arg(argv, "--out").unwrap();
    let variants = scn.variants(&tier);
    let params = &variants[vi];
    let bound = arg(argv, "--bound").map(|s| s.parse().unwrap()).unwrap_or_else(|| scn.bound(&tier, params));
    let mut max_secs = max_secs;
    if let Some(d) = arg(argv, "--deadline-unix").and_then(|s| s.parse::<u64>().ok()) {
        let now = std::time::SystemTime::now().duration_since(std::time::UNIX_EPOCH).unwrap().as_secs();
        max_secs = max_secs.min(d.saturating_sub(now));
    }
    let mut ex = Explorer::new(scn, params, bound, (shard[0], shard[1]), max_secs);
    ex.explore();
    let st = ex.stats;
    let v = json!({
        "executions": st.executions,
        "transitions": st.transitions,
        "max_points": st.max_points,
        "states": st.states.iter().collect::<Vec<_>>(),
        "outcomes": st.outcomes.iter().map(|(k, v)| (k.to_string(), *v)).collect::<BTreeMap<String, u64>>(),
        "violations": st.violations,
        "violations_total": st.violations_total,
        "machinery": st.machinery,
        "capped": st.capped,
        "stopped_on_violations": st.stopped_on_violations,
        "by_cost": st.by_cost.iter().map(|(k, v)| (k.to_string(), *v)).collect::<BTreeMap<String, u64>>(),
        "samples": st.samples,
        "bound": bound,
    });
    std::fs::write(&out, serde_json::to_string(&v).unwrap()).unwrap();
}

/// One pass of the supervisor: every (variant, shard) item run by a worker process at the given
/// bound. `deadline_unix`: workers stop (and report `capped`) once it has passed.
struct PassResult {
    /// per item: (variant, shard, worker json or error text)
    items: Vec<(usize, usize, Result<Value, String>)>,
}

fn run_pass(scn: &dyn Scenario, tier: &str, variants: &[Value], bounds: &[usize], only: &[usize], max_secs: u64, deadline_unix: Option<u64>, order_weight: &dyn Fn(usize) -> u64) -> PassResult {
    let mut items = Vec::new();
    let mut shards_of = vec![1usize; variants.len()];
    let max_b = only.iter().map(|vi| bounds[*vi]).max().unwrap_or(0);
    let n_max = only.iter().filter(|vi| bounds[**vi] == max_b).count().max(1);
    for &vi in only {
        let b = bounds[vi];
        // work grows steeply with the bound: spread the deepest variants over many workers
        let shards = if b == 0 {
            1
        } else if b == max_b {
            (64 / n_max).max(1).min(16)
        } else if only.len() >= 24 {
            1
        } else {
            2
        };
        shards_of[vi] = shards;
        for s in 0..shards {
            items.push((vi, s));
        }
    }
    // heavier bounds first; within a bound, lighter variants first (more of them complete
    // before a deadline)
    items.sort_by_key(|(vi, _)| (std::cmp::Reverse(bounds[*vi]), order_weight(*vi)));
    let exe = std::env::current_exe().unwrap();
    let dir = std::env::temp_dir().join(format!("simx-{}-{}", scn.name(), std::process::id()));
    let _ = std::fs::create_dir_all(&dir);
    let results = vh::par::par_map(items.len(), |i| {
        let (vi, s) = items[i];
        let f = dir.join(format!("w{}-{}.json", vi, s));
        let mut cmd = std::process::Command::new(&exe);
        cmd.args(["worker", "--scenario", scn.name(), "--tier", tier, "--variant", &vi.to_string(), "--shard", &format!("{}/{}", s, shards_of[vi]), "--max-secs", &max_secs.to_string(), "--bound", &bounds[vi].to_string()]);
        if let Some(d) = deadline_unix {
            cmd.args(["--deadline-unix", &d.to_string()]);
        }
        let st = cmd.arg("--out").arg(&f).stdout(std::process::Stdio::null()).stderr(std::process::Stdio::piped()).output();
        let text = std::fs::read_to_string(&f).ok();
        let _ = std::fs::remove_file(&f);
        match text.and_then(|t| serde_json::from_str::<Value>(&t).ok()) {
            Some(v) => Ok(v),
            None => Err(st
                .map(|o| {
                    let err = String::from_utf8_lossy(&o.stderr).to_string();
                    // the Rust runtime's own abort messages come first, before a backtrace
                    let abort = err.lines().find(|l| l.starts_with("memory allocation of") || l.contains("has overflowed its stack")).unwrap_or("").to_string();
                    format!("{:?} {} {}", o.status, abort, err.chars().rev().take(400).collect::<String>().chars().rev().collect::<String>())
                })
                .unwrap_or_else(|e| e.to_string())),
        }
    });
    let _ = std::fs::remove_dir_all(&dir);
    PassResult { items: items.into_iter().zip(results.into_iter()).map(|((vi, s), r)| (vi, s, r)).collect() }
}

/// `simx run <scenario>`. Quick tier: one pass, every variant at its quick bound. Thorough
/// tier: pass A explores every (thorough) variant completely at the bound the quick tier would
/// use; pass B re-explores the variants whose thorough bound is deeper at that deeper bound,
/// under a wall budget (`--budget-secs`, default 300): what was completed at the deeper bound
/// and what only at the lower one is reported, and `exhaustive` is true only if everything was.
fn supervisor(argv: &[String]) {
    let scn = find(&argv[2]);
    let tier = arg(argv, "--tier").unwrap_or_else(|| "quick".into());
    let out = arg(argv, "--out");
    let thorough = tier == "thorough";
    let max_secs: u64 = arg(argv, "--max-secs").map(|s| s.parse().unwrap()).unwrap_or(if thorough { 1500 } else { 100 });
    let budget: u64 = arg(argv, "--budget-secs").map(|s| s.parse().unwrap()).unwrap_or(300);
    let variants = scn.variants(&tier);
    let deep: Vec<usize> = variants.iter().map(|p| scn.bound(&tier, p)).collect();
    let base: Vec<usize> = variants.iter().enumerate().map(|(i, p)| if thorough { scn.bound("quick", p).min(deep[i]) } else { deep[i] }).collect();
    let all: Vec<usize> = (0..variants.len()).collect();
    let level = if scn.property() == "C05" { "fault_enumeration" } else { "model_checking" };
    let mut part = Part::new(scn.property(), scn.name(), "simx", level, &tier);
    part.rule = scn.describe();
    let pass_a = run_pass(scn, &tier, &variants, &base, &all, max_secs, None, &|_| 0);
    // executions of pass A per variant: the weight that orders pass B
    let mut weight = vec![0u64; variants.len()];
    for (vi, _, r) in &pass_a.items {
        if let Ok(v) = r {
            weight[*vi] += v["executions"].as_u64().unwrap_or(0);
        }
    }
    let deeper: Vec<usize> = all.iter().copied().filter(|vi| deep[*vi] > base[*vi]).collect();
    let pass_b = if thorough && !deeper.is_empty() {
        let now = std::time::SystemTime::now().duration_since(std::time::UNIX_EPOCH).unwrap().as_secs();
        Some(run_pass(scn, &tier, &variants, &deep, &deeper, max_secs, Some(now + budget), &|vi| weight[vi]))
    } else {
        None
    };
    let mut states: HashSet<u64> = HashSet::new();
    let mut outcomes: HashSet<String> = HashSet::new();
    let mut machinery: Vec<String> = Vec::new();
    let mut by_cost: BTreeMap<String, u64> = BTreeMap::new();
    let mut bounds: HashSet<u64> = HashSet::new();
    let mut capped_variants: HashSet<usize> = HashSet::new();
    let mut absorb = |part: &mut Part, vi: usize, s: usize, r: &Result<Value, String>, skip_costs_upto: Option<usize>, is_b: bool| {
        let v = match r {
            Ok(v) => v,
            Err(e) => {
                // a worker killed by the Rust runtime's own abort (allocation failure, stack overflow)
                // while it executes the library is a verdict on the library - "aborts the process" -
                // not a machinery problem; anything else is
                // (only an allocation of a size no part of the harness ever asks for - 1 GiB or more -
                // or a stack overflow: a small allocation failing under memory pressure is the
                // machine's problem)
                let huge_alloc = e
                    .split("memory allocation of ")
                    .nth(1)
                    .and_then(|r| r.split(' ').next())
                    .and_then(|n| n.parse::<u64>().ok())
                    .map(|n| n >= 1 << 30)
                    .unwrap_or(false);
                if huge_alloc || e.contains("has overflowed its stack") {
                    part.violation(
                        "process:aborted",
                        format!("variant {} {}: the process running the connection was aborted: {}", vi, variants[vi], e.chars().rev().take(200).collect::<String>().chars().rev().collect::<String>()),
                        json!({"engine":"simx","scenario":scn.name(),"params":variants[vi],"decisions":[]}),
                    );
                    return;
                }
                machinery.push(format!("worker variant {} shard {} produced no result: {}", vi, s, e));
                return;
            }
        };
        for x in v["states"].as_array().unwrap() {
            states.insert(x.as_u64().unwrap());
        }
        for (k, _) in v["outcomes"].as_object().unwrap() {
            outcomes.insert(format!("{}:{}", vi, k));
        }
        // pass B repeats what pass A did up to the lower bound: count only what is new
        let mut new_execs = 0u64;
        for (k, n) in v["by_cost"].as_object().unwrap() {
            let c: usize = k.parse().unwrap_or(0);
            if skip_costs_upto.map(|u| c <= u).unwrap_or(false) {
                continue;
            }
            *by_cost.entry(k.clone()).or_insert(0) += n.as_u64().unwrap();
            new_execs += n.as_u64().unwrap();
        }
        part.evaluations += new_execs;
        let total = v["executions"].as_u64().unwrap_or(0).max(1);
        part.transitions += v["transitions"].as_u64().unwrap_or(0) * new_execs / total;
        for m in v["machinery"].as_array().unwrap() {
            machinery.push(format!("variant {}: {}", vi, m.as_str().unwrap_or("")));
        }
        if v["stopped_on_violations"].as_bool() == Some(true) {
            part.exhaustive = false;
        }
        if v["capped"].as_bool() == Some(true) {
            part.exhaustive = false;
            capped_variants.insert(vi);
            if !is_b {
                part.caps.push(format!("scenario {} variant {} shard {}: wall cap reached before bound {} was completed", scn.name(), vi, s, v["bound"]));
            }
        } else {
            bounds.insert(v["bound"].as_u64().unwrap_or(0));
        }
        part.violations_total += v["violations_total"].as_u64().unwrap_or(0);
        for viol in v["violations"].as_array().unwrap() {
            let key = viol["key"].as_str().unwrap().to_string();
            let same = part.violations.iter().filter(|x| x.key == key).count();
            if same < 3 && part.violations.len() < 40 {
                part.violations.push(vh::report::Violation { key, detail: viol["detail"].as_str().unwrap_or("").to_string(), replay: viol["replay"].clone() });
            }
        }
        for smp in v["samples"].as_array().unwrap() {
            part.sample(smp.clone());
        }
    };
    for (vi, s, r) in &pass_a.items {
        absorb(&mut part, *vi, *s, r, None, false);
    }
    if let Some(pb) = &pass_b {
        for (vi, s, r) in &pb.items {
            absorb(&mut part, *vi, *s, r, Some(base[*vi]), true);
        }
        let n_deeper = deeper.len();
        let n_capped = deeper.iter().filter(|vi| capped_variants.contains(vi)).count();
        part.extra.insert("deeper_pass".into(), json!({"variants": n_deeper, "completed": n_deeper - n_capped, "budget_secs": budget}));
        if n_capped > 0 {
            part.caps.push(format!("scenario {}: every variant was explored completely at its quick-tier bound; of the {} variants with a deeper thorough bound, {} were completed at it and {} only in part within the {} s budget", scn.name(), n_deeper, n_deeper - n_capped, n_capped, budget));
        }
    }
    part.states = states.len() as u64;
    part.traces_validated = part.evaluations;
    part.distinct_nontrivial = if deep.iter().all(|b| *b == 0) { part.evaluations } else { part.evaluations.saturating_sub(variants.len() as u64) };
    part.bounds.insert("deviation_bound".into(), json!(bounds.iter().collect::<Vec<_>>()));
    part.bounds.insert("variants".into(), json!(variants.len()));
    part.extra.insert("executions_by_deviations".into(), json!(by_cost));
    part.extra.insert("distinct_outcomes".into(), json!(outcomes.len()));
    part.outcome_n("distinct-observations", outcomes.len() as u64);
    part.assumptions.push("scheduling points are channel/poll operations; one I/O-loop iteration is atomic with respect to client sends (except in the fine-mode variants); mio, std::sync::mpsc and crossbeam-channel behave as documented; transport, broker and timer wheel are models (DESIGN.md 5.8/5.9)".into());
    if !machinery.is_empty() {
        for m in machinery.iter().take(8) {
            println!("MACHINERY: {}", m);
        }
        part.finish(out.as_deref());
        std::process::exit(2);
    }
    part.finish(out.as_deref());
}

/// `simx tcp --out F <scenario>:<variant> ...`: for each named default execution, the
/// free-running loopback-TCP run and the mock run must give the same per-actor results and
/// the same per-channel wire projection.
fn tcp_conformance(argv: &[String]) {
    use vh::sim::explore::{per_channel, run_free_tcp};
    let out = arg(argv, "--out");
    let tier = arg(argv, "--tier").unwrap_or_else(|| "quick".into());
    let prop = arg(argv, "--property").unwrap_or_else(|| "C01".into());
    let mut part = Part::new(&prop, "tcp-conformance", "simx", "model_checking", &tier);
    part.rule = "binding of the transport and broker models to the real thing: the default execution of each listed scenario variant is run twice - under the controller over the mock transport, and free-running (no controller, real blocking calls) over a real mio TcpStream connected through the loopback interface to the same scripted broker served by a thread - and the per-actor results and the per-channel projection of the bytes the broker received must be equal".into();
    let specs: Vec<&String> = argv.iter().skip(2).filter(|a| a.contains(':') && !a.starts_with("--")).collect();
    for spec in specs {
        let (name, vi) = spec.split_once(':').unwrap();
        let scn = find(name);
        let vi: usize = vi.parse().unwrap();
        let variants = scn.variants(&tier);
        let params = &variants[vi];
        let mock = run_once(scn, params, &[], &[], false);
        part.evaluations += 2;
        part.distinct_nontrivial += 2;
        part.transitions += mock.points.len() as u64;
        part.states += mock.points.len() as u64;
        part.traces_validated += 2;
        match run_free_tcp(scn, params) {
            Err(e) => part.violation("tcp-conformance:free-run-failed", format!("{} variant {}: {}", name, vi, e), json!({"engine":"simx","scenario":name,"params":params,"decisions":[]})),
            Ok((logs, wire)) => {
                if logs != mock.outcome.logs {
                    part.violation("tcp-conformance:results-differ", format!("{} variant {}: over TCP {:?}; over the mock transport {:?}", name, vi, logs, mock.outcome.logs), json!({"engine":"simx","scenario":name,"params":params,"decisions":[]}));
                }
                if per_channel(&wire) != per_channel(&mock.outcome.wire) {
                    part.violation("tcp-conformance:wire-differs", format!("{} variant {}: the broker received {} bytes over TCP and {} over the mock transport; the per-channel frame sequences differ", name, vi, wire.len(), mock.outcome.wire.len()), json!({"engine":"simx","scenario":name,"params":params,"decisions":[]}));
                }
                part.sample(json!({"scenario": name, "variant": vi, "tcp_bytes": wire.len(), "mock_bytes": mock.outcome.wire.len(), "logs": logs}));
            }
        }
        for (k, d) in &mock.violations {
            part.violation(k, d.clone(), json!({"engine":"simx","scenario":name,"params":params,"decisions":[]}));
        }
    }
    part.finish(out.as_deref());
}

fn main() {
    install_quiet_panic_hook();
    let argv: Vec<String> = std::env::args().collect();
    if argv.len() < 2 {
        eprintln!("usage: simx run <scenario> [--tier T] [--out F] | trace <scenario> [--variant i] [--decisions a,b,c] | replay FILE | list");
        std::process::exit(2);
    }
    match argv[1].as_str() {
        "variants" => {
            let scn = find(&argv[2]);
            let tier = arg(&argv, "--tier").unwrap_or_else(|| "quick".into());
            for (i, p) in scn.variants(&tier).iter().enumerate() {
                println!("{} bound={} {}", i, scn.bound(&tier, p), p);
            }
        }
        "list" => {
            for s in all_scenarios() {
                println!("{} ({}) quick variants {} : {}", s.name(), s.property(), s.variants("quick").len(), s.describe());
            }
        }
        "run" => supervisor(&argv),
        "worker" => worker(&argv),
        "tcp" => tcp_conformance(&argv),
        "urlslice" => url_slice(&argv),
        "trace" => {
            let scn = find(&argv[2]);
            let tier = arg(&argv, "--tier").unwrap_or_else(|| "quick".into());
            let vi: usize = arg(&argv, "--variant").map(|s| s.parse().unwrap()).unwrap_or(0);
            let decisions: Vec<usize> = arg(&argv, "--decisions").map(|s| s.split(',').filter(|x| !x.is_empty()).map(|x| x.parse().unwrap()).collect()).unwrap_or_default();
            let variants = scn.variants(&tier);
            let ok = print_trace(scn, &variants[vi], &decisions);
            std::process::exit(if ok { 0 } else { 1 });
        }
        "replay" => {
            let text = std::fs::read_to_string(&argv[2]).expect("read replay");
            let v: Value = serde_json::from_str(&text).expect("parse replay");
            let scn = find(v["scenario"].as_str().unwrap());
            let decisions: Vec<usize> = v["decisions"].as_array().unwrap().iter().map(|x| x.as_u64().unwrap() as usize).collect();
            let ok = print_trace(scn, &v["params"], &decisions);
            std::process::exit(if ok { 0 } else { 1 });
        }
        _ => {
            eprintln!("unknown command");
            std::process::exit(2);
        }
    }
}

/// `simx urlslice --out F`: C19 end to end. `Connection::insecure_open(url)` (real URL parsing,
/// real `TcpStream::connect`, real handshake) against the scripted broker behind a loopback
/// listener; what the broker sees (StartOk response, TuneOk, Open.virtual_host) must be what
/// the URL spells out. Sequential and free-running: a slice, not an exploration.
fn url_slice(argv: &[String]) {
    use amq_protocol::frame::AMQPFrame;
    use amq_protocol::protocol::{connection as pc, AMQPClass};
    use std::io::{Read, Write};
    use vh::sim::broker::{Broker, BrokerOut, Handshake, StdBroker};
    let out = arg(argv, "--out");
    let tier = arg(argv, "--tier").unwrap_or_else(|| "quick".into());
    let mut part = Part::new("C19", "urlslice", "simx", "exploration", &tier);
    part.rule = "URLs opened with the real Connection::insecure_open against a scripted broker behind a loopback TCP listener (free-running, no controller): the StartOk mechanism and response, the TuneOk heartbeat / channel_max and Open.virtual_host the broker receives must equal what the URL spells out; every listed URL is distinct".into();
    amiquip::verif::clock::set_virtual(false);
    amiquip::verif::install(None);
    // (userinfo, vhost path, query) -> expected (mechanism, response, vhost, heartbeat, channel_max)
    let cases: Vec<(&str, &str, &str, &str, &str, &str, u16, u16)> = vec![
        ("", "", "", "PLAIN", "\u{0}guest\u{0}guest", "/", 60, 2047),
        ("u:p@", "/vh", "", "PLAIN", "\u{0}u\u{0}p", "vh", 60, 2047),
        ("u@", "/", "heartbeat=5", "PLAIN", "\u{0}u\u{0}guest", "/", 5, 2047),
        (":p@", "/%2f", "channel_max=7", "PLAIN", "\u{0}guest\u{0}p", "/", 60, 7),
        ("a%40b:c%3Ad@", "/a%2Fb", "heartbeat=0&channel_max=3", "PLAIN", "\u{0}a@b\u{0}c:d", "a/b", 0, 3),
        ("team+ci:x+y@", "/prod+eu", "channel_max=65535", "PLAIN", "\u{0}team+ci\u{0}x+y", "prod+eu", 60, 2047),
        ("u:p@", "/v%20w", "auth_mechanism=external", "EXTERNAL", "", "v w", 60, 2047),
        ("", "/x", "auth_mechanism=external&heartbeat=9", "EXTERNAL", "", "x", 9, 2047),
        ("%75ser:p%2Fw@", "", "connection_timeout=5000&heartbeat=61", "PLAIN", "\u{0}user\u{0}p/w", "/", 60, 2047),
        ("u:p@", "/%2Fprod", "", "PLAIN", "\u{0}u\u{0}p", "/prod", 60, 2047),
        ("", "/%2f%2f", "heartbeat=7", "PLAIN", "\u{0}guest\u{0}guest", "//", 7, 2047),
        ("u:p@", "/a%252Fb%2541", "", "PLAIN", "\u{0}u\u{0}p", "a%2Fb%41", 60, 2047),
        // a connection timeout of 0 ms governs the attempt like any other value: it has run out
        // before the server can have said anything
        ("", "", "connection_timeout=0", "", "", "", 0, 0),
    ];
    // host forms: an IPv4 literal, a name (resolved, possibly to several addresses that are
    // tried in turn) and a bracketed IPv6 literal (skipped where the sandbox has no ::1)
    let mut all: Vec<(&str, &str, (&str, &str, &str, &str, &str, &str, u16, u16))> = cases.iter().map(|c| ("127.0.0.1", "127.0.0.1:0", *c)).collect();
    all.push(("localhost", "127.0.0.1:0", cases[1]));
    all.push(("[::1]", "[::1]:0", cases[1]));
    all.push(("[::1]", "[::1]:0", cases[4]));
    let mut skipped = Vec::new();
    for (host, bind, (ui, path, query, mech, resp, vhost, hb, chmax)) in all {
        let listener = match std::net::TcpListener::bind(bind) {
            Ok(l) => l,
            Err(e) => {
                skipped.push(format!("{}: {}", bind, e));
                continue;
            }
        };
        part.evaluations += 1;
        part.distinct_nontrivial += 1;
        let addr = listener.local_addr().unwrap();
        let port = addr.port();
        let url = format!("amqp://{}{}:{}{}{}{}", ui, host, port, path, if query.is_empty() { "" } else { "?" }, query);
        let server = std::thread::spawn(move || {
            let mut broker = StdBroker::new(Handshake::default());
            let (mut sock, _) = listener.accept().unwrap();
            let _ = sock.set_read_timeout(Some(std::time::Duration::from_secs(10)));
            let mut buf = vec![0u8; 65536];
            loop {
                match sock.read(&mut buf) {
                    Ok(0) | Err(_) => break,
                    Ok(n) => {
                        let mut o = BrokerOut::default();
                        broker.on_client_bytes(&buf[..n], &mut o);
                        if !o.bytes.is_empty() && sock.write_all(&o.bytes).is_err() {
                            break;
                        }
                        if o.eof {
                            break;
                        }
                    }
                }
            }
            broker.decoded()
        });
        let r = amiquip::Connection::insecure_open(&url).and_then(|c| c.close());
        if r.is_err() {
            // the client may never have connected: release the server's accept()
            let _ = std::net::TcpStream::connect(addr);
        }
        let frames = server.join().unwrap_or_default();
        let mut got = (String::new(), String::new(), String::new(), 0u16, 0u16);
        for f in frames.into_iter().flatten() {
            match f {
                AMQPFrame::Method(0, AMQPClass::Connection(pc::AMQPMethod::StartOk(s))) => {
                    got.0 = s.mechanism;
                    got.1 = s.response;
                }
                AMQPFrame::Method(0, AMQPClass::Connection(pc::AMQPMethod::TuneOk(t))) => {
                    got.3 = t.heartbeat;
                    got.4 = t.channel_max;
                }
                AMQPFrame::Method(0, AMQPClass::Connection(pc::AMQPMethod::Open(o))) => got.2 = o.virtual_host,
                _ => {}
            }
        }
        let want = (mech.to_string(), resp.to_string(), vhost.to_string(), hb, chmax);
        if query == "connection_timeout=0" {
            if !matches!(r, Err(amiquip::Error::ConnectionTimeout)) {
                part.violation("urlslice:timeout-zero", format!("{} -> result {:?}, expected ConnectionTimeout", url.replace(&port.to_string(), "PORT"), r.map_err(|e| format!("{:?}", e))), json!({"engine":"simx","scenario":"urlslice","url":url}));
            }
            part.sample(json!({"url": url.replace(&port.to_string(), "PORT"), "result": "ConnectionTimeout"}));
            continue;
        }
        if r.is_err() || got != want {
            part.violation("urlslice:wrong-parameters", format!("{} -> result {:?}; broker saw (mechanism, response, vhost, heartbeat, channel_max) = {:?}, expected {:?}", url.replace(&port.to_string(), "PORT"), r.map_err(|e| format!("{:?}", e)), got, want), json!({"engine":"simx","scenario":"urlslice","url":url}));
        }
        part.sample(json!({"url": url.replace(&port.to_string(), "PORT"), "broker_saw": format!("{:?}", got)}));
    }
    // amqps: the connection timeout of the URL also governs the TLS handshake. A peer that
    // accepts the TCP connection and then says nothing: the secure open must give up with
    // ConnectionTimeout (400 ms configured; 10 s allowed, one retry - real time, real sockets).
    {
        let l4 = std::net::TcpListener::bind("127.0.0.1:0").unwrap();
        let port = l4.local_addr().unwrap().port();
        // (localhost may resolve to ::1 as well: the same silence there, where IPv6 exists)
        let l6 = std::net::TcpListener::bind(("::1", port)).ok();
        let hold = std::sync::Arc::new(std::sync::Mutex::new(Vec::new()));
        for l in std::iter::once(l4).chain(l6) {
            let hold = hold.clone();
            std::thread::spawn(move || {
                for s in l.incoming().flatten() {
                    hold.lock().unwrap().push(s);
                }
            });
        }
        let url = format!("amqps://localhost:{}?connection_timeout=400", port);
        part.evaluations += 1;
        part.distinct_nontrivial += 1;
        let mut verdict: Option<String> = None;
        for attempt in 0..2 {
            let (tx, rx) = std::sync::mpsc::channel();
            let u = url.clone();
            std::thread::spawn(move || {
                let r = amiquip::Connection::open(&u).map(|_| ());
                let _ = tx.send(r.map_err(|e| format!("{:?}", e)));
            });
            match rx.recv_timeout(std::time::Duration::from_secs(10)) {
                Ok(Err(e)) if e.starts_with("ConnectionTimeout") => {
                    verdict = None;
                    break;
                }
                Ok(other) => {
                    verdict = Some(format!("result {:?}", other));
                    break;
                }
                Err(_) => verdict = Some(format!("no result within 10 s (attempt {})", attempt + 1)),
            }
        }
        if let Some(v) = verdict {
            part.violation("urlslice:amqps-timeout", format!("amqps://localhost:PORT?connection_timeout=400 against a peer that accepts and stays silent: {}, expected ConnectionTimeout", v), json!({"engine":"simx","scenario":"urlslice","url":url}));
        }
        part.sample(json!({"url": "amqps://localhost:PORT?connection_timeout=400", "peer": "silent"}));
    }
    part.extra.insert("skipped_hosts".into(), json!(skipped));
    part.finish(out.as_deref());
}
