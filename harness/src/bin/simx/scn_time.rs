//! C17 (heartbeats under virtual time) and C18 (backpressure).
use crate::scenarios::*;
use amiquip::{ConnectionOptions, ConnectionTuning, Publish};
use serde_json::{json, Value};
use vh::sim::broker::{Handshake, StdBroker};
use vh::sim::explore::{Built, Ctx, Scenario};
use vh::sim::world::{EnvConfig, Outcome, World};
use vh::wire::frame_bytes;

pub struct Hb;

const MS: u64 = 1_000_000;

fn grid(h: u64) -> Vec<u64> {
    // times in ms
    let step = h * 500;
    let mut v: Vec<u64> = (1..=12).map(|i| i * step).collect();
    v.extend([2 * h * 1000 - 6, 2 * h * 1000 - 5, 2 * h * 1000 + 1, 3]);
    v.sort();
    v.dedup();
    v
}

impl Scenario for Hb {
    fn name(&self) -> &'static str {
        "hb"
    }
    fn property(&self) -> &'static str {
        "C17"
    }
    fn variants(&self, tier: &str) -> Vec<Value> {
        let mut v = Vec::new();
        let hs: Vec<u64> = if tier == "thorough" { vec![1, 2, 60] } else { vec![1, 2] };
        let maxk = if tier == "thorough" { 3 } else { 2 };
        for h in hs {
            let g = grid(h);
            let kinds = ["hb", "byte"];
            // all choices of up to maxk grid points with a kind each
            let mut sets: Vec<Vec<(u64, &str)>> = vec![vec![]];
            let mut layer: Vec<Vec<(usize, &str)>> = vec![vec![]];
            for _ in 0..maxk {
                let mut next = Vec::new();
                for s in &layer {
                    let from = s.last().map(|x| x.0 + 1).unwrap_or(0);
                    for i in from..g.len() {
                        for k in kinds {
                            let mut n = s.clone();
                            n.push((i, k));
                            next.push(n);
                        }
                    }
                }
                for n in &next {
                    sets.push(n.iter().map(|(i, k)| (g[*i], *k)).collect());
                }
                layer = next;
            }
            for s in sets {
                let server: Vec<Value> = s.iter().map(|(t, k)| json!([t, k])).collect();
                v.push(json!({"h": h, "server": server, "client_at": []}));
            }
            // a server that keeps talking: never declared dead
            let chatty: Vec<Value> = (1..=13).map(|i| json!([i * h * 900, if i % 2 == 0 { "hb" } else { "byte" }])).collect();
            v.push(json!({"h": h, "server": chatty, "client_at": []}));
            v.push(json!({"h": h, "server": chatty, "client_at": [h * 500, h * 1500, h * 2600]}));
            v.push(json!({"h": h, "server": [], "client_at": [h * 700, h * 1400]}));
            // a broker that takes 1.5 intervals to answer Open: the timers run during the handshake
            v.push(json!({"h": h, "server": [], "client_at": [], "open_delay_ms": h * 1500}));
            // a peer that stops reading and talking: the client's heartbeats pile up unsent, the
            // tx and rx timeouts expire at the same instant (both orders of handing them out)
            for newest_first in [false, true] {
                v.push(json!({"h": h, "server": [], "client_at": [], "dead_peer": true, "newest_first": newest_first}));
                v.push(json!({"h": h, "server": [[h * 500, "hb"]], "client_at": [h * 250], "dead_peer": true, "newest_first": newest_first}));
            }
            // the client asks for h, the server proposes three times as much: the announced (lower)
            // interval governs both timers
            v.push(json!({"h": h, "server_h": 3 * h, "server": [], "client_at": []}));
            v.push(json!({"h": h, "server_h": 3 * h, "server": [[h * 900, "hb"], [h * 1800, "byte"], [h * 2700, "hb"], [h * 3600, "hb"], [h * 4500, "hb"], [h * 5400, "hb"]], "client_at": [h * 2600]}));
            // (whole frames only here: the client makes a request while the server is talking)
            let chatty_frames: Vec<Value> = (1..=13).map(|i| json!([i * h * 900, "hb"])).collect();
            v.push(json!({"h": h, "server": chatty_frames, "client_at": [], "open_delay_ms": h * 1500}));
            // a peer that stops reading for a while (0.8h .. 1.1h): the tx timer goes off at h
            // while a publish is still waiting to be written; once the peer reads again the
            // client keeps its rhythm
            v.push(json!({"h": h, "server": chatty_frames, "client_at": [h * 500, h * 900], "stall_at": h * 800, "grant_at": h * 1100}));
            v.push(json!({"h": h, "server": chatty_frames, "client_at": [h * 500, h * 1400], "stall_at": h * 1300, "grant_at": h * 1600}));
            // an I/O thread that does not get to run for a while (0.9h .. 1.1h) at the hand-over
            // from the handshake: OpenOk arrives at 0.95h, the tx timer goes off at h, and the I/O
            // thread finds both in one wake-up (OpenOk first); also with OpenOk behind the timer
            v.push(json!({"h": h, "server": chatty_frames, "client_at": [], "open_delay_ms": h * 950, "hold": [h * 900, h * 1100]}));
            v.push(json!({"h": h, "server": chatty_frames, "client_at": [], "open_delay_ms": h * 1050, "hold": [h * 900, h * 1100]}));
            v.push(json!({"h": h, "server": [], "client_at": [], "open_delay_ms": h * 950, "hold": [h * 900, h * 1100]}));
            // ... and for two whole intervals (h .. 3h) while the server keeps sending every 0.9h: its
            // bytes arrived in time, the rx timer expired meanwhile, and the I/O thread finds both
            // in one wake-up; the server was never silent
            v.push(json!({"h": h, "server": chatty_frames, "client_at": [], "hold": [h * 1000, h * 3000]}));
            // the server breaks the protocol (a body frame on channel 0) and then says nothing
            // more, not even CloseOk to the client's Connection.Close: 2h of silence behind its
            // last byte is still MissedServerHeartbeats - with the client's Close written, and
            // with a peer that stopped reading just before (the Close never leaves)
            v.push(json!({"h": h, "server": [[h * 500, "bad"]], "client_at": [], "silent_close": true}));
            v.push(json!({"h": h, "server": [[h * 900, "hb"], [h * 1300, "bad"]], "client_at": [h * 200], "silent_close": true}));
            v.push(json!({"h": h, "server": [[h * 500, "bad"]], "client_at": [], "silent_close": true, "stall_at": h * 400}));
        }
        // heartbeats off: silence is never fatal, nothing is sent
        // the client closes at 3 s, the server never answers and says nothing more: the close is
        // given up twice the interval after the server's last byte (2.7 s)
        v.push(json!({"h": 1, "server": [[900, "hb"], [1800, "hb"], [2700, "hb"]], "client_at": [], "close_at": 3000}));
        v.push(json!({"h": 0, "server": [], "client_at": []}));
        // ... also when the connection was opened with a connection timeout (it bounds the
        // handshake, not the life of the connection)
        v.push(json!({"h": 0, "server": [], "client_at": [5000], "ctimeout_ms": 2000}));
        v.push(json!({"h": 2, "server": [[1800, "hb"], [3600, "byte"], [5400, "hb"], [7200, "hb"], [9000, "hb"], [10800, "hb"]], "client_at": [], "ctimeout_ms": 1000}));
        v.push(json!({"h": 0, "server": [[1500, "hb"]], "client_at": [2000]}));
        // ... also when only the client says 0 and the server proposes an interval
        v.push(json!({"h": 0, "server_h": 1, "server": [], "client_at": [3000]}));
        v
    }
    fn bound(&self, tier: &str, p: &Value) -> usize {
        if tier == "thorough" && p["server"].as_array().unwrap().len() <= 1 {
            1
        } else {
            0
        }
    }
    fn describe(&self) -> String {
        "negotiated heartbeat h in {1,2} s (thorough +60 s; plus h=0) under virtual time to a horizon of 6h: every pattern of up to 2 (thorough 3) server transmissions (a whole heartbeat frame or a single byte) placed on a grid of h/2 plus the points 3 ms, 2h-6 ms, 2h-5 ms, 2h+1 ms, a server that keeps talking, a server that breaks the protocol and then falls silent (the client's Close written or stuck), and client publishes at chosen times. Oracle (constraints, not a prediction): while alive the client writes at least every h (+10 ms) and idle filler is heartbeat frames; MissedServerHeartbeats happens iff inbound silence reaches 2h, not earlier than 2h-5 ms and not later than 2h+10 ms; any inbound byte counts; with h=0 nothing is sent and silence is never fatal".into()
    }
    fn build(&self, p: &Value) -> Built {
        let h = p["h"].as_u64().unwrap();
        let mut hs = Handshake::default();
        hs.tune = (2047, 131072, p["server_h"].as_u64().unwrap_or(h) as u16);
        hs.open_ok_delay_ns = p["open_delay_ms"].as_u64().unwrap_or(0) * MS;
        let mut broker = StdBroker::new(hs);
        let hbf = frame_bytes(&amq_protocol::frame::AMQPFrame::Heartbeat(0));
        let mut byte_ix = 0usize;
        for ev in p["server"].as_array().unwrap() {
            let t = ev[0].as_u64().unwrap() * MS;
            if ev[1] == "hb" || ev[1] == "bad" {
                // complete a partially sent frame first so that the stream stays well-formed
                let mut b = Vec::new();
                while byte_ix % 8 != 0 {
                    b.push(hbf[byte_ix % 8]);
                    byte_ix += 1;
                }
                if ev[1] == "bad" {
                    b.extend_from_slice(&frame_bytes(&amq_protocol::frame::AMQPFrame::Body(0, vec![7])));
                } else {
                    b.extend_from_slice(&hbf);
                }
                broker.timed.push_back((t, b));
            } else {
                broker.timed.push_back((t, vec![hbf[byte_ix % 8]]));
                byte_ix += 1;
            }
        }
        let horizon_ms0 = if h == 0 { 1_000_000_000 } else { 6 * h * 1000 };
        if byte_ix % 8 != 0 {
            // single bytes leave a frame unfinished: the server finishes it just before the
            // horizon, so that its reply to the client's close does not land inside it
            let rest: Vec<u8> = (byte_ix % 8..8).map(|i| hbf[i]).collect();
            broker.timed.push_back(((horizon_ms0 - 1) * MS, rest));
        }
        let close_at = p["close_at"].as_u64();
        if close_at.is_some() || p["silent_close"] == true {
            broker.close_behaviour = vh::sim::broker::CloseBehaviour::Silent;
        }
        let mut cfg = EnvConfig::default();
        let dead_peer = p["dead_peer"] == true;
        cfg.no_grants = dead_peer;
        let newest_first = p["newest_first"] == true;
        let horizon_ms = if h == 0 { 1_000_000_000 } else { 6 * h * 1000 };
        cfg.horizon_ns = (horizon_ms + 10) * MS;
        let client_at: Vec<u64> = p["client_at"].as_array().unwrap().iter().map(|x| x.as_u64().unwrap()).collect();
        let ctimeout = p["ctimeout_ms"].as_u64().map(std::time::Duration::from_millis);
        let lower_client = p["server_h"].is_u64();
        // what the program does, in order of time: publishes, and the peer's stall / resumption
        let mut agenda: Vec<(u64, &'static str)> = client_at.iter().map(|t| (*t, "publish")).collect();
        if let Some(t) = p["stall_at"].as_u64() {
            agenda.push((t, "stall"));
            cfg.no_grants = true;
        }
        if let Some(t) = p["grant_at"].as_u64() {
            agenda.push((t, "grant"));
        }
        agenda.sort();
        let hold: Option<(u64, u64)> = p["hold"].as_array().map(|a| (a[0].as_u64().unwrap(), a[1].as_u64().unwrap()));
        Built {
            broker: Box::new(broker),
            cfg,
            root: Box::new(move |ctx: Ctx| {
                amiquip::verif::clock::set_timer_tie_newest_first(newest_first);
                if let Some((from, to)) = hold {
                    ctx.spawn("holder", move |ctx| {
                        ctx.sleep_ms(from);
                        ctx.hold_io(true);
                        ctx.sleep_ms(to - from);
                        ctx.hold_io(false);
                    });
                }
                let mut conn = match open(&ctx, ConnectionOptions::default().heartbeat(if h == 0 { 0 } else if lower_client { h as u16 } else { 600 }).connection_timeout(ctimeout), ConnectionTuning::default()) {
                    Ok(c) => c,
                    Err(e) => {
                        ctx.log(format!("open -> Err({})", err_name(&e)));
                        return;
                    }
                };
                ctx.log(format!("opened at {}", ctx.now_ms()));
                let ch = conn.open_channel(Some(1));
                if dead_peer {
                    ctx.stall_transport();
                }
                for (t, what) in &agenda {
                    let now = ctx.now_ms();
                    if *t > now {
                        ctx.sleep_ms(*t - now);
                    }
                    if *what == "stall" {
                        ctx.stall_transport();
                        continue;
                    }
                    if *what == "grant" {
                        ctx.force_grant();
                        continue;
                    }
                    if let Ok(ch) = &ch {
                        let r = ch.basic_publish("", Publish::new(b"tick", "k"));
                        ctx.log(format!("publish@{} -> {}", ctx.now_ms(), res(&r)));
                    }
                }
                let now = ctx.now_ms();
                let until = close_at.unwrap_or(horizon_ms);
                if until > now {
                    ctx.sleep_ms(until - now);
                }
                ctx.forget(ch);
                let r = conn.close();
                ctx.log(format!("close@{} -> {}", ctx.now_ms(), res(&r)));
            }),
        }
    }
    fn check(&self, p: &Value, o: &Outcome, _w: &World) -> Vec<(String, String)> {
        let mut v = Vec::new();
        let h = p["h"].as_u64().unwrap();
        let main = o.logs.get("main").cloned().unwrap_or_default();
        let close = main.iter().find(|l| l.starts_with("close@")).cloned();
        let close_res = close.as_ref().and_then(|l| l.split_once(" -> ").map(|x| x.1.to_string()));
        let (envs, _) = wire_frames(o);
        let n_hb = envs.iter().filter(|e| e.ty == 8).count();
        if h == 0 {
            if n_hb != 0 {
                v.push(("hb:sent-with-h0".into(), format!("{} heartbeat frames written although heartbeats are off", n_hb)));
            }
            if close_res.as_deref() != Some("Ok") {
                v.push(("hb:h0-not-alive".into(), format!("after 10^6 s of silence close returned {:?}", close_res)));
            }
            return v;
        }
        let hn = h * 1000 * MS;
        let g = 10 * MS;
        let horizon = 6 * hn;
        // when did the handshake finish (heartbeats start at Tune)? first read that completed it: use time 0
        let start = 0u64;
        let died = o.io_exit_time_ns.filter(|t| *t < horizon);
        let alive_until = died.unwrap_or(horizon);
        // --- server liveness: reference
        // (built from the client's own reads; where the I/O thread is kept from running for a
        // while, from the instants the server's bytes arrived - "receives no byte for 2h" is about
        // what arrives, not about when the client gets round to reading it)
        let rx_times: Vec<(u64, usize)> = if p["hold"].is_array() {
            let open_delay = p["open_delay_ms"].as_u64().unwrap_or(0);
            let mut v: Vec<(u64, usize)> = vec![(open_delay * MS, 1)];
            v.extend(p["server"].as_array().unwrap().iter().map(|ev| (ev[0].as_u64().unwrap().max(open_delay) * MS, 1)));
            // (what the scripted server sends in reply to the client - read at some instant -
            // arrived no later than that)
            v.extend(o.read_times.iter().cloned());
            v.retain(|(t, _)| *t <= horizon);
            v.sort();
            v
        } else {
            o.read_times.clone()
        };
        let mut last_rx = start;
        let mut expect_death: Option<u64> = None;
        for (t, _) in rx_times.iter() {
            if *t > last_rx + 2 * hn {
                expect_death = Some(last_rx + 2 * hn);
                break;
            }
            if *t >= last_rx {
                last_rx = *t;
            }
        }
        if expect_death.is_none() && horizon > last_rx + 2 * hn + g {
            expect_death = Some(last_rx + 2 * hn);
        }
        // (a connection that ends because the server broke the protocol - the client's Close is
        // out, the I/O thread does not wait for an answer - was not declared dead for silence)
        let bad_at = p["server"].as_array().unwrap().iter().find(|ev| ev[1] == "bad").map(|ev| ev[0].as_u64().unwrap() * MS);
        let ended_by_exception = match (bad_at, died) {
            (Some(b), Some(d)) => d >= b && p["stall_at"].is_null() && close_res.as_deref() == Some("Err(ClientException)"),
            _ => false,
        };
        match (expect_death, died) {
            _ if ended_by_exception => {}
            (None, Some(d)) => {
                // tolerated only by the 5 ms fudge: silence of at least 2h - 5 ms before d
                let r = rx_times.iter().filter(|(t, _)| *t <= d).map(|(t, _)| *t).max().unwrap_or(start);
                if d - r + 5 * MS < 2 * hn || close_res.as_deref() != Some("Err(MissedServerHeartbeats)") {
                    v.push(("hb:declared-dead-early".into(), format!("connection ended at {} ms ({:?}) although the last inbound byte was read at {} ms (h = {} s)", d / MS, close_res, r / MS, h)));
                }
            }
            (Some(e), None) => v.push(("hb:not-declared-dead".into(), format!("no inbound byte after {} ms for more than 2h = {} s, but the connection was alive at the horizon ({:?})", (e - 2 * hn) / MS, 2 * h, close_res))),
            (Some(e), Some(d)) => {
                if d + 5 * MS < e {
                    v.push(("hb:declared-dead-early".into(), format!("died at {} ms, 2h of silence only complete at {} ms", d / MS, e / MS)));
                }
                // (an I/O thread that was kept from running stamps what it reads when it runs again:
                // "promptly" then includes the time it was held)
                let held = p["hold"].as_array().map(|a| (a[1].as_u64().unwrap() - a[0].as_u64().unwrap()) * MS).unwrap_or(0);
                if d > e + g + held {
                    v.push(("hb:declared-dead-late".into(), format!("died at {} ms, 2h of silence complete at {} ms", d / MS, e / MS)));
                }
                if close_res.as_deref() != Some("Err(MissedServerHeartbeats)") {
                    v.push(("hb:wrong-error".into(), format!("close returned {:?} after missed heartbeats", close_res)));
                }
            }
            // (2h of silence completing exactly at the horizon: the close made at that instant
            // may or may not find the connection dead)
            (None, None) if close_res.as_deref() == Some("Err(MissedServerHeartbeats)") && last_rx + 2 * hn <= horizon + g && o.io_exit_time_ns.map(|t| t + 5 * MS >= last_rx + 2 * hn).unwrap_or(false) => {}
            (None, None) => {
                if close_res.as_deref() != Some("Ok") {
                    v.push(("hb:close".into(), format!("server kept talking but close returned {:?}", close_res)));
                }
            }
        }
        // --- any inbound traffic counts: everything the server sent while the connection was
        // alive was read when it arrived (the reference above is built from the client's reads)
        for ev in p["server"].as_array().unwrap() {
            // (the scripted server sends nothing ahead of a delayed OpenOk)
            let mut t = ev[0].as_u64().unwrap().max(p["open_delay_ms"].as_u64().unwrap_or(0)) * MS;
            // (an I/O thread that is not given the processor reads when it runs again)
            if let Some(hold) = p["hold"].as_array() {
                if t >= hold[0].as_u64().unwrap() * MS && t <= hold[1].as_u64().unwrap() * MS {
                    t = hold[1].as_u64().unwrap() * MS;
                }
            }
            if t + g < alive_until && !o.read_times.iter().any(|(rt, n)| *rt >= t && *rt <= t + g && *n > 0) {
                v.push(("hb:inbound-not-read".into(), format!("the server sent at {} ms but the client did not read then (reads at {:?} ms)", t / MS, o.read_times.iter().map(|(t, _)| t / MS).collect::<Vec<_>>())));
                break;
            }
        }
        // --- client sends something at least every h while alive (if the peer takes it)
        if p["dead_peer"] == true {
            return v;
        }
        // windows in which the client could not write: the peer did not take anything, or the I/O
        // thread was not given the processor. A write that fell due inside one is due at its end.
        let mut excused: Vec<(u64, u64)> = Vec::new();
        if let (Some(a), Some(b)) = (p["stall_at"].as_u64(), p["grant_at"].as_u64()) {
            excused.push((a * MS, b * MS));
        }
        if let Some(hold) = p["hold"].as_array() {
            excused.push((hold[0].as_u64().unwrap() * MS, hold[1].as_u64().unwrap() * MS));
        }
        let mut last_w = start;
        for (t, _) in o.write_times.iter() {
            if *t > alive_until {
                break;
            }
            let due = last_w + hn;
            let due = excused.iter().find(|(a, b)| due + g >= *a && due <= *b).map(|(_, b)| *b).unwrap_or(due);
            if *t > due + g {
                v.push(("hb:client-silent-too-long".into(), format!("no client byte between {} ms and {} ms (h = {} s)", last_w / MS, t / MS, h)));
                break;
            }
            last_w = (*t).max(last_w);
        }
        // (once the client's Connection.Close is out, that is the last frame it ever writes - C08 -
        // so the obligation to keep sending ends there)
        let alive_until = match p["close_at"].as_u64() {
            Some(c) => alive_until.min(c * MS),
            None => alive_until,
        };
        // (the same holds for the Connection.Close that answers a protocol violation)
        let alive_until = match p["server"].as_array().unwrap().iter().find(|ev| ev[1] == "bad") {
            Some(ev) => alive_until.min(ev[0].as_u64().unwrap() * MS),
            None => alive_until,
        };
        if alive_until > last_w + hn + g {
            v.push(("hb:client-silent-too-long".into(), format!("no client byte after {} ms although alive until {} ms (h = {} s)", last_w / MS, alive_until / MS, h)));
        }
        v
    }
}

// -----------------------------------------------------------------------------------------

pub struct Throttle;

impl Scenario for Throttle {
    fn name(&self) -> &'static str {
        "throttle"
    }
    fn property(&self) -> &'static str {
        "C18"
    }
    fn variants(&self, tier: &str) -> Vec<Value> {
        let mut v = Vec::new();
        let tunings = [(1usize, 64usize, 0usize), (2, 64, 32), (1, 0, 0), (16, 128, 0), (0, 64, 0)];
        let stalls: Vec<usize> = if tier == "thorough" { vec![0, 150, 260, 330, 500] } else { vec![260, 330] };
        for (b, hi, lo) in tunings {
            for s in &stalls {
                if tier != "thorough" && *s == 330 && b != 1 {
                    continue;
                }
                v.push(json!({"bound": b, "high": hi, "low": lo, "stall": s, "grants": if tier == "thorough" { json!([1, 31, 33]) } else { json!([33]) }}));
            }
        }
        // only the high-water mark is set (the documented default low-water mark, 0, stays)
        v.push(json!({"bound": 1, "high": 64, "low": null, "stall": 260, "grants": [33]}));
        v.push(json!({"bound": 16, "high": 128, "low": null, "stall": 260, "grants": [33]}));
        // the server closes channel 1 while the channels are held back, and the id is opened again
        // at once (under back-pressure); the other publisher and the connection are not affected
        v.push(json!({"bound": 16, "high": 128, "low": 0, "stall": 300, "grants": [33], "srvclose": true}));
        v.push(json!({"bound": 1, "high": 64, "low": 0, "stall": 330, "grants": [33], "srvclose": true}));
        // a pile-up: while the transport is not taking anything (a nowait call waits in the
        // output buffer) the I/O thread is not scheduled; both publishers hand over everything
        // they have, the transport becomes writable again, and the I/O thread then finds channel 1,
        // channel 2 and the transport ready in one wake-up, in that order (and with the channels
        // the other way round)
        v.push(json!({"bound": 16, "high": 128, "low": 0, "stall": 100000, "grants": [33], "pileup": [1, 2]}));
        v.push(json!({"bound": 16, "high": 128, "low": 0, "stall": 100000, "grants": [33], "pileup": [2, 1]}));
        v.push(json!({"bound": 16, "high": 300, "low": 100, "stall": 100000, "grants": [33], "pileup": [1, 2]}));
        // a backlog of megabytes (six messages of 400 000 bytes behind the stall, default-sized
        // high-water mark) that the transport then takes in one go
        v.push(json!({"bound": 16, "high": 16777216, "low": 0, "stall": 260, "grants": [], "body": 400000}));
        // the connection is closed while the backlog is still buffered and the transport takes it in
        // small grants: everything accepted before the close still goes out once, then the Close
        // (high-water mark out of reach: a channel that is throttled when the connection is closed
        // may have accepted messages the I/O thread never takes - the close goes through channel 0,
        // which is always served; what C18 promises about a close in that state is not clear)
        v.push(json!({"bound": 16, "high": 100000, "low": 0, "stall": 260, "grants": [33], "close_behind": true}));
        v.push(json!({"bound": 1, "high": 100000, "low": 0, "stall": 330, "grants": [33], "close_behind": true}));
        v.push(json!({"bound": 16, "high": 128, "low": 0, "stall": 260, "grants": [33], "close_behind": true}));
        // ... and the close meets channels that are being held back: the second publisher hands
        // its messages over while the first one's are stuck above the high-water mark, and the
        // connection is closed straight away
        v.push(json!({"bound": 16, "high": 128, "low": 0, "stall": 260, "grants": [33], "close_behind": true, "late_p2": true}));
        // ... and the transport takes everything again just before: "writable" and the close
        // request are found in one wake-up, the buffer is empty when the close is taken but the
        // channels have not been listened to again yet
        v.push(json!({"bound": 16, "high": 128, "low": 0, "stall": 260, "grants": [33], "close_behind": true, "late_p2": true, "grant_then_close": true}));
        // fine mode: publishers may refill their queues while the I/O thread is draining them
        v.push(json!({"bound": 1, "high": 64, "low": 0, "stall": 260, "grants": [33], "fine": true}));
        // ... with the high-water mark out of reach: no throttle cycle re-registers the queues, a
        // queue that is left non-empty at the end of a wake-up is never looked at again
        v.push(json!({"bound": 2, "high": 100000, "low": 0, "stall": 260, "grants": [33], "fine": true}));
        if tier == "thorough" {
            v.push(json!({"bound": 2, "high": 64, "low": 32, "stall": 260, "grants": [33], "fine": true}));
            v.push(json!({"bound": 3, "high": 100000, "low": 0, "stall": 260, "grants": [33], "fine": true}));
        }
        v
    }
    fn bound(&self, tier: &str, p: &Value) -> usize {
        if p["fine"] == true {
            // (out-of-reach high-water mark: no throttle cycles, the space is small enough for one more)
            let deep = p["high"].as_u64().unwrap_or(0) >= 100000;
            return if tier == "thorough" { 2 + deep as usize } else { 1 + deep as usize };
        }
        let key = p["bound"] == 1 && p["high"] == 64 && p["stall"] == 260;
        match (tier == "thorough", key) {
            (true, true) => 3,
            (true, false) => 2,
            (false, true) => 2,
            (false, false) => 1,
        }
    }
    fn describe(&self) -> String {
        "two publisher threads (three publishes of 40-byte bodies each) plus the connection thread opening and closing a third channel, over a transport that stalls after 0 / 260 / 330 (thorough also 150 / 500) bytes and is re-opened in grants of 1, 31, 33 or all bytes; tunings (bound, high, low) in {(1,64,0),(2,64,32),(1,0,0),(16,128,0),(0,64,0)}. Oracle: at every poll gate the buffered output is at most high + channels*(bound+1)*largest message + 64; nobody deadlocks; the wire carries every message exactly once in per-channel order".into()
    }
    fn build(&self, p: &Value) -> Built {
        let mut broker = StdBroker::new(Handshake::default());
        let srvclose = p["srvclose"] == true;
        if srvclose {
            broker.pushes.push(vh::sim::broker::Push::new("sc1", vec![chan_close_frame(1, 406, "PRECONDITION_FAILED")]).manual());
        }
        let mut cfg = EnvConfig::default();
        cfg.stall_after = Some(p["stall"].as_u64().unwrap() as usize);
        cfg.grant_menu = p["grants"].as_array().unwrap().iter().map(|x| x.as_u64().unwrap() as usize).collect();
        cfg.fine = p["fine"] == true;
        if cfg.fine {
            cfg.max_steps = 20000;
        }
        let body_len = p["body"].as_u64().unwrap_or(40) as usize;
        if body_len > 100000 {
            // no call takes more than 64 KiB, but the calls never meet would-block once granted
            cfg.write_chunk = Some(65536);
        }
        if srvclose {
            // only the session itself lets the transport take bytes again
            cfg.no_grants = true;
        }
        let pileup: Option<Vec<u16>> = p["pileup"].as_array().map(|a| a.iter().map(|x| x.as_u64().unwrap() as u16).collect());
        if pileup.is_some() {
            cfg.no_grants = true;
        }
        let late_p2 = p["late_p2"] == true;
        let grant_then_close = p["grant_then_close"] == true;
        let close_behind = p["close_behind"] == true;
        if close_behind {
            // the peer trickles: 33 bytes at a time, to the end
            cfg.no_grant_all = true;
            cfg.max_steps = 20000;
        }
        let mut tuning = ConnectionTuning::default().mem_channel_bound(p["bound"].as_u64().unwrap() as usize).buffered_writes_high_water(p["high"].as_u64().unwrap() as usize);
        // ("low": null - only the high-water mark is set, the low-water mark keeps its default)
        if let Some(lo) = p["low"].as_u64() {
            tuning = tuning.buffered_writes_low_water(lo as usize);
        }
        Built {
            broker: Box::new(broker),
            cfg,
            root: Box::new(move |ctx: Ctx| {
                let mut conn = match open(&ctx, ConnectionOptions::default().heartbeat(0), tuning) {
                    Ok(c) => c,
                    Err(e) => {
                        ctx.log(format!("open -> Err({})", err_name(&e)));
                        return;
                    }
                };
                let mut actors = Vec::new();
                if let Some(order) = &pileup {
                    let mut chans: Vec<Option<amiquip::Channel>> = (1..=3u16).map(|c| conn.open_channel(Some(c)).ok()).collect();
                    let c3 = chans[2].take();
                    ctx.wait_io_quiet();
                    ctx.stall_transport();
                    if let Some(c3) = &c3 {
                        let r = c3.queue_bind_nowait("q", "ex", "k", Default::default());
                        ctx.log(format!("bind3 -> {}", res(&r)));
                    }
                    ctx.wait_io_quiet();
                    ctx.hold_io(true);
                    for chan in order {
                        let ch = match chans[*chan as usize - 1].take() {
                            Some(c) => c,
                            None => continue,
                        };
                        let chan = *chan;
                        let a = ctx.spawn(&format!("p{}", chan), move |ctx| {
                            for i in 0..3u8 {
                                let body = vec![chan as u8 * 16 + i; body_len];
                                let r = ch.basic_publish("ex", Publish::new(&body, "k"));
                                ctx.log(format!("publish{} -> {}", i, res(&r)));
                            }
                            let r = ch.close();
                            ctx.log(format!("chclose -> {}", res(&r)));
                        });
                        ctx.wait_blocked(a);
                        actors.push(a);
                    }
                    ctx.force_grant();
                    ctx.hold_io(false);
                    if let Some(c3) = c3 {
                        let r = c3.qos(0, 3, false);
                        ctx.log(format!("qos3 -> {}", res(&r)));
                        let r = c3.close();
                        ctx.log(format!("close3 -> {}", res(&r)));
                    }
                    for a in actors {
                        ctx.join(a);
                    }
                    let r = conn.close();
                    ctx.log(format!("close -> {}", res(&r)));
                    return;
                }
                // (srvclose: both channels exist before the publishers stall the transport)
                let mut pre: Vec<Option<amiquip::Channel>> = Vec::new();
                if srvclose {
                    for chan in 1..=2u16 {
                        pre.push(conn.open_channel(Some(chan)).ok());
                    }
                }
                for chan in 1..=2u16 {
                    let opened = if srvclose { pre[chan as usize - 1].take().ok_or(amiquip::Error::EventLoopDropped) } else { conn.open_channel(Some(chan)) };
                    let ch = match opened {
                        Ok(c) => c,
                        Err(e) => {
                            ctx.log(format!("open_channel{} -> Err({})", chan, err_name(&e)));
                            continue;
                        }
                    };
                    actors.push(ctx.spawn(&format!("p{}", chan), move |ctx| {
                        if late_p2 && chan == 2 {
                            ctx.wait_io_quiet();
                        }
                        for i in 0..3u8 {
                            let body = vec![chan as u8 * 16 + i; body_len];
                            let r = ch.basic_publish("ex", Publish::new(&body, "k"));
                            ctx.log(format!("publish{} -> {}", i, res(&r)));
                        }
                        if close_behind || (srvclose && chan == 1) {
                            ctx.forget(ch);
                            ctx.log("chclose -> skipped -> Ok");
                            return;
                        }
                        let r = ch.close();
                        ctx.log(format!("chclose -> {}", res(&r)));
                    }));
                }
                if srvclose {
                    // a helper lets the stalled transport go on once this thread is stuck in the
                    // reopening (whose OpenOk cannot arrive while nothing is written)
                    let me = ctx.me();
                    let (go_tx, go_rx) = crossbeam_channel::bounded::<()>(1);
                    let g = ctx.spawn("g", move |ctx| {
                        let _ = ctx.recv("go", &go_rx);
                        ctx.wait_blocked(me);
                        ctx.force_grant();
                    });
                    actors.push(g);
                    ctx.wait_io_quiet();
                    let pushed = ctx.force_push("sc1");
                    let _ = go_tx.send(());
                    let r = conn.open_channel(Some(1));
                    ctx.log(format!("reopen1 (server close pushed {}) -> {:?}", pushed, r.as_ref().map(|c| c.channel_id()).map_err(err_name)));
                    if let Ok(c) = r {
                        let r = c.qos(0, 1, false);
                        ctx.log(format!("reqos1 -> {}", res(&r)));
                        let r = c.close();
                        ctx.log(format!("reclose1 -> {}", res(&r)));
                    }
                }
                if late_p2 {
                    for a in actors {
                        ctx.join(a);
                    }
                    if grant_then_close {
                        ctx.hold_io(true);
                        ctx.force_grant();
                        let me = ctx.me();
                        ctx.spawn("release", move |ctx| {
                            ctx.wait_blocked(me);
                            ctx.hold_io(false);
                        });
                    }
                    let r = conn.close();
                    ctx.log(format!("close -> {}", res(&r)));
                    return;
                }
                // a channel opened and closed while the others are (possibly) throttled
                let c3 = conn.open_channel(Some(3));
                ctx.log(format!("open3 -> {}", res(&c3)));
                if let Ok(c3) = c3 {
                    let r = c3.qos(0, 3, false);
                    ctx.log(format!("qos3 -> {}", res(&r)));
                    let r = c3.close();
                    ctx.log(format!("close3 -> {}", res(&r)));
                }
                for a in actors {
                    ctx.join(a);
                }
                let r = conn.close();
                ctx.log(format!("close -> {}", res(&r)));
            }),
        }
    }
    fn check(&self, p: &Value, o: &Outcome, _w: &World) -> Vec<(String, String)> {
        let mut v = Vec::new();
        let bound = (p["bound"].as_u64().unwrap() as usize).max(1);
        let high = p["high"].as_u64().unwrap() as usize;
        // (one queue entry is one whole message since fix 7cfc22c: method + header + body, 91 bytes here)
        let body_len = p["body"].as_u64().unwrap_or(40) as usize;
        let limit = high + 3 * (bound + 1) * (body_len + 56 + 8 * (body_len / 4000)) + 64;
        if o.max_outbuf > limit {
            v.push(("throttle:buffer-unbounded".into(), format!("buffered output reached {} bytes at a poll gate; bound for this tuning is {} (high {} + 3 channels x (bound {}+1) x 96 + 64)", o.max_outbuf, limit, high, bound)));
        }
        // the throttle itself, read off the I/O thread's own log: after a poll gate with more
        // than `high` bytes buffered, nothing is taken from the queue of any channel but channel
        // 0 before the next gate (that is what bounds the buffer and blocks the publishers).
        // Where between `low` and `high` the channels are served again is left to the client;
        // that they are served again is the absence of a deadlock.
        {
            use amiquip::verif::ChanKind;
            use vh::sim::world::IoEvent;
            // (One exception: the wake-up in which the connection's close request is taken. What
            // the channels had handed over before may be fetched then, ahead of the Close - the
            // buffer bound above covers it.)
            let mut above = false;
            let mut pending: Option<u16> = None;
            for e in o.io_events.iter().chain(std::iter::once(&IoEvent::Gate { outbuf_len: 0, sealed: false, n_slots: 0 })) {
                match e {
                    IoEvent::Gate { outbuf_len, .. } => {
                        if let Some(channel_id) = pending {
                            v.push(("throttle:served-above-high-water".into(), format!("the I/O thread took a message from channel {} in a wake-up that started with more than the high-water mark ({}) buffered", channel_id, high)));
                            break;
                        }
                        above = *outbuf_len > high;
                    }
                    IoEvent::Recv { msg: amiquip::verif::MsgKind::ConnectionClose { .. }, .. } => {
                        pending = None;
                        above = false;
                    }
                    IoEvent::Recv { channel_id, kind: ChanKind::Main, .. } if *channel_id != 0 && above && pending.is_none() => pending = Some(*channel_id),
                    _ => {}
                }
            }
        }
        let (envs, rest) = wire_frames(o);
        if rest != 0 {
            v.push(("throttle:partial-frame".into(), format!("{} trailing bytes", rest)));
        }
        for chan in 1..=2u16 {
            if p["srvclose"] == true && chan == 1 {
                // (the server closed this channel under the publisher's feet: its calls may fail, what
                // it had handed over may or may not have been written)
                continue;
            }
            let log = o.logs.get(&format!("p{}", chan)).cloned().unwrap_or_default();
            if log.len() != 4 || log.iter().any(|l| !l.ends_with("-> Ok")) {
                v.push(("throttle:publisher-failed".into(), format!("publisher {} log {:?}", chan, log)));
            }
            let mut want: Vec<String> = vec!["M20.10".into()];
            for i in 0..3u8 {
                want.push("M60.40".into());
                want.push("H".into());
                want.push(format!("B{}x{}", chan as u8 * 16 + i, body_len));
            }
            if p["close_behind"] != true {
                want.push("M20.40".into());
            }
            let got0: Vec<String> = envs
                .iter()
                .filter(|e| e.chan == chan)
                .map(|e| match e.ty {
                    1 => format!("M{}.{}", u16::from_be_bytes([e.payload[0], e.payload[1]]), u16::from_be_bytes([e.payload[2], e.payload[3]])),
                    2 => "H".to_string(),
                    3 => {
                        if e.payload.iter().all(|b| *b == e.payload[0]) {
                            format!("B{}x{}", e.payload[0], e.payload.len())
                        } else {
                            "B?".to_string()
                        }
                    }
                    t => format!("T{}", t),
                })
                .collect();
            // (a body larger than frame_max comes in several frames: merged)
            let mut got: Vec<String> = Vec::new();
            for g in got0 {
                let merged = match (got.last(), g.strip_prefix('B').and_then(|x| x.split_once('x'))) {
                    (Some(last), Some((byte, len))) if last.starts_with('B') && last[1..].split_once('x').map(|(b, _)| b == byte).unwrap_or(false) => {
                        let (b, l) = last[1..].split_once('x').unwrap();
                        Some(format!("B{}x{}", b, l.parse::<usize>().unwrap_or(0) + len.parse::<usize>().unwrap_or(0)))
                    }
                    _ => None,
                };
                match merged {
                    Some(m) => *got.last_mut().unwrap() = m,
                    None => got.push(g),
                }
            }
            if got != want {
                v.push(("throttle:messages-lost-or-reordered".into(), format!("channel {} frames {:?} expected {:?}", chan, got, want)));
            }
        }
        let main = o.logs.get("main").cloned().unwrap_or_default();
        let mut want_main = vec!["open3 -> Ok", "qos3 -> Ok", "close3 -> Ok", "close -> Ok"];
        if p["pileup"].is_array() {
            want_main[0] = "bind3 -> Ok";
        }
        if p["late_p2"] == true {
            want_main = vec!["close -> Ok"];
        }
        if p["srvclose"] == true {
            want_main.splice(0..0, ["reopen1 (server close pushed true) -> Ok(1)", "reqos1 -> Ok", "reclose1 -> Ok"]);
        }
        if main != want_main {
            v.push(("throttle:connection-thread".into(), format!("main log {:?}", main)));
        }
        v
    }
}

// -----------------------------------------------------------------------------------------
// C15 (E2 part): the connection behaves by exactly the negotiated values

pub struct Tuned;

fn neg16(a: u16, b: u16) -> u16 {
    match (a, b) {
        (0, 0) => u16::MAX,
        (0, x) | (x, 0) => x,
        (a, b) => a.min(b),
    }
}
fn neg32(a: u32, b: u32) -> u32 {
    match (a, b) {
        (0, 0) => u32::MAX,
        (0, x) | (x, 0) => x,
        (a, b) => a.min(b),
    }
}

impl Scenario for Tuned {
    fn name(&self) -> &'static str {
        "tuned"
    }
    fn property(&self) -> &'static str {
        "C15"
    }
    fn variants(&self, tier: &str) -> Vec<Value> {
        // (client channel_max, frame_max, heartbeat) x (server ...)
        let mut pairs = vec![
            ((0u16, 0u32, 60u16), (3u16, 4096u32, 1u16)),
            ((2, 8192, 1), (0, 0, 60)),
            ((5, 4096, 2), (2, 8192, 1)),
            ((2, 4097, 3), (5, 4096, 0)),
            ((0, 0, 0), (4, 8192, 2)),
            ((3, 0, 1), (3, 0, 1)),
            ((1, 4096, 2), (65535, 131072, 3)),
            ((0, 4095, 1), (0, 8192, 1)),
            ((7, 8192, 1), (7, 4095, 1)),
            // intervals whose double does not fit 16 bits
            ((3, 4096, 40000), (5, 4096, 32769)),
        ];
        if tier == "thorough" {
            pairs.extend([((65535, u32::MAX, 65535), (2, 4096, 1)), ((2, 4096, 1), (65535, u32::MAX, 65535)), ((0, 131072, 1), (3, 0, 2)), ((4, 0, 2), (0, 4104, 0))]);
        }
        let mut v: Vec<Value> = pairs.into_iter().map(|(c, s)| json!({"client": [c.0, c.1, c.2], "server": [s.0, s.1, s.2]})).collect();
        // the server falls silent: it is declared dead after twice the *announced* interval,
        // whichever side asked for the lower value
        v.push(json!({"client": [0, 0, 60], "server": [3, 4096, 1], "silent": true}));
        v.push(json!({"client": [2, 8192, 2], "server": [0, 0, 60], "silent": true}));
        // ... also when the silence begins with the client's own Connection.Close (never answered):
        // the close is given up after twice the interval
        v.push(json!({"client": [0, 0, 60], "server": [3, 4096, 1], "silent": true, "close_at_once": true}));
        // the server takes one and a half announced intervals between TuneOk and OpenOk: the
        // interval is in force from TuneOk on, and still is once the connection is open
        v.push(json!({"client": [0, 0, 60], "server": [3, 4096, 1], "slow_open": true}));
        v.push(json!({"client": [2, 8192, 2], "server": [0, 0, 60], "slow_open": true}));
        v
    }
    fn bound(&self, tier: &str, _p: &Value) -> usize {
        if tier == "thorough" {
            1
        } else {
            0
        }
    }
    fn describe(&self) -> String {
        "pairs of client options and server Tune (limits on either side, 0 = unlimited on either side, values above/below each other, a frame_max below the floor): the TuneOk on the wire must carry the negotiated values (or the attempt fails with FrameMaxTooSmall and no TuneOk); then the connection must behave by them: open_channel(Some(channel_max)) works and Some(channel_max+1) is refused, a body of three payload limits is split into frames of at most frame_max bytes, and over three negotiated heartbeat intervals of idleness (virtual time, the server keeps talking) the client sends something at least every interval - or nothing at all when the negotiated interval is 0".into()
    }
    fn build(&self, p: &Value) -> Built {
        let c: Vec<u64> = p["client"].as_array().unwrap().iter().map(|x| x.as_u64().unwrap()).collect();
        let s: Vec<u64> = p["server"].as_array().unwrap().iter().map(|x| x.as_u64().unwrap()).collect();
        let mut hs = Handshake::default();
        hs.tune = (s[0] as u16, s[1] as u32, s[2] as u16);
        let hb = (c[2] as u16).min(s[2] as u16) as u64;
        let delay = if p["slow_open"] == true { hb * 1500 } else { 0 }; // ms
        hs.open_ok_delay_ns = delay * MS;
        let mut broker = StdBroker::new(hs);
        // the server keeps talking so that it is never declared dead
        let hbf = frame_bytes(&amq_protocol::frame::AMQPFrame::Heartbeat(0));
        if hb > 0 && p["silent"] != true {
            // ... one byte at a time (every 0.45 of the announced interval): a whole frame takes
            // 3.6 intervals, every byte counts as a sign of life. The frame in progress is finished
            // just before the client's close so that the reply does not land inside it.
            let end = 3 * hb * 1000 + 150;
            let mut n = 0usize;
            let mut i = 1u64;
            while i * hb * 450 < end - 50 {
                broker.timed.push_back(((delay + i * hb * 450) * MS, vec![hbf[n % 8]]));
                n += 1;
                i += 1;
            }
            if n % 8 != 0 {
                broker.timed.push_back(((delay + end) * MS, (n % 8..8).map(|k| hbf[k]).collect()));
            }
        }
        let close_at_once = p["close_at_once"] == true;
        if close_at_once {
            broker.close_behaviour = vh::sim::broker::CloseBehaviour::Silent;
        }
        let mut cfg = EnvConfig::default();
        cfg.horizon_ns = 400_000 * 1000 * MS;
        let chmax = neg16(c[0] as u16, s[0] as u16);
        if chmax <= 8 {
            let cok = |n: u16| amq_protocol::frame::AMQPFrame::Method(n, amq_protocol::protocol::AMQPClass::Channel(amq_protocol::protocol::channel::AMQPMethod::CloseOk(amq_protocol::protocol::channel::CloseOk {})));
            broker.pushes.push(vh::sim::broker::Push::new("stray", vec![cok(chmax + 1), cok(40000)]).manual());
        }
        let fmax = neg32(c[1] as u32, s[1] as u32);
        let (c0, c1, c2) = (c[0] as u16, c[1] as u32, c[2] as u16);
        Built {
            broker: Box::new(broker),
            cfg,
            root: Box::new(move |ctx: Ctx| {
                let options = ConnectionOptions::default().channel_max(c0).frame_max(c1).heartbeat(c2);
                let mut conn = match open(&ctx, options, ConnectionTuning::default()) {
                    Ok(c) => c,
                    Err(e) => {
                        ctx.log(format!("open -> Err({})", err_name(&e)));
                        return;
                    }
                };
                ctx.log("open -> Ok");
                let top = conn.open_channel(Some(chmax));
                ctx.log(format!("open_channel(max) -> {:?}", top.as_ref().map(|c| c.channel_id()).map_err(err_name)));
                if chmax < u16::MAX {
                    let over = conn.open_channel(Some(chmax + 1));
                    ctx.log(format!("open_channel(max+1) -> {:?}", over.as_ref().map(|c| c.channel_id()).map_err(err_name)));
                }
                if let (Ok(ch), true) = (&top, chmax <= 8) {
                    // stray Channel.CloseOk frames for ids above the limit (the client ignores a
                    // CloseOk for a channel it does not know) must not make such ids available
                    let pushed = ctx.force_push("stray");
                    let r = ch.queue_purge("q");
                    let mut got = Vec::new();
                    let mut held = Vec::new();
                    let last = loop {
                        match conn.open_channel(None) {
                            Ok(c) => {
                                got.push(c.channel_id());
                                held.push(c);
                            }
                            Err(e) => break err_name(&e),
                        }
                        if got.len() > 20 {
                            break "still going".to_string();
                        }
                    };
                    ctx.log(format!("fill (stray pushed {}, call {:?}) -> {:?} then {}", pushed, r.map_err(|e| err_name(&e)).is_ok(), got, last));
                    for c in held {
                        let _ = c.close();
                    }
                }
                if let Ok(ch) = &top {
                    // bodies of exactly two and three payload limits (no frame may carry a byte
                    // more than the limit) and of three limits plus one byte
                    let payload = (fmax as usize).min(9000).saturating_sub(8);
                    for len in [2 * payload, 3 * payload, 3 * payload + 1] {
                        let body = vec![7u8; len];
                        let r = ch.basic_publish("", Publish::new(&body, "k"));
                        ctx.log(format!("publish({}) -> {}", body.len(), res(&r)));
                    }
                }
                let t0 = ctx.now_ms();
                ctx.log(format!("idle from {}", t0));
                let idle = if hb > 0 { 3 * hb * 1000 + 200 } else { 200_000 };
                if !close_at_once {
                    ctx.sleep_ms(idle);
                }
                ctx.log(format!("idle until {}", ctx.now_ms()));
                ctx.forget(top);
                let r = conn.close();
                ctx.log(format!("close -> {}", res(&r)));
            }),
        }
    }
    fn check(&self, p: &Value, o: &Outcome, _w: &World) -> Vec<(String, String)> {
        use amq_protocol::frame::AMQPFrame;
        use amq_protocol::protocol::{connection as pc, AMQPClass};
        let mut v = Vec::new();
        let c: Vec<u64> = p["client"].as_array().unwrap().iter().map(|x| x.as_u64().unwrap()).collect();
        let s: Vec<u64> = p["server"].as_array().unwrap().iter().map(|x| x.as_u64().unwrap()).collect();
        let chmax = neg16(c[0] as u16, s[0] as u16);
        let fmax = neg32(c[1] as u32, s[1] as u32);
        let hb = (c[2] as u16).min(s[2] as u16);
        let main = o.logs.get("main").cloned().unwrap_or_default();
        let (envs, _) = wire_frames(o);
        let tune_ok = envs.iter().find_map(|e| match e.decode() {
            Some(AMQPFrame::Method(0, AMQPClass::Connection(pc::AMQPMethod::TuneOk(t)))) => Some(t),
            _ => None,
        });
        if fmax < 4096 {
            if main != vec!["open -> Err(FrameMaxTooSmall)".to_string()] || tune_ok.is_some() {
                v.push(("tuned:frame-max-floor".into(), format!("negotiated frame_max {} is below 4096: log {:?}, TuneOk on the wire: {:?}", fmax, main, tune_ok)));
            }
            return v;
        }
        match &tune_ok {
            None => v.push(("tuned:no-tune-ok".into(), format!("{:?}", main))),
            Some(t) => {
                if (t.channel_max, t.frame_max, t.heartbeat) != (chmax, fmax, hb) {
                    v.push(("tuned:tune-ok-values".into(), format!("TuneOk {:?} expected ({}, {}, {})", t, chmax, fmax, hb)));
                }
            }
        }
        if !main.iter().any(|l| *l == format!("open_channel(max) -> Ok({})", chmax)) {
            v.push(("tuned:channel-max-not-usable".into(), format!("{:?}", main)));
        }
        if chmax < u16::MAX && !main.iter().any(|l| *l == format!("open_channel(max+1) -> Err(\"UnavailableChannelId({})\")", chmax + 1)) {
            v.push(("tuned:channel-above-max-accepted".into(), format!("{:?}", main)));
        }
        if chmax <= 8 {
            // every id below the (open) top one is handed out, nothing else, then exhaustion
            let ids: Vec<u16> = (1..chmax).collect();
            let want_a = format!("fill (stray pushed true, call true) -> {:?} then ExhaustedChannelIds", ids);
            match main.iter().find(|l| l.starts_with("fill ")) {
                Some(l) => {
                    let mut sorted: Vec<u16> = l.split("-> [").nth(1).and_then(|x| x.split(']').next()).map(|x| x.split(", ").filter_map(|y| y.parse().ok()).collect()).unwrap_or_default();
                    sorted.sort();
                    let tail_ok = l.ends_with("then ExhaustedChannelIds") && l.starts_with("fill (stray pushed true, call true)");
                    if sorted != ids || !tail_ok {
                        v.push(("tuned:ids-beyond-channel-max".into(), format!("{} expected (in any order) {}", l, want_a)));
                    }
                }
                None => v.push(("tuned:ids-beyond-channel-max".into(), format!("no fill line: {:?}", main))),
            }
        }
        for e in envs.iter().filter(|e| e.ty == 3) {
            if e.wire_len() > fmax as usize {
                v.push(("tuned:frame-above-frame-max".into(), format!("body frame of {} bytes on the wire, negotiated frame_max {}", e.wire_len(), fmax)));
                break;
            }
        }
        if p["silent"] == true {
            let hn = hb as u64 * 1000 * MS;
            let last_read = o.read_times.iter().map(|(t, _)| *t).max().unwrap_or(0);
            let want = last_read + 2 * hn;
            match o.io_exit_time_ns {
                Some(d) if d + 5 * MS >= want && d <= want + 10 * MS => {}
                other => v.push(("tuned:silence-not-by-announced-interval".into(), format!("last inbound byte at {} ms, announced heartbeat {} s: the connection should end at {} ms, ended at {:?} ms", last_read / MS, hb, want / MS, other.map(|d| d / MS)))),
            }
            if main.last().map(|s| s.as_str()) != Some("close -> Err(MissedServerHeartbeats)") {
                v.push(("tuned:close".into(), format!("{:?}", main)));
            }
            return v;
        }
        // heartbeat timing by the announced interval
        let t0 = main.iter().find_map(|l| l.strip_prefix("idle from ").and_then(|x| x.parse::<u64>().ok())).unwrap_or(0) * MS;
        // (slow OpenOk: the interval is in force from the TuneOk, written at time 0, onwards)
        let t0 = if p["slow_open"] == true { 0 } else { t0 };
        let t1 = main.iter().find_map(|l| l.strip_prefix("idle until ").and_then(|x| x.parse::<u64>().ok())).unwrap_or(0) * MS;
        let n_hb = envs.iter().filter(|e| e.ty == 8).count();
        if hb == 0 {
            if n_hb > 0 {
                v.push(("tuned:heartbeats-although-disabled".into(), format!("{} heartbeat frames written, negotiated interval 0", n_hb)));
            }
        } else {
            let hn = hb as u64 * 1000 * MS;
            let mut last = t0;
            for (t, _) in o.write_times.iter().filter(|(t, _)| *t >= t0 && *t <= t1) {
                if *t > last + hn + 10 * MS {
                    v.push(("tuned:heartbeat-interval".into(), format!("idle client silent from {} ms to {} ms, negotiated heartbeat {} s", last / MS, t / MS, hb)));
                    break;
                }
                last = *t;
            }
            if t1 > last + hn + 10 * MS {
                v.push(("tuned:heartbeat-interval".into(), format!("idle client silent from {} ms to {} ms, negotiated heartbeat {} s", last / MS, t1 / MS, hb)));
            }
        }
        if main.last().map(|s| s.as_str()) != Some("close -> Ok") {
            v.push(("tuned:close".into(), format!("{:?}", main)));
        }
        v
    }
}
