//! E2 parts of C03 (inbound), C11 (consumer), C13 (listeners), C07 (violations slice).
use crate::scenarios::*;
use amiquip::{AmqpProperties, Channel, ConnectionOptions, ConnectionTuning, ConsumerMessage, ConsumerOptions, Publish};
use amq_protocol::frame::{AMQPContentHeader, AMQPFrame};
use amq_protocol::protocol::{basic, channel as pchannel, connection as pconnection, tx, AMQPClass};
use serde_json::{json, Value};
use vh::sim::broker::{Handshake, Push, StdBroker};
use vh::sim::explore::{Built, Ctx, Scenario};
use vh::sim::world::{EnvConfig, IoEvent, Outcome, World};

fn deliver(ch: u16, tag: &str, dtag: u64) -> AMQPFrame {
    AMQPFrame::Method(ch, AMQPClass::Basic(basic::AMQPMethod::Deliver(basic::Deliver { consumer_tag: tag.into(), delivery_tag: dtag, redelivered: dtag % 2 == 0, exchange: format!("ex{}", dtag), routing_key: format!("rk{}", dtag) })))
}
fn props_of(with_props: bool) -> AmqpProperties {
    if with_props {
        AmqpProperties::default().with_message_id("m-1".into()).with_delivery_mode(2).with_content_type("text/x".into()).with_priority(3).with_timestamp(77).with_app_id("app".into())
    } else {
        AmqpProperties::default()
    }
}
fn header(ch: u16, size: u64, with_props: bool) -> AMQPFrame {
    let p = props_of(with_props);
    AMQPFrame::Header(ch, 60, Box::new(AMQPContentHeader { class_id: 60, weight: 0, body_size: size, properties: p }))
}
fn body(ch: u16, b: &[u8]) -> AMQPFrame {
    AMQPFrame::Body(ch, b.to_vec())
}
fn show_delivery(d: &amiquip::Delivery) -> String {
    format!("tag={} red={} ex={} rk={} body={:?} props={:?}", d.delivery_tag(), d.redelivered, d.exchange, d.routing_key, d.body, d.properties)
}

/// Push a list of frames one by one, in order (each offered only after the previous one).
fn chain(b: &mut StdBroker, name: &str, frames: Vec<AMQPFrame>, first_after: Option<&str>, when: Option<(u16, u32)>) -> String {
    let mut prev: Option<String> = first_after.map(|s| s.to_string());
    for (i, f) in frames.into_iter().enumerate() {
        let label = format!("{}.{}", name, i);
        let mut p = Push::new(&label, vec![f]);
        if let Some(pl) = &prev {
            p = p.after(pl);
        }
        if let Some((c, n)) = when {
            p = p.when_channel(c, n);
        }
        b.pushes.push(p);
        prev = Some(label);
    }
    prev.unwrap()
}

// -----------------------------------------------------------------------------------------

pub struct Inbound;

impl Scenario for Inbound {
    fn name(&self) -> &'static str {
        "inbound"
    }
    fn property(&self) -> &'static str {
        "C03"
    }
    fn variants(&self, tier: &str) -> Vec<Value> {
        let mut v = vec![json!({"split": [3]}), json!({"split": [1, 2]}), json!({"split": [2, 1]}), json!({"split": [1, 1, 1]})];
        if tier != "thorough" {
            v = vec![json!({"split": [3]}), json!({"split": [1, 1, 1]})];
        }
        v.push(json!({"split": [1, 2], "cuts": 12}));
        // fine mode: the consumer threads run between the I/O thread's individual hand-overs
        v.push(json!({"split": [1, 2], "fine": true}));
        // the channel's topology is set up first, with the nowait variants (queue, exchange,
        // binding): nothing of that may be in the way of what the server sends afterwards
        v.push(json!({"split": [1, 2], "topology": true}));
        // what the server still had in its pipe when the client's Connection.Close reached it (a
        // delivery, a returned message) comes ahead of its CloseOk: it still reaches its addressee
        v.push(json!({"split": [1, 2], "in_pipe_at_close": true}));
        v
    }
    fn bound(&self, tier: &str, p: &Value) -> usize {
        if p["cuts"].is_u64() || p["fine"] == true || p["topology"] == true || p["in_pipe_at_close"] == true {
            return if tier == "thorough" { 2 } else { 1 };
        }
        if tier == "thorough" {
            3
        } else {
            2
        }
    }
    fn describe(&self) -> String {
        "two consumer threads (channel 1: an active consumer, a consumer that never drains its queue, a get and a return listener; channel 2: a consumer); the server sends five messages (bodies of 3 bytes in every partition, 0, 1 and 2 bytes, with and without properties) frame by frame, each channel's frames in order but interleaved across channels in every way the deviation bound allows, with delivery cuts; oracle: every addressee receives exactly its messages, intact (body, properties, exchange, routing key, redelivered, tag, message_count), once, in order".into()
    }
    fn build(&self, p: &Value) -> Built {
        let mut broker = StdBroker::new(Handshake::default());
        let split: Vec<usize> = p["split"].as_array().unwrap().iter().map(|x| x.as_u64().unwrap() as usize).collect();
        broker.get_bodies.push_back(vec![9, 9]);
        // channel 1: consumer tags ctag-1-2 (lazy, never drained) and ctag-1-3 (active); three
        // requests later when the topology is declared first
        let topology = p["topology"] == true;
        let k = if topology { 3 } else { 0 };
        let (lazy_tag, active_tag) = (format!("ctag-1-{}", 2 + k), format!("ctag-1-{}", 3 + k));
        let (lazy_tag, active_tag) = (lazy_tag.as_str(), active_tag.as_str());
        let mut f1 = vec![deliver(1, lazy_tag, 10), header(1, 2, false), body(1, &[5, 5])];
        f1.push(deliver(1, active_tag, 11));
        f1.push(header(1, 3, true));
        let data = [1u8, 2, 3];
        let mut off = 0;
        for s in &split {
            f1.push(body(1, &data[off..off + s]));
            off += s;
        }
        f1.push(deliver(1, active_tag, 12));
        f1.push(header(1, 0, false));
        // a second message for the consumer nobody reads
        f1.push(deliver(1, lazy_tag, 13));
        f1.push(header(1, 0, true));
        f1.push(AMQPFrame::Method(1, AMQPClass::Basic(basic::AMQPMethod::Return(basic::Return { reply_code: 312, reply_text: "NO_ROUTE".into(), exchange: "rex".into(), routing_key: "rrk".into() }))));
        f1.push(header(1, 1, true));
        f1.push(body(1, &[7]));
        chain(&mut broker, "c1", f1, None, Some((1, 3 + k as u32)));
        let f2 = vec![deliver(2, "ctag-2-2", 21), header(2, 1, false), body(2, &[8])];
        chain(&mut broker, "c2", f2, None, Some((2, 2)));
        let mut cfg = EnvConfig::default();
        cfg.deliver_cuts = true;
        cfg.time = false;
        if p["cuts"].is_u64() {
            // many cut positions per delivery (incl. inside the 7-byte frame header)
            cfg.deliver_cut_limit = p["cuts"].as_u64().unwrap() as usize;
        }
        cfg.fine = p["fine"] == true;
        if cfg.fine {
            cfg.max_steps = 20000;
        }
        if p["in_pipe_at_close"] == true {
            let mut broker = StdBroker::new(Handshake::default());
            let mut fs = vec![deliver(1, "ctag-1-2", 11), header(1, 3, true)];
            let data = [1u8, 2, 3];
            let mut off = 0;
            for s in &split {
                fs.push(body(1, &data[off..off + s]));
                off += s;
            }
            fs.push(AMQPFrame::Method(1, AMQPClass::Basic(basic::AMQPMethod::Return(basic::Return { reply_code: 312, reply_text: "NO_ROUTE".into(), exchange: "rex".into(), routing_key: "rrk".into() }))));
            fs.push(header(1, 1, true));
            fs.push(body(1, &[7]));
            broker.close_behaviour = vh::sim::broker::CloseBehaviour::FramesThenCloseOk(fs);
            return Built {
                broker: Box::new(broker),
                cfg,
                root: Box::new(move |ctx: Ctx| {
                    let conn = match open(&ctx, ConnectionOptions::default().heartbeat(0), ConnectionTuning::default()) {
                        Ok(c) => c,
                        Err(e) => {
                            ctx.log(format!("open -> Err({})", err_name(&e)));
                            return;
                        }
                    };
                    let mut conn = conn;
                    let ch = conn.open_channel(Some(1)).expect("ch1");
                    let c = ch.basic_consume("q", ConsumerOptions::default()).expect("consume");
                    let returns = ch.listen_for_returns().expect("listen returns");
                    let rx = c.receiver().clone();
                    std::mem::forget(c);
                    ctx.forget(ch);
                    let r = conn.close();
                    ctx.log(format!("close -> {}", res(&r)));
                    loop {
                        match ctx.recv("consumer", &rx) {
                            Ok(ConsumerMessage::Delivery(d)) => ctx.log(format!("delivery {}", show_delivery(&d))),
                            Ok(m) => ctx.log(format!("consumer <- {}", consumer_msg_name(&m))),
                            Err(_) => break,
                        }
                    }
                    for r in returns.try_iter() {
                        ctx.log(format!("return {} {} ex={} rk={} body={:?} props={:?}", r.reply_code, r.reply_text, r.exchange, r.routing_key, r.content, r.properties));
                    }
                }),
            };
        }
        Built {
            broker: Box::new(broker),
            cfg,
            root: Box::new(move |ctx: Ctx| {
                let mut conn = match open(&ctx, ConnectionOptions::default().heartbeat(0), ConnectionTuning::default()) {
                    Ok(c) => c,
                    Err(e) => {
                        ctx.log(format!("open -> Err({})", err_name(&e)));
                        return;
                    }
                };
                let ch1 = conn.open_channel(Some(1)).expect("ch1");
                let ch2 = conn.open_channel(Some(2)).expect("ch2");
                let a = ctx.spawn("a", move |ctx| {
                    let ch: Channel = ch1;
                    if topology {
                        let r = ch.queue_declare_nowait("q", amiquip::QueueDeclareOptions::default()).map(|_| ());
                        let r = r.and_then(|_| ch.exchange_declare_nowait(amiquip::ExchangeType::Direct, "ex", amiquip::ExchangeDeclareOptions::default()).map(|_| ()));
                        let r = r.and_then(|_| ch.queue_bind_nowait("q", "ex", "rk", Default::default()));
                        if r.is_err() {
                            ctx.log(format!("topology -> {}", res(&r)));
                        }
                    }
                    let lazy = ch.basic_consume("ql", ConsumerOptions::default()).expect("consume lazy");
                    let c = ch.basic_consume("q", ConsumerOptions::default()).expect("consume");
                    let returns = ch.listen_for_returns().expect("listen returns");
                    for _ in 0..2 {
                        match ctx.recv("consumer", c.receiver()) {
                            Ok(ConsumerMessage::Delivery(d)) => ctx.log(format!("delivery {}", show_delivery(&d))),
                            other => ctx.log(format!("unexpected {:?}", other.map(|m| consumer_msg_name(&m)))),
                        }
                    }
                    match ctx.recv("returns", &returns) {
                        Ok(r) => ctx.log(format!("return {} {} ex={} rk={} body={:?} props={:?}", r.reply_code, r.reply_text, r.exchange, r.routing_key, r.content, r.properties)),
                        Err(_) => ctx.log("return listener disconnected"),
                    }
                    match ch.basic_get("gq", true) {
                        Ok(Some(g)) => ctx.log(format!("get count={} {}", g.message_count, show_delivery(&g.delivery))),
                        other => ctx.log(format!("get {:?}", other.map(|g| g.is_some()).map_err(|e| err_name(&e)))),
                    }
                    // the lazy consumer's queue was never touched; its message must be there, once
                    let mut n = 0;
                    while let Ok(m) = lazy.receiver().try_recv() {
                        n += 1;
                        if let ConsumerMessage::Delivery(d) = m {
                            ctx.log(format!("lazy {}", show_delivery(&d)));
                        }
                    }
                    ctx.log(format!("lazy count {}", n));
                    // exactly once: nothing else is waiting in the queues that were read
                    ctx.log(format!("extra consumer={} returns={}", c.receiver().try_iter().count(), returns.try_iter().count()));
                    std::mem::forget(lazy);
                    std::mem::forget(c);
                    let r = ch.close();
                    ctx.log(format!("chclose -> {}", res(&r)));
                });
                let b = ctx.spawn("b", move |ctx| {
                    let ch: Channel = ch2;
                    let c = ch.basic_consume("q2", ConsumerOptions::default()).expect("consume");
                    match ctx.recv("consumer", c.receiver()) {
                        Ok(ConsumerMessage::Delivery(d)) => ctx.log(format!("delivery {}", show_delivery(&d))),
                        other => ctx.log(format!("unexpected {:?}", other.map(|m| consumer_msg_name(&m)))),
                    }
                    ctx.log(format!("extra consumer={}", c.receiver().try_iter().count()));
                    std::mem::forget(c);
                    let r = ch.close();
                    ctx.log(format!("chclose -> {}", res(&r)));
                });
                ctx.join(a);
                ctx.join(b);
                let r = conn.close();
                ctx.log(format!("close -> {}", res(&r)));
            }),
        }
    }
    fn check(&self, p: &Value, o: &Outcome, _w: &World) -> Vec<(String, String)> {
        let mut v = Vec::new();
        let (pt, pf) = (format!("{:?}", props_of(true)), format!("{:?}", props_of(false)));
        if p["in_pipe_at_close"] == true {
            let want = vec![
                "close -> Ok".to_string(),
                format!("delivery tag=11 red=false ex=ex11 rk=rk11 body=[1, 2, 3] props={}", pt),
                "consumer <- ClientClosedConnection".to_string(),
                format!("return 312 NO_ROUTE ex=rex rk=rrk body=[7] props={}", pt),
            ];
            let main = o.logs.get("main").cloned().unwrap_or_default();
            if main != want {
                v.push(("inbound:in-pipe-at-close".into(), format!("the server sent a delivery and a returned message ahead of its CloseOk; observed {:?}\n expected {:?}", main, want)));
            }
            return v;
        }
        // (the scripted server numbers a channel's requests; the answer to the get carries the number)
        let k = if p["topology"] == true { 3 } else { 0 };
        let want_a = vec![
            format!("delivery tag=11 red=false ex=ex11 rk=rk11 body=[1, 2, 3] props={}", pt),
            format!("delivery tag=12 red=true ex=ex12 rk=rk12 body=[] props={}", pf),
            format!("return 312 NO_ROUTE ex=rex rk=rrk body=[7] props={}", pt),
            format!("get count={} tag={} red=false ex=gx rk=gk body=[9, 9] props={}", 104 + k, 1004 + k, pf),
            format!("lazy tag=10 red=true ex=ex10 rk=rk10 body=[5, 5] props={}", pf),
            format!("lazy tag=13 red=false ex=ex13 rk=rk13 body=[] props={}", pt),
            "lazy count 2".to_string(),
            "extra consumer=0 returns=0".to_string(),
            "chclose -> Ok".to_string(),
        ];
        let want_b = vec![format!("delivery tag=21 red=false ex=ex21 rk=rk21 body=[8] props={}", pf), "extra consumer=0".to_string(), "chclose -> Ok".to_string()];
        let a = o.logs.get("a").cloned().unwrap_or_default();
        let b = o.logs.get("b").cloned().unwrap_or_default();
        if a != want_a {
            v.push(("inbound:channel1".into(), format!("thread a observed {:?}\n expected {:?}", a, want_a)));
        }
        if b != want_b {
            v.push(("inbound:channel2".into(), format!("thread b observed {:?}\n expected {:?}", b, want_b)));
        }
        if o.logs.get("main").cloned().unwrap_or_default() != vec!["close -> Ok".to_string()] {
            v.push(("inbound:close".into(), format!("{:?}", o.logs.get("main"))));
        }
        v
    }
}

// -----------------------------------------------------------------------------------------
// C06 (E2 part): what the client does is a function of the bytes, not of their segmentation

pub struct Segments;

/// Length of the server->client stream of the session below (header to CloseOk).
const SEGMENTS_STREAM_LEN: usize = 468;
/// ... and of the short session in which the server closes right behind OpenOk.
const SEGMENTS_CLOSING_LEN: usize = 175;
/// ... and of the session with two violating frames behind OpenOk.
const SEGMENTS_EARLY2_LEN: usize = 190;

impl Scenario for Segments {
    fn name(&self) -> &'static str {
        "segments"
    }
    fn property(&self) -> &'static str {
        "C06"
    }
    fn variants(&self, tier: &str) -> Vec<Value> {
        let mut v = vec![json!({"cuts": []})];
        for k in 1..SEGMENTS_STREAM_LEN {
            v.push(json!({"cuts": [k]}));
            if tier == "thorough" {
                for d in [1usize, 2, 3, 6, 7, 8, 9] {
                    v.push(json!({"cuts": [k, k + d]}));
                }
            }
        }
        // the same session with the stream ending at every offset: what arrived completely before
        // the end is acted on as in the unsegmented run, nothing after it, and the connection ends
        // with UnexpectedSocketClose
        for k in 0..SEGMENTS_STREAM_LEN {
            v.push(json!({"cuts": [], "eof_at": k}));
        }
        // ... and with the end visible in the same read pass as the last byte before it
        for k in 1..SEGMENTS_STREAM_LEN {
            v.push(json!({"cuts": [], "eof_at": k, "same_pass": true}));
        }
        // a second, short session: the server closes the connection right behind OpenOk (three
        // frames in one burst whose order matters)
        v.push(json!({"cuts": [], "closing": true}));
        for k in 1..SEGMENTS_CLOSING_LEN {
            v.push(json!({"cuts": [k], "closing": true}));
        }
        // ... and hangs up behind its Close, the end of the stream being seen in a pass of its
        // own or in the same pass as the last byte
        for same_pass in [false, true] {
            v.push(json!({"cuts": [], "closing": true, "hangup": true, "same_pass": same_pass}));
            for k in 1..SEGMENTS_CLOSING_LEN {
                v.push(json!({"cuts": [k], "closing": true, "hangup": true, "same_pass": same_pass}));
            }
            // ... the same with the hang-up showing as a reset (reads fail instead of returning 0)
            v.push(json!({"cuts": [], "closing": true, "hangup": true, "same_pass": same_pass, "reset": true}));
            for k in (1..SEGMENTS_CLOSING_LEN).step_by(7) {
                v.push(json!({"cuts": [k], "closing": true, "hangup": true, "same_pass": same_pass, "reset": true}));
            }
        }
        // the first session with the client's output stuck (the peer takes nothing, a request
        // waits in the output buffer) while the server's messages arrive: they are handed on when
        // they arrive, not when the output gets going again
        v.push(json!({"cuts": [], "stalled_output": true}));
        for k in (1..SEGMENTS_STREAM_LEN).step_by(5) {
            v.push(json!({"cuts": [k], "stalled_output": true}));
        }
        // a third one: two frames behind OpenOk that are both violations, of different kinds (the
        // first decides how the connection ends, however the burst is cut)
        v.push(json!({"cuts": [], "early2": true}));
        for k in 1..SEGMENTS_EARLY2_LEN {
            v.push(json!({"cuts": [k], "early2": true}));
        }
        v
    }
    fn bound(&self, tier: &str, p: &Value) -> usize {
        if tier == "thorough" && p["cuts"].as_array().unwrap().len() <= 1 {
            1
        } else {
            0
        }
    }
    fn describe(&self) -> String {
        "one fixed session on a live connection (handshake with a heartbeat and a blocked notice right behind OpenOk, channel, consumer, a delivery in two body frames, a returned message, a get with content, a value-carrying reply, close) whose server->client stream is segmented at every byte offset (thorough: every pair of offsets 1,2,3,6,7,8,9 apart, and one more deviation): the read stops there, meets would-block and continues with the next delivery. Oracle: the observations are those of the unsegmented run, literally".into()
    }
    fn build(&self, p: &Value) -> Built {
        let mut hs = Handshake::default();
        let closing = p["closing"] == true;
        let mut behind = vec![
            AMQPFrame::Method(0, AMQPClass::Connection(pconnection::AMQPMethod::OpenOk(pconnection::OpenOk { known_hosts: String::new() }))),
            AMQPFrame::Heartbeat(0),
            AMQPFrame::Method(0, AMQPClass::Connection(pconnection::AMQPMethod::Blocked(pconnection::Blocked { reason: "alarm".into() }))),
        ];
        if closing {
            behind.push(conn_close_frame(320, "going down"));
        }
        if p["early2"] == true {
            behind.push(AMQPFrame::Method(1, AMQPClass::Tx(tx::AMQPMethod::SelectOk(tx::SelectOk {}))));
            behind.push(header(0, 1, false));
        }
        hs.after_open = vh::sim::broker::Stage::Frames(behind, p["hangup"] == true);
        let mut broker = StdBroker::new(hs);
        let mut f = vec![deliver(1, "ctag-1-2", 7), header(1, 5, true), body(1, &[1, 2]), body(1, &[3, 4, 5])];
        f.push(AMQPFrame::Method(1, AMQPClass::Basic(basic::AMQPMethod::Return(basic::Return { reply_code: 312, reply_text: "NO_ROUTE".into(), exchange: "rex".into(), routing_key: "rrk".into() }))));
        f.push(header(1, 1, false));
        f.push(body(1, &[9]));
        broker.pushes.push(Push::new("content", f).when_channel(1, 2));
        let mut cfg = EnvConfig::default();
        cfg.time = false;
        cfg.force_cuts = p["cuts"].as_array().unwrap().iter().map(|x| x.as_u64().unwrap() as usize).collect();
        cfg.eof_with_last_byte = p["hangup"] == true && p["same_pass"] == true;
        let stalled_output = p["stalled_output"] == true;
        // (only the session itself lets the transport take bytes again)
        cfg.no_grants = stalled_output;
        if p["reset"] == true {
            cfg.hangup = "reset";
        }
        if let Some(k) = p["eof_at"].as_u64() {
            cfg.crash_after_inbound = Some((k as usize, vh::sim::world::FaultKind::ReadEof));
            cfg.crash_with_last_byte = p["same_pass"] == true;
        }
        Built {
            broker: Box::new(broker),
            cfg,
            root: Box::new(move |ctx: Ctx| {
                let mut conn = match open(&ctx, ConnectionOptions::default().heartbeat(0), ConnectionTuning::default()) {
                    Ok(c) => c,
                    Err(e) => {
                        ctx.log(format!("open -> Err({})", err_name(&e)));
                        return;
                    }
                };
                let blocked = conn.listen_for_connection_blocked();
                let ch = match conn.open_channel(Some(1)) {
                    Ok(c) => c,
                    Err(e) => {
                        ctx.log(format!("open_channel -> Err({})", err_name(&e)));
                        let r = conn.close();
                        ctx.log(format!("close -> {}", res(&r)));
                        return;
                    }
                };
                let returns = ch.listen_for_returns();
                match ch.basic_consume("q", ConsumerOptions::default()) {
                    Ok(c) => {
                        if stalled_output {
                            ctx.stall_transport();
                            let r = ch.queue_bind_nowait("q", "ex", "rk", Default::default());
                            if r.is_err() {
                                ctx.log(format!("bind -> {}", res(&r)));
                            }
                        }
                        match ctx.recv("consumer", c.receiver()) {
                            Ok(ConsumerMessage::Delivery(d)) => ctx.log(format!("delivery {}", show_delivery(&d))),
                            other => ctx.log(format!("consumer {:?}", other.map(|m| consumer_msg_name(&m)))),
                        }
                        std::mem::forget(c);
                    }
                    Err(e) => ctx.log(format!("consume -> Err({})", err_name(&e))),
                }
                if let Ok(r) = &returns {
                    match ctx.recv("returns", r) {
                        Ok(r) => ctx.log(format!("return {} {} body={:?}", r.reply_code, r.routing_key, r.content)),
                        Err(_) => ctx.log("returns disconnected"),
                    }
                }
                if stalled_output {
                    ctx.force_grant();
                }
                let g = ch.basic_get("msgq", false).map(|g| g.map(|g| (g.delivery.delivery_tag(), g.message_count, g.delivery.body.clone())));
                ctx.log(format!("get -> {:?}", g.map_err(|e| err_name(&e))));
                let q = ch.queue_declare("named", amiquip::QueueDeclareOptions::default()).map(|q| (q.declared_message_count(), q.declared_consumer_count()));
                ctx.log(format!("declare -> {:?}", q.map_err(|e| err_name(&e))));
                if let Ok(b) = &blocked {
                    ctx.log(format!("blocked notices {:?}", b.try_iter().map(|n| format!("{:?}", n)).collect::<Vec<_>>()));
                }
                ctx.forget(ch);
                let r = conn.close();
                ctx.log(format!("close -> {}", res(&r)));
            }),
        }
    }
    fn check(&self, p: &Value, o: &Outcome, _w: &World) -> Vec<(String, String)> {
        let mut v = Vec::new();
        let main = o.logs.get("main").cloned().unwrap_or_default();
        if p["early2"] == true {
            // the unimplemented method comes first: ClientException, Connection.Close(540) last
            let ok_log = main.last().map(|l| l == "close -> Err(ClientException)").unwrap_or(false) || main == vec!["open -> Err(ClientException)".to_string()];
            let (envs, _) = wire_frames(o);
            let ok_wire = matches!(envs.last().and_then(|e| e.decode()), Some(AMQPFrame::Method(0, AMQPClass::Connection(pconnection::AMQPMethod::Close(c)))) if c.reply_code == 540);
            if !ok_log || !ok_wire {
                v.push(("segments:early-violations".into(), format!("server stream cut at {:?}: observed {:?}; last frame written is Connection.Close(540): {}", p["cuts"], main, ok_wire)));
            }
            return v;
        }
        if p["closing"] == true {
            // whether the open itself already fails or the first call does depends on what had
            // arrived when OpenOk was seen; the cause must be the server's close either way, and
            // the client must have answered it
            // (a call made after the I/O thread has answered the close and gone reports that)
            let first_ok = main.first().map(|l| l == "open_channel -> Err(ServerClosedConnection(320,going down))" || l == "open_channel -> Err(EventLoopDropped)").unwrap_or(false);
            let ok = (main.len() == 2 && first_ok && main[1] == "close -> Err(ServerClosedConnection(320,going down))") || main == vec!["open -> Err(ServerClosedConnection(320,going down))".to_string()];
            if !ok {
                v.push(("segments:closing-observations".into(), format!("server stream cut at {:?}: observed {:?}", p["cuts"], main)));
            }
            let (envs, _) = wire_frames(o);
            // (a server that has hung up has nobody left to take the CloseOk)
            if p["hangup"] != true && !envs.last().map(|e| e.chan == 0 && is_method(e, 10, 51)).unwrap_or(false) {
                v.push(("segments:closing-no-close-ok".into(), format!("server stream cut at {:?}: the last frame written is not Connection.CloseOk", p["cuts"])));
            }
            if o.inbound.len() >= SEGMENTS_CLOSING_LEN {
                v.push(("segments:scenario".into(), format!("scenario error: the server stream has {} bytes, the sweep covers {}", o.inbound.len(), SEGMENTS_CLOSING_LEN)));
            }
            return v;
        }
        // the unsegmented run, written down once
        // (stalled_output: one more request - the nowait bind - before the get; the scripted server
        // puts the request number into its replies)
        let k = if p["stalled_output"] == true { 1 } else { 0 };
        let want = vec![
            format!("delivery tag=7 red=false ex=ex7 rk=rk7 body=[1, 2, 3, 4, 5] props={:?}", props_of(true)),
            "return 312 rrk body=[9]".to_string(),
            format!("get -> Ok(Some(({}, {}, [98, 111, 100, 121, 45, 49, 45, {}])))", 1003 + k, 103 + k, 51 + k),
            format!("declare -> Ok((Some({}), Some({})))", 1004 + k, 104 + k),
            "close -> Ok".to_string(),
        ];
        // the blocked notice arrived before the listener existed (it sits right behind OpenOk): it
        // is discarded; the listener sees nothing
        let got: Vec<String> = main.iter().filter(|l| !l.starts_with("blocked notices")).cloned().collect();
        if let Some(k) = p["eof_at"].as_u64() {
            if got == want {
                // only possible if the whole stream, CloseOk included, arrived before the end
                if (k as usize) < o.inbound.len() || !o.fault_injected && o.inbound_delivered < o.inbound.len() {
                    v.push(("segments:end-of-stream-ignored".into(), format!("the stream ended after {} of {} bytes, yet the session ran as if it had not", k, o.inbound.len())));
                }
                return v;
            }
            // every frame whose last byte arrived before the end has been acted on: the message
            // or reply it completes is observed exactly as in the unsegmented run
            let mut done = 0usize; // how many of `want`'s first four lines are complete within k bytes
            {
                let b = &o.inbound;
                let (mut pos, mut bodies) = (0usize, 0usize);
                while pos + 8 <= b.len() {
                    let size = u32::from_be_bytes([b[pos + 3], b[pos + 4], b[pos + 5], b[pos + 6]]) as usize;
                    let end = pos + 8 + size;
                    if end > b.len() || end > k as usize {
                        break;
                    }
                    let chan = u16::from_be_bytes([b[pos + 1], b[pos + 2]]);
                    if chan == 1 && b[pos] == 3 {
                        bodies += 1;
                        // delivery = body frames 1+2, return = 3, get = 4+5
                        if bodies == 2 || bodies == 3 || bodies == 5 {
                            done += 1;
                        }
                    }
                    if chan == 1 && b[pos] == 1 && size >= 4 && b[pos + 7..pos + 11] == [0, 50, 0, 11] {
                        done += 1;
                    }
                    pos = end;
                }
            }
            if got.len() < done || got[..done] != want[..done] {
                v.push(("segments:complete-frame-not-acted-on".into(), format!("stream ended at {}: the frames completing {:?} had arrived entirely, observed {:?}", k, &want[..done], got)));
            }
            let i = got.iter().zip(want.iter()).position(|(g, w)| g != w).unwrap_or(got.len().min(want.len()));
            let is_err = |l: &String| l.contains("Err(") || l.contains("disconnected") || l.starts_with("consumer ");
            if let Some(bad) = got[i..].iter().find(|l| !is_err(l)) {
                v.push(("segments:acted-after-end-of-stream".into(), format!("stream ended at {}: after the first failing call the session still observed `{}`; log {:?}", k, bad, got)));
            }
            let last = got.last().cloned().unwrap_or_default();
            let ok_last = last == "close -> Err(UnexpectedSocketClose)" || last == "open -> Err(UnexpectedSocketClose)" || last == "open -> Err(InvalidCredentials)";
            if !ok_last {
                v.push(("segments:end-of-stream-cause".into(), format!("stream ended at {}: the session ends with `{}` (expected UnexpectedSocketClose; InvalidCredentials while waiting for Tune); log {:?}", k, last, got)));
            }
            return v;
        }
        if got != want {
            v.push(("segments:observations-differ".into(), format!("server stream cut at {:?}: observed {:?}\n the unsegmented run gives {:?}", p["cuts"], got, want)));
        }
        if o.inbound.len() >= SEGMENTS_STREAM_LEN {
            v.push(("segments:scenario".into(), format!("scenario error: the server stream has {} bytes, the sweep covers {}", o.inbound.len(), SEGMENTS_STREAM_LEN)));
        }
        v
    }
}

// -----------------------------------------------------------------------------------------

pub struct ConsumerLife;

impl Scenario for ConsumerLife {
    fn name(&self) -> &'static str {
        "consumer"
    }
    fn property(&self) -> &'static str {
        "C11"
    }
    fn variants(&self, _tier: &str) -> Vec<Value> {
        vec![
            json!({"how": "cancel-twice"}),
            json!({"how": "drop"}),
            json!({"how": "drop-unwinding"}),
            json!({"how": "forget-close"}),
            json!({"how": "cancel-held"}),
            json!({"how": "server-cancel", "nowait": false}),
            json!({"how": "server-cancel", "nowait": true}),
            json!({"how": "conn-drop"}),
            // fine mode: the client may run between the I/O thread's reply to the cancel call and
            // its terminal message to the consumer queue
            json!({"how": "drop", "fine": true}),
            // the consumer and every copy of its receiver are gone when the cancel returns
            json!({"how": "drop-all"}),
            json!({"how": "drop-all", "fine": true}),
            json!({"how": "cancel-twice", "fine": true}),
            // every channel id of the connection in use (channel_max 2), the consumer's channel on
            // an id that was used before, closed and opened again by number; one more
            // open_channel(None) is refused and the consumer goes on
            json!({"how": "crowded"}),
        ]
    }
    fn bound(&self, tier: &str, _p: &Value) -> usize {
        if tier == "thorough" {
            4
        } else {
            3
        }
    }
    fn describe(&self) -> String {
        "real Consumer objects: cancel twice, drop, forget + channel close, cancel whose CancelOk is withheld while deliveries keep arriving, server cancel (nowait or not) followed by a client cancel, connection dropped with a live consumer; three deliveries pushed frame by frame at any point; oracle: the queue holds deliveries in order, then exactly one terminal message of the true cause, then disconnects; the second cancel sends nothing; CancelOk is written iff the server's cancel was not nowait; deliveries pushed before the CancelOk are delivered".into()
    }
    fn build(&self, p: &Value) -> Built {
        let how = p["how"].as_str().unwrap().to_string();
        let mut broker = StdBroker::new(Handshake::default());
        let mut frames = Vec::new();
        for i in 0..3u64 {
            frames.push(deliver(1, "ctag-1-2", 30 + i));
            frames.push(header(1, 0, false));
        }
        chain(&mut broker, "d", frames, None, Some((1, 2)));
        // a server stops delivering to a consumer once it has processed (or issued) its cancel,
        // and to a channel / connection once it has seen their close
        for p in broker.pushes.iter_mut() {
            let chanclose = p.label.starts_with("d.");
            if chanclose {
                p.not_after_label = Some("srv-cancel".to_string());
            }
        }
        broker.delivery_stoppers = vec![(1, 60, 30), (1, 20, 40), (0, 10, 50)];
        if how == "crowded" {
            // (channel 1 is closed once before the consumer's channel takes its id: the consumer is
            // cancelled before that channel is closed, which stops the deliveries)
            broker.delivery_stoppers = vec![(1, 60, 30), (0, 10, 50)];
        }
        if how == "cancel-held" {
            // everything up to and including ConsumeOk is answered at once; the CancelOk is held
            broker.hold_replies = true;
            broker.hold_after_seq = 2;
        }
        if how == "server-cancel" {
            let nowait = p["nowait"] == true;
            broker.pushes.push(Push::new("srv-cancel", vec![AMQPFrame::Method(1, AMQPClass::Basic(basic::AMQPMethod::Cancel(basic::Cancel { consumer_tag: "ctag-1-2".into(), nowait })))]).when_channel(1, 2));
        }
        let mut cfg = EnvConfig::default();
        cfg.time = false;
        cfg.fine = p["fine"] == true;
        if cfg.fine {
            cfg.max_steps = 20000;
        }
        Built {
            broker: Box::new(broker),
            cfg,
            root: Box::new(move |ctx: Ctx| {
                let crowded = how == "crowded";
                let mut conn = match open(&ctx, ConnectionOptions::default().heartbeat(0).channel_max(if crowded { 2 } else { 0 }), ConnectionTuning::default()) {
                    Ok(c) => c,
                    Err(e) => {
                        ctx.log(format!("open -> Err({})", err_name(&e)));
                        return;
                    }
                };
                let mut other = None;
                if crowded {
                    let x = conn.open_channel(None).expect("first id");
                    other = Some(conn.open_channel(None).expect("second id"));
                    assert_eq!(x.channel_id(), 1);
                    x.close().expect("close of the first channel");
                }
                let ch = conn.open_channel(Some(1)).expect("ch1");
                let consumer = match ch.basic_consume("q", ConsumerOptions::default()) {
                    Ok(c) => c,
                    Err(e) => {
                        ctx.log(format!("consume -> Err({})", err_name(&e)));
                        return;
                    }
                };
                if crowded {
                    let r = conn.open_channel(None);
                    ctx.log(format!("open-none -> {:?}", r.as_ref().map(|c| c.channel_id()).map_err(err_name)));
                    if let Ok(c) = r {
                        ctx.forget(c);
                    }
                }
                if how == "drop-all" {
                    drop(consumer);
                    ctx.log("dropped");
                    // the channel and the connection are as good as before
                    let r = ch.qos(0, 1, false);
                    ctx.log(format!("qos -> {}", res(&r)));
                    let r = ch.close();
                    ctx.log(format!("chclose -> {}", res(&r)));
                    let r = conn.close();
                    ctx.log(format!("close -> {}", res(&r)));
                    return;
                }
                let rx = consumer.receiver().clone();
                if how == "drop-unwinding" {
                    // the consumer goes out of scope because the code holding it panics
                    let r = std::panic::catch_unwind(std::panic::AssertUnwindSafe(move || {
                        let _held = consumer;
                        panic!("worker failed");
                    }));
                    ctx.log(format!("worker panicked: {}", r.is_err()));
                    drain_consumer(&ctx, "consumer", &rx);
                    let r = ch.close();
                    ctx.log(format!("chclose -> {}", res(&r)));
                    let r = conn.close();
                    ctx.log(format!("close -> {}", res(&r)));
                    return;
                }
                match how.as_str() {
                    "cancel-twice" | "cancel-held" | "crowded" => {
                        // take one delivery first
                        if let Ok(m) = ctx.recv("consumer", &rx) {
                            ctx.log(format!("consumer <- {}", consumer_msg_name(&m)));
                        }
                        let r = consumer.cancel();
                        ctx.log(format!("cancel -> {}", res(&r)));
                        let r = consumer.cancel();
                        ctx.log(format!("cancel2 -> {}", res(&r)));
                        drain_consumer(&ctx, "consumer", &rx);
                        drop(consumer);
                    }
                    "drop" => {
                        drop(consumer);
                        drain_consumer(&ctx, "consumer", &rx);
                    }
                    "forget-close" => {
                        std::mem::forget(consumer);
                    }
                    "server-cancel" => {
                        drain_consumer(&ctx, "consumer", &rx);
                        let r = consumer.cancel();
                        ctx.log(format!("cancel -> {}", res(&r)));
                        drop(consumer);
                    }
                    _ => {
                        std::mem::forget(consumer);
                    }
                }
                if how == "conn-drop" {
                    ctx.forget(ch);
                    drop(conn);
                    drain_consumer(&ctx, "consumer", &rx);
                    return;
                }
                let r = ch.close();
                ctx.log(format!("chclose -> {}", res(&r)));
                if let Some(y) = other {
                    let r = y.close();
                    ctx.log(format!("chclose2 -> {}", res(&r)));
                }
                if how == "forget-close" {
                    drain_consumer(&ctx, "consumer", &rx);
                }
                let r = conn.close();
                ctx.log(format!("close -> {}", res(&r)));
            }),
        }
    }
    fn check(&self, p: &Value, o: &Outcome, _w: &World) -> Vec<(String, String)> {
        let mut v = Vec::new();
        let how = p["how"].as_str().unwrap();
        let main = o.logs.get("main").cloned().unwrap_or_default();
        let msgs: Vec<String> = main.iter().filter(|l| l.starts_with("consumer <- ")).map(|l| l.trim_start_matches("consumer <- ").to_string()).collect();
        let disconnected = main.iter().any(|l| l == "consumer disconnected");
        let (deliveries, rest): (Vec<&String>, Vec<&String>) = msgs.iter().partition(|m| m.starts_with("Delivery"));
        if how == "drop-all" {
            let want = vec!["dropped", "qos -> Ok", "chclose -> Ok", "close -> Ok"];
            if main != want {
                v.push(("consumer:drop-disturbs-the-connection".into(), format!("a consumer was dropped (nobody holds its queue any more); afterwards: {:?}", main)));
            }
            let (envs, _) = wire_frames(o);
            let cancels = envs.iter().filter(|e| e.chan == 1 && is_method(e, 60, 30)).count();
            if cancels != 1 {
                v.push(("consumer:cancel-frames".into(), format!("drop-all: {} Basic.Cancel frames written, expected 1", cancels)));
            }
            return v;
        }
        let terminal = match how {
            "cancel-twice" | "drop" | "drop-unwinding" | "cancel-held" | "crowded" => "ClientCancelled",
            "forget-close" => "ClientClosedChannel",
            "server-cancel" => "ServerCancelled",
            _ => "ClientClosedConnection",
        };
        // deliveries form a prefix, in tag order
        let first_terminal = msgs.iter().position(|m| !m.starts_with("Delivery")).unwrap_or(msgs.len());
        if msgs[first_terminal..].iter().any(|m| m.starts_with("Delivery")) {
            v.push(("consumer:delivery-after-terminal".into(), format!("{:?}", msgs)));
        }
        let tags: Vec<u64> = deliveries.iter().filter_map(|d| d.split("tag=").nth(1).and_then(|s| s.split(',').next()).and_then(|s| s.parse().ok())).collect();
        let mut sorted = tags.clone();
        sorted.sort();
        sorted.dedup();
        if sorted != tags || tags.iter().enumerate().any(|(i, t)| *t != 30 + i as u64) {
            v.push(("consumer:delivery-order".into(), format!("delivery tags {:?}", tags)));
        }
        if rest.len() != 1 || rest[0] != terminal || !disconnected {
            v.push((format!("consumer:terminal:{}", how), format!("{}: consumer saw {:?} (disconnected {}), expected deliveries, then exactly [{}], then disconnect", how, msgs, disconnected, terminal)));
        }
        // deliveries the I/O thread handled while the consumer was still registered must be delivered
        let mut handled = 0usize;
        let mut ended = false;
        let mut pending = false;
        // (crowded: id 1 has an earlier life, whose CloseOk does not end the consumer's)
        let mut earlier_close = how == "crowded";
        for e in &o.io_events {
            match e {
                IoEvent::Frame(AMQPFrame::Method(1, AMQPClass::Channel(pchannel::AMQPMethod::CloseOk(_)))) if earlier_close => earlier_close = false,
                IoEvent::Frame(AMQPFrame::Method(1, AMQPClass::Basic(basic::AMQPMethod::Deliver(_)))) if !ended => pending = true,
                IoEvent::Frame(AMQPFrame::Header(1, _, _)) if pending && !ended => {
                    handled += 1;
                    pending = false;
                }
                IoEvent::Frame(AMQPFrame::Method(1, AMQPClass::Basic(basic::AMQPMethod::CancelOk(_))))
                | IoEvent::Frame(AMQPFrame::Method(1, AMQPClass::Basic(basic::AMQPMethod::Cancel(_))))
                | IoEvent::Frame(AMQPFrame::Method(1, AMQPClass::Channel(pchannel::AMQPMethod::CloseOk(_))))
                | IoEvent::Frame(AMQPFrame::Method(0, AMQPClass::Connection(pconnection::AMQPMethod::CloseOk(_)))) => ended = true,
                _ => {}
            }
        }
        if deliveries.len() != handled {
            v.push(("consumer:deliveries-lost-or-extra".into(), format!("{}: {} deliveries reached the consumer, {} were handled while it was registered; {:?}", how, deliveries.len(), handled, msgs)));
        }
        // frames on the wire
        let (envs, _) = wire_frames(o);
        let cancels = envs.iter().filter(|e| e.chan == 1 && is_method(e, 60, 30)).count();
        let cancel_oks = envs.iter().filter(|e| e.chan == 1 && is_method(e, 60, 31)).count();
        let want_cancels = match how {
            "cancel-twice" | "drop" | "drop-unwinding" | "cancel-held" | "server-cancel" | "crowded" => 1,
            _ => 0,
        };
        // (whether a cancel of a consumer the server has already cancelled still goes to the
        // server is not something the statement settles)
        if cancels != want_cancels && !(how == "server-cancel" && cancels == 0) {
            v.push(("consumer:cancel-frames".into(), format!("{}: {} Basic.Cancel frames written, expected {}", how, cancels, want_cancels)));
        }
        let srv_cancel_seen = o.io_events.iter().any(|e| matches!(e, IoEvent::Frame(AMQPFrame::Method(1, AMQPClass::Basic(basic::AMQPMethod::Cancel(_))))));
        // ... unless the client's Connection.Close had already sealed the output
        let pos_cancel = o.io_events.iter().position(|e| matches!(e, IoEvent::Frame(AMQPFrame::Method(1, AMQPClass::Basic(basic::AMQPMethod::Cancel(_))))));
        let pos_seal = o.io_events.iter().position(|e| matches!(e, IoEvent::Recv { msg: amiquip::verif::MsgKind::ConnectionClose { .. }, .. }));
        let sealed_first = matches!((pos_cancel, pos_seal), (Some(c), Some(s)) if s < c);
        let want_oks = if how == "server-cancel" && p["nowait"] != true && srv_cancel_seen && !sealed_first { 1 } else { 0 };
        if cancel_oks != want_oks {
            v.push(("consumer:cancel-ok-frames".into(), format!("{}: {} Basic.CancelOk frames written, expected {}", how, cancel_oks, want_oks)));
        }
        if how == "crowded" && !main.iter().any(|l| l == "open-none -> Err(\"ExhaustedChannelIds\")") {
            v.push(("consumer:crowded-open".into(), format!("open_channel(None) with both ids of the connection in use: {:?}", main.iter().find(|l| l.starts_with("open-none")))));
        }
        if how != "conn-drop" && main.last().map(|s| s.as_str()) != Some("close -> Ok") {
            v.push(("consumer:close".into(), format!("{:?}", main)));
        }
        v
    }
}

// -----------------------------------------------------------------------------------------
// C11: several consumers, a cancel in flight, and the server closing the channel / connection

pub struct ConsumerRace;

impl Scenario for ConsumerRace {
    fn name(&self) -> &'static str {
        "consumer-race"
    }
    fn property(&self) -> &'static str {
        "C11"
    }
    fn variants(&self, _tier: &str) -> Vec<Value> {
        let mut v = Vec::new();
        for close in ["channel", "connection"] {
            for bound in [1usize, 16] {
                v.push(json!({"close": close, "bound": bound}));
            }
            v.push(json!({"close": close, "bound": 16, "fine": true}));
            // the consumers are dropped (not cancelled and kept): nothing but the Consumer
            // holds the queue's receiving end when the server's close meets the cancel in flight
            v.push(json!({"close": close, "bound": 16, "fine": true, "dropall": true}));
            v.push(json!({"close": close, "bound": 16, "dropall": true}));
        }
        // the same race without a server that closes out of the blue: a nowait purge of a
        // missing queue makes the server close the channel while the drop's cancel is in flight
        v.push(json!({"close": "channel", "bound": 16, "fine": true, "dropall": true, "fail404": true}));
        v.push(json!({"close": "channel", "bound": 16, "dropall": true, "fail404": true}));
        // the client's own Connection::close meets the drops' cancels in flight
        v.push(json!({"close": "client", "bound": 16, "fine": true, "dropall": true}));
        v.push(json!({"close": "client", "bound": 16, "dropall": true}));
        v
    }
    fn bound(&self, tier: &str, p: &Value) -> usize {
        if p["fine"] == true {
            return if tier == "thorough" { 2 } else { 1 };
        }
        if tier == "thorough" {
            3
        } else {
            2
        }
    }
    fn describe(&self) -> String {
        "two consumers on channel 1 and one on channel 2 (mem_channel_bound 1 or 16); one thread cancels the first consumer while the server, at any point, closes channel 1 or the connection; one delivery per consumer pushed frame by frame. Oracle: every queue carries only deliveries of its own tag, then exactly one terminal message naming the true cause (ClientCancelled iff the CancelOk was handled before the server's close, else the server's close with its code and text), then disconnects; the cancel call and Connection::close report accordingly".into()
    }
    fn build(&self, p: &Value) -> Built {
        let conn_close = p["close"] == "connection";
        let bound = p["bound"].as_u64().unwrap() as usize;
        let dropall = p["dropall"] == true;
        let fail404 = p["fail404"] == true;
        let client_close = p["close"] == "client";
        let mut broker = StdBroker::new(Handshake::default());
        // channel 1: Open = request 1, the two consumes = requests 2 and 3; channel 2: consume = 2
        let l = chain(&mut broker, "d.a", vec![deliver(1, "ctag-1-2", 30), header(1, 0, false)], None, Some((1, 3)));
        let _ = l;
        chain(&mut broker, "d.b", vec![deliver(1, "ctag-1-3", 40), header(1, 1, true), body(1, &[4])], None, Some((1, 3)));
        chain(&mut broker, "e", vec![deliver(2, "ctag-2-2", 50), header(2, 0, true)], None, Some((2, 2)));
        // no delivery to a consumer / channel once the server has seen its cancel / close
        broker.delivery_stoppers = vec![(1, 60, 30), (1, 20, 40), (0, 10, 50)];
        for p in broker.pushes.iter_mut() {
            if p.label.starts_with("e.") {
                p.not_after_client_method = Some((2, 60, 30));
            }
        }
        if fail404 || client_close {
            // the close is the server's answer to thread a's purge / main's own
        } else if conn_close {
            broker.pushes.push(Push::new("close", vec![conn_close_frame(320, "going down")]).when_channel(1, 3));
        } else {
            broker.pushes.push(Push::new("close", vec![chan_close_frame(1, 406, "PRECONDITION_FAILED")]).when_channel(1, 3));
        }
        let mut cfg = EnvConfig::default();
        cfg.time = false;
        cfg.fine = p["fine"] == true;
        if cfg.fine {
            cfg.max_steps = 20000;
        }
        Built {
            broker: Box::new(broker),
            cfg,
            root: Box::new(move |ctx: Ctx| {
                let mut conn = match open(&ctx, ConnectionOptions::default().heartbeat(0), ConnectionTuning::default().mem_channel_bound(bound)) {
                    Ok(c) => c,
                    Err(e) => {
                        ctx.log(format!("open -> Err({})", err_name(&e)));
                        return;
                    }
                };
                let ch1 = conn.open_channel(Some(1)).expect("ch1");
                let ch2 = conn.open_channel(Some(2)).expect("ch2");
                let (ready_tx, ready) = crossbeam_channel::bounded::<()>(1);
                let a = ctx.spawn("a", move |ctx| {
                    let c1 = ch1.basic_consume("q", ConsumerOptions::default());
                    let c2 = ch1.basic_consume("q", ConsumerOptions::default());
                    let (c1, c2) = match (c1, c2) {
                        (Ok(a), Ok(b)) => (a, b),
                        (a, b) => {
                            ctx.log(format!("consume -> {} {}", res(&a), res(&b)));
                            std::mem::forget((a, b));
                            return;
                        }
                    };
                    ctx.log(format!("tags {} {}", c1.consumer_tag(), c2.consumer_tag()));
                    if fail404 {
                        let r = ch1.queue_purge_nowait("no-such-queue");
                        ctx.log(format!("purge -> {:?}", r.map_err(|e| err_name(&e))));
                    }
                    let _ = ready_tx.send(());
                    if dropall {
                        drop(c1);
                        ctx.log("dropped 1");
                        drop(c2);
                        ctx.log("dropped 2");
                        let r = ch1.close();
                        ctx.log(format!("chclose -> {:?}", r.map_err(|e| err_name(&e))));
                        return;
                    }
                    let r = c1.cancel();
                    ctx.log(format!("cancel -> {:?}", r.map_err(|e| err_name(&e))));
                    drain_consumer(&ctx, "consumer1", c1.receiver());
                    drain_consumer(&ctx, "consumer2", c2.receiver());
                    std::mem::forget((c1, c2));
                    let r = ch1.close();
                    ctx.log(format!("chclose -> {:?}", r.map_err(|e| err_name(&e))));
                });
                let b = ctx.spawn("b", move |ctx| {
                    let c3 = match ch2.basic_consume("q", ConsumerOptions::default()) {
                        Ok(c) => c,
                        Err(e) => {
                            ctx.log(format!("consume -> Err({})", err_name(&e)));
                            return;
                        }
                    };
                    if !conn_close || dropall {
                        // the other channel is not affected: its consumer ends when it says so
                        if let Ok(m) = ctx.recv("consumer3", c3.receiver()) {
                            ctx.log(format!("consumer3 <- {}", consumer_msg_name(&m)));
                        }
                        let r = c3.cancel();
                        ctx.log(format!("cancel -> {:?}", r.map_err(|e| err_name(&e))));
                    }
                    drain_consumer(&ctx, "consumer3", c3.receiver());
                    std::mem::forget(c3);
                    let r = ch2.close();
                    ctx.log(format!("chclose -> {:?}", r.map_err(|e| err_name(&e))));
                });
                if client_close {
                    // close as soon as thread a has its consumers, while a and b carry on
                    let _ = ctx.recv("ready", &ready);
                    let r = conn.close();
                    ctx.log(format!("close -> {}", res(&r)));
                    ctx.join(a);
                    ctx.join(b);
                    return;
                }
                ctx.join(a);
                ctx.join(b);
                let r = conn.close();
                ctx.log(format!("close -> {}", res(&r)));
            }),
        }
    }
    fn check(&self, p: &Value, o: &Outcome, _w: &World) -> Vec<(String, String)> {
        let mut v = Vec::new();
        let conn_close = p["close"] == "connection";
        if p["close"] == "client" {
            // the client's close completes normally whatever the other threads are doing
            let main = o.logs.get("main").cloned().unwrap_or_default();
            let a = o.logs.get("a").cloned().unwrap_or_default();
            if a.iter().any(|l| l.starts_with("consume -> ")) {
                return v;
            }
            if main.last().map(|s| s.as_str()) != Some("close -> Ok") {
                v.push(("race:close".into(), format!("main log {:?} expected close -> Ok", main)));
            }
            if !a.iter().any(|l| l == "dropped 2") || !a.iter().any(|l| l.starts_with("chclose -> ")) {
                v.push(("race:drop-hangs".into(), format!("thread a did not get through its drops: {:?}", a)));
            }
            return v;
        }
        let a = o.logs.get("a").cloned().unwrap_or_default();
        let b = o.logs.get("b").cloned().unwrap_or_default();
        let main = o.logs.get("main").cloned().unwrap_or_default();
        if a.iter().any(|l| l.starts_with("consume -> ")) || b.iter().any(|l| l.starts_with("consume -> ")) {
            // the close came before the consumers existed: covered by the other scenarios
            return v;
        }
        let srv_err = if conn_close { "ServerClosedConnection(320,going down)".to_string() } else { "ServerClosedChannel(1,406,PRECONDITION_FAILED)".to_string() };
        let srv_terminal = if conn_close { format!("ServerClosedConnection[{}]", srv_err) } else { format!("ServerClosedChannel[{}]", srv_err) };
        // which came first at the I/O thread: the CancelOk for consumer 1 or the server's close?
        let pos_ok = o.io_events.iter().position(|e| matches!(e, IoEvent::Frame(AMQPFrame::Method(1, AMQPClass::Basic(basic::AMQPMethod::CancelOk(_))))));
        let pos_close = o.io_events.iter().position(|e| match e {
            IoEvent::Frame(AMQPFrame::Method(0, AMQPClass::Connection(pconnection::AMQPMethod::Close(_)))) => conn_close,
            IoEvent::Frame(AMQPFrame::Method(1, AMQPClass::Channel(pchannel::AMQPMethod::Close(_)))) => !conn_close,
            _ => false,
        });
        let cancelled_first = match (pos_ok, pos_close) {
            (Some(k), Some(c)) => k < c,
            (Some(_), None) => true,
            _ => false,
        };
        if p["dropall"] == true {
            // dropping consumers never costs the connection: thread b and main see exactly
            // what they see when thread a keeps its consumers
            if !a.iter().any(|l| l == "dropped 2") || !a.iter().any(|l| l.starts_with("chclose -> ")) {
                v.push(("race:drop-hangs".into(), format!("thread a did not get through its drops: {:?}", a)));
            }
            if !conn_close {
                let want_b = ["cancel -> Ok(())", "consumer3 disconnected", "chclose -> Ok(())"];
                for w in want_b {
                    if !b.iter().any(|l| l == w) {
                        v.push(("race:other-channel-affected".into(), format!("thread b (channel 2) logged {:?}, expected to contain {:?}", b, w)));
                        break;
                    }
                }
            }
            let want_close = if conn_close && pos_close.is_some() { format!("close -> Err({})", srv_err) } else { "close -> Ok".to_string() };
            if main.last() != Some(&want_close) {
                v.push(("race:close".into(), format!("main log {:?} expected {}", main, want_close)));
            }
            return v;
        }
        let want = |who: &str| -> (u64, String) {
            match who {
                "consumer1" => (30, if cancelled_first { "ClientCancelled".to_string() } else { srv_terminal.clone() }),
                "consumer2" => (40, srv_terminal.clone()),
                _ => (50, if conn_close { srv_terminal.clone() } else { "ClientCancelled".to_string() }),
            }
        };
        for (who, log) in [("consumer1", &a), ("consumer2", &a), ("consumer3", &b)] {
            let msgs: Vec<String> = log.iter().filter_map(|l| l.strip_prefix(&format!("{} <- ", who)).map(|x| x.to_string())).collect();
            let (tag, terminal) = want(who);
            let n_deliv = msgs.iter().take_while(|m| m.starts_with("Delivery")).count();
            if msgs[..n_deliv].iter().any(|m| !m.starts_with(&format!("Delivery(tag={},", tag))) || n_deliv > 1 {
                v.push(("race:foreign-or-duplicate-delivery".into(), format!("{} received {:?}, only tag {} is addressed to it", who, msgs, tag)));
            }
            let rest = &msgs[n_deliv..];
            if pos_close.is_none() && who == "consumer2" {
                continue;
            }
            if rest.len() != 1 || rest[0] != terminal || !log.iter().any(|l| *l == format!("{} disconnected", who)) {
                v.push((format!("race:terminal:{}", who), format!("{} saw {:?} expected deliveries then exactly [{}] then disconnect (CancelOk handled before the close: {})", who, msgs, terminal, cancelled_first)));
            }
        }
        // the cancel call itself
        if let Some(l) = a.iter().find(|l| l.starts_with("cancel -> ")) {
            let want = if cancelled_first { "cancel -> Ok(())".to_string() } else { format!("cancel -> Err(\"{}\")", srv_err) };
            if *l != want {
                v.push(("race:cancel-result".into(), format!("{} expected {}", l, want)));
            }
        } else {
            v.push(("race:cancel-result".into(), format!("the cancel call did not return: {:?}", a)));
        }
        let want_close = if conn_close && pos_close.is_some() { format!("close -> Err({})", srv_err) } else { "close -> Ok".to_string() };
        if main.last() != Some(&want_close) {
            v.push(("race:close".into(), format!("main log {:?} expected {}", main, want_close)));
        }
        v
    }
}

// -----------------------------------------------------------------------------------------

pub struct Listeners;

impl Scenario for Listeners {
    fn name(&self) -> &'static str {
        "listeners"
    }
    fn property(&self) -> &'static str {
        "C13"
    }
    fn variants(&self, _tier: &str) -> Vec<Value> {
        // flood: listeners that are not read while 300 confirms and 300 returned messages arrive
        vec![json!({"drop_second": false}), json!({"drop_second": true}), json!({"flood": 300}), json!({"drop_second": false, "fine": true}), json!({"drop_second": true, "fine": true}),
            // events the server sends between the client's Connection.Close and its own CloseOk
            json!({"late": true}),
            // ... and between the client's Channel.Close and the server's Channel.CloseOk
            json!({"late": true, "channel": true})]
    }
    fn bound(&self, tier: &str, p: &Value) -> usize {
        if p["flood"].is_u64() {
            return if tier == "thorough" { 1 } else { 0 };
        }
        if p["late"] == true {
            return if tier == "thorough" { 2 } else { 1 };
        }
        if p["fine"] == true {
            return if tier == "thorough" { 2 } else { 1 };
        }
        if tier == "thorough" {
            3
        } else {
            2
        }
    }
    fn describe(&self) -> String {
        "a publisher thread registers a confirm listener and a return listener, publishes twice, replaces the confirm listener (optionally dropping the new one at once), publishes again and makes an RPC; the connection thread registers a blocked listener twice; the server acknowledges every publish, and nacks, returns a message, and sends blocked / unblocked notices at any point; oracle: the listeners' queues concatenate to exactly the server's events in order and unchanged, the replaced listeners are disconnected, events for a dropped listener vanish and the RPC still succeeds".into()
    }
    fn build(&self, p: &Value) -> Built {
        if let Some(k) = p["flood"].as_u64() {
            return flood_listeners(k as usize);
        }
        if p["late"] == true {
            return late_listeners(p["channel"] == true);
        }
        let mut broker = StdBroker::new(Handshake::default());
        broker.pushes.push(Push::new("nack", vec![AMQPFrame::Method(1, AMQPClass::Basic(basic::AMQPMethod::Nack(basic::Nack { delivery_tag: 99, multiple: true, requeue: false })))]).when_channel(1, 2));
        chain(
            &mut broker,
            "ret",
            vec![AMQPFrame::Method(1, AMQPClass::Basic(basic::AMQPMethod::Return(basic::Return { reply_code: 313, reply_text: "NO_CONSUMERS".into(), exchange: "x".into(), routing_key: "k".into() }))), header(1, 2, true), body(1, &[4, 2])],
            None,
            Some((1, 2)),
        );
        broker.pushes.push(Push::new("blocked", vec![AMQPFrame::Method(0, AMQPClass::Connection(pconnection::AMQPMethod::Blocked(pconnection::Blocked { reason: "low on memory".into() })))]).after_frames(4));
        broker.pushes.push(Push::new("unblocked", vec![AMQPFrame::Method(0, AMQPClass::Connection(pconnection::AMQPMethod::Unblocked(pconnection::Unblocked {})))]).after("blocked"));
        let drop_second = p["drop_second"] == true;
        let mut cfg = EnvConfig::default();
        cfg.time = false;
        cfg.fine = p["fine"] == true;
        if cfg.fine {
            cfg.max_steps = 20000;
        }
        Built {
            broker: Box::new(broker),
            cfg,
            root: Box::new(move |ctx: Ctx| {
                let mut conn = match open(&ctx, ConnectionOptions::default().heartbeat(0), ConnectionTuning::default()) {
                    Ok(c) => c,
                    Err(e) => {
                        ctx.log(format!("open -> Err({})", err_name(&e)));
                        return;
                    }
                };
                let ch = conn.open_channel(Some(1)).expect("ch1");
                let a = ctx.spawn("a", move |ctx| {
                    let ch: Channel = ch;
                    let l1 = ch.listen_for_publisher_confirms().expect("listen");
                    let r1 = ch.listen_for_returns().expect("listen returns");
                    let r = ch.enable_publisher_confirms();
                    ctx.log(format!("confirm.select -> {}", res(&r)));
                    for i in 0..2u8 {
                        let r = ch.basic_publish("", Publish::new(&[i], "k"));
                        ctx.log(format!("publish -> {}", res(&r)));
                    }
                    let l2 = ch.listen_for_publisher_confirms().expect("listen again");
                    let l2 = if drop_second {
                        drop(l2);
                        None
                    } else {
                        Some(l2)
                    };
                    let r = ch.basic_publish("", Publish::new(&[2], "k"));
                    ctx.log(format!("publish -> {}", res(&r)));
                    // the reply to this call comes after everything the server sent before it
                    let r = ch.qos(0, 1, false);
                    ctx.log(format!("qos -> {}", res(&r)));
                    let show = |c: amiquip::Confirm| match c {
                        amiquip::Confirm::Ack(p) => format!("Ack({},{})", p.delivery_tag, p.multiple),
                        amiquip::Confirm::Nack(p) => format!("Nack({},{})", p.delivery_tag, p.multiple),
                    };
                    let got1: Vec<String> = l1.try_iter().map(show).collect();
                    let l1_disc = matches!(l1.try_recv(), Err(crossbeam_channel::TryRecvError::Disconnected));
                    ctx.log(format!("L1 {:?} disconnected={}", got1, l1_disc));
                    if let Some(l2) = &l2 {
                        let got2: Vec<String> = l2.try_iter().map(show).collect();
                        ctx.log(format!("L2 {:?}", got2));
                    }
                    let rets: Vec<String> = r1.try_iter().map(|r| format!("{} {} ex={} rk={} body={:?} props={:?}", r.reply_code, r.reply_text, r.exchange, r.routing_key, r.content, r.properties)).collect();
                    ctx.log(format!("R1 {:?}", rets));
                    let r = ch.close();
                    ctx.log(format!("chclose -> {}", res(&r)));
                });
                let b1 = conn.listen_for_connection_blocked();
                let b2 = conn.listen_for_connection_blocked();
                ctx.join(a);
                let r = conn.close();
                let showb = |n: amiquip::ConnectionBlockedNotification| format!("{:?}", n);
                if let (Ok(b1), Ok(b2)) = (&b1, &b2) {
                    ctx.log(format!("B1 {:?}", b1.try_iter().map(showb).collect::<Vec<_>>()));
                    ctx.log(format!("B2 {:?}", b2.try_iter().map(showb).collect::<Vec<_>>()));
                }
                ctx.log(format!("close -> {}", res(&r)));
            }),
        }
    }
    fn check(&self, p: &Value, o: &Outcome, _w: &World) -> Vec<(String, String)> {
        let mut v = Vec::new();
        let a = o.logs.get("a").cloned().unwrap_or_default();
        let main = o.logs.get("main").cloned().unwrap_or_default();
        if p["late"] == true {
            let want = vec!["close -> Ok".to_string(), "confirms [\"Ack(7,false)\", \"Nack(8,true)\"]".to_string(), "returns [(\"late\", [4, 2])]".to_string(), "blocked [\"Blocked(\\\"late\\\")\"]".to_string()];
            if main != want {
                v.push(("listeners:events-before-close-ok-lost".into(), format!("the server sent Ack(7), Nack(8, multiple), a returned message and a blocked notice ahead of its CloseOk; observed {:?} expected {:?}", main, want)));
            }
            return v;
        }
        if let Some(k) = p["flood"].as_u64() {
            let want_c: Vec<String> = (1..=k).map(|i| format!("Ack({},false)", i)).collect();
            let want = vec![format!("confirms {:?}", want_c), format!("returns {} in order true", k), "close -> Ok".to_string()];
            if main != want {
                v.push(("listeners:unread-listener-lost-events".into(), format!("{} confirms and {} returned messages were sent while nobody read the listeners; afterwards: {:?}", k, k, main)));
            }
            return v;
        }
        // what the I/O thread saw, in order (= what the server sent and was read before the end)
        let mut confirms = Vec::new();
        let mut confirms_before_qos = 0usize;
        let mut returns = 0;
        let mut returns_before_qos = 0;
        let mut blocked = Vec::new();
        let mut qos_ok_seen = false;
        for e in &o.io_events {
            if let IoEvent::Frame(f) = e {
                match f {
                    AMQPFrame::Method(1, AMQPClass::Basic(basic::AMQPMethod::Ack(x))) => confirms.push(format!("Ack({},{})", x.delivery_tag, x.multiple)),
                    AMQPFrame::Method(1, AMQPClass::Basic(basic::AMQPMethod::Nack(x))) => confirms.push(format!("Nack({},{})", x.delivery_tag, x.multiple)),
                    AMQPFrame::Body(1, _) => returns += 1,
                    AMQPFrame::Method(1, AMQPClass::Basic(basic::AMQPMethod::QosOk(_))) => {
                        qos_ok_seen = true;
                        confirms_before_qos = confirms.len();
                        returns_before_qos = returns;
                    }
                    AMQPFrame::Method(0, AMQPClass::Connection(pconnection::AMQPMethod::Blocked(b))) => blocked.push(format!("Blocked({:?})", b.reason)),
                    AMQPFrame::Method(0, AMQPClass::Connection(pconnection::AMQPMethod::Unblocked(_))) => blocked.push("Unblocked".to_string()),
                    _ => {}
                }
            }
        }
        if !qos_ok_seen {
            confirms_before_qos = confirms.len();
            returns_before_qos = returns;
        }
        let parse = |prefix: &str, log: &[String]| -> Option<String> { log.iter().find(|l| l.starts_with(prefix)).cloned() };
        let l1 = parse("L1 ", &a).unwrap_or_default();
        let l2 = parse("L2 ", &a).unwrap_or_default();
        let list = |s: &str| -> Vec<String> {
            let inner = s.split_once('[').map(|x| x.1).unwrap_or("").split(']').next().unwrap_or("");
            inner.split("\", \"").map(|x| x.trim_matches('"').to_string()).filter(|x| !x.is_empty()).collect()
        };
        let g1 = list(&l1);
        let g2 = list(&l2);
        if !l1.ends_with("disconnected=true") {
            v.push(("listeners:replaced-not-disconnected".into(), l1.clone()));
        }
        let drop_second = p["drop_second"] == true;
        // exact reference from the I/O thread's own log: a confirm goes to the listener whose
        // registration the I/O thread had taken last
        {
            let mut regs = 0usize;
            let mut want_c: Vec<Vec<String>> = vec![vec![], vec![], vec![]];
            let mut before_qos = [0usize; 3];
            for e in &o.io_events {
                match e {
                    IoEvent::Recv { msg: amiquip::verif::MsgKind::SetPubConfirmHandler { .. }, .. } => regs += 1,
                    IoEvent::Frame(AMQPFrame::Method(1, AMQPClass::Basic(basic::AMQPMethod::Ack(x)))) => want_c[regs.min(2)].push(format!("Ack({},{})", x.delivery_tag, x.multiple)),
                    IoEvent::Frame(AMQPFrame::Method(1, AMQPClass::Basic(basic::AMQPMethod::Nack(x)))) => want_c[regs.min(2)].push(format!("Nack({},{})", x.delivery_tag, x.multiple)),
                    IoEvent::Frame(AMQPFrame::Method(1, AMQPClass::Basic(basic::AMQPMethod::QosOk(_)))) => {
                        for i in 0..3 {
                            before_qos[i] = want_c[i].len();
                        }
                    }
                    _ => {}
                }
            }
            if !want_c[0].is_empty() {
                v.push(("listeners:confirm-before-listener".into(), format!("scenario error: confirms {:?} before any listener", want_c[0])));
            }
            // the first listener was replaced before the RPC: its share is complete
            if g1 != want_c[1] {
                v.push(("listeners:confirms-first-listener".into(), format!("first listener received {:?}; while it was the channel's listener the server's confirms were {:?}", g1, want_c[1])));
            }
            if !drop_second && (g2.len() < before_qos[2] || g2.len() > want_c[2].len() || g2[..] != want_c[2][..g2.len()]) {
                v.push(("listeners:confirms-second-listener".into(), format!("second listener received {:?}; while it was the channel's listener the server's confirms were {:?} ({} of them before the RPC reply)", g2, want_c[2], before_qos[2])));
            }
        }
        let mut all = g1.clone();
        all.extend(g2.clone());
        // the listeners were read right after the RPC returned: everything the server sent
        // before its reply must be there, later events may or may not have made it yet
        let prefix_ok = |got: &Vec<String>| got.len() >= confirms_before_qos && got.len() <= confirms.len() && got[..] == confirms[..got.len()];
        if !drop_second {
            if !prefix_ok(&all) {
                v.push(("listeners:confirms".into(), format!("listeners received {:?} ++ {:?}; the server's confirms in order were {:?}", g1, g2, confirms)));
            }
            // the third publish happened after the second listener was registered
            if !g2.iter().any(|x| x == "Ack(3,false)") {
                v.push(("listeners:missed-own-confirm".into(), format!("second listener {:?} misses Ack(3)", g2)));
            }
        } else if confirms.len() < g1.len() || g1[..] != confirms[..g1.len()] {
            v.push(("listeners:confirms".into(), format!("first listener received {:?}; the server's confirms were {:?}", g1, confirms)));
        }
        let r1 = parse("R1 ", &a).unwrap_or_default();
        let full = format!("R1 {:?}", vec![format!("313 NO_CONSUMERS ex=x rk=k body=[4, 2] props={:?}", props_of(true))]);
        let r_ok = if returns_before_qos > 0 { r1 == full } else if returns > 0 { r1 == full || r1 == "R1 []" } else { r1 == "R1 []" };
        if !r_ok {
            v.push(("listeners:returns".into(), format!("{} (returned messages handled before the RPC reply: {}, in total: {})", r1, returns_before_qos, returns)));
        }
        if !a.iter().any(|l| l == "qos -> Ok") || !a.iter().any(|l| l == "chclose -> Ok") {
            v.push(("listeners:connection-disturbed".into(), format!("{:?}", a)));
        }
        // blocked notices: B1 ++ B2 is the server's sequence, B1 a prefix
        let b1 = list(&parse("B1 ", &main).unwrap_or_default());
        let b2 = list(&parse("B2 ", &main).unwrap_or_default());
        let norm = |x: &String| x.replace('\\', "");
        let mut ball: Vec<String> = b1.iter().map(norm).collect();
        ball.extend(b2.iter().map(norm));
        // exact reference from the I/O thread's own log: a notice goes to the listener whose
        // registration the I/O thread had received last; both registrations must arrive
        let mut regs = 0usize;
        let mut want_b: Vec<Vec<String>> = vec![vec![], vec![], vec![]];
        for e in &o.io_events {
            match e {
                IoEvent::Recv { kind: amiquip::verif::ChanKind::Blocked, .. } => regs += 1,
                IoEvent::Frame(AMQPFrame::Method(0, AMQPClass::Connection(pconnection::AMQPMethod::Blocked(b)))) => want_b[regs.min(2)].push(format!("Blocked({:?})", b.reason)),
                IoEvent::Frame(AMQPFrame::Method(0, AMQPClass::Connection(pconnection::AMQPMethod::Unblocked(_)))) => want_b[regs.min(2)].push("Unblocked".to_string()),
                _ => {}
            }
        }
        let _ = (ball, &blocked);
        if regs != 2 {
            v.push(("listeners:blocked-registration-lost".into(), format!("listen_for_connection_blocked was called twice but the I/O thread received {} registration(s)", regs)));
        } else {
            let g1: Vec<String> = b1.iter().map(norm).collect();
            let g2: Vec<String> = b2.iter().map(norm).collect();
            if g1 != want_b[1] || g2 != want_b[2] {
                v.push(("listeners:blocked".into(), format!("blocked listeners got {:?} and {:?}; expected {:?} and {:?} (server sent {:?})", g1, g2, want_b[1], want_b[2], blocked)));
            }
        }
        if main.last().map(|s| s.as_str()) != Some("close -> Ok") {
            v.push(("listeners:close".into(), format!("{:?}", main)));
        }
        v
    }
}

/// C07: the wake-up in which the transport finally takes the client exception's
/// Connection.Close while a publish from another thread waits right behind that event.
fn exception_batch(kind: &str) -> Built {
    let mut broker = StdBroker::new(Handshake::default());
    broker.strict_content = false;
    let (frames, _, _) = violation_frames(kind);
    broker.pushes.push(Push::new("bad", frames).manual());
    let mut cfg = EnvConfig::default();
    cfg.time = false;
    cfg.stall_on_seal = true;
    cfg.no_grants = true;
    Built {
        broker: Box::new(broker),
        cfg,
        root: Box::new(move |ctx: Ctx| {
            let mut conn = match open(&ctx, ConnectionOptions::default().heartbeat(0), ConnectionTuning::default()) {
                Ok(c) => c,
                Err(e) => {
                    ctx.log(format!("open -> Err({})", err_name(&e)));
                    return;
                }
            };
            let ch1 = conn.open_channel(Some(1)).expect("ch1");
            let ch2 = conn.open_channel(Some(2)).expect("ch2");
            let (go_tx, go) = crossbeam_channel::bounded::<()>(1);
            let p = ctx.spawn("p", move |ctx| {
                let _ = ctx.recv("go", &go);
                let r = ch2.basic_publish("", Publish::new(&[1, 2, 3], "k"));
                ctx.log(format!("publish -> {}", res(&r)));
                let _ = ctx.recv("finish", &go);
                ctx.forget(ch2);
            });
            // the offending frame, handled in a wake-up of its own: the exception's Close is queued,
            // the output sealed, and the transport (stall_on_seal) does not take it
            ctx.wait_io_quiet();
            ctx.hold_io(true);
            if !ctx.force_push("bad") {
                ctx.log("push not possible");
            }
            ctx.hold_io(false);
            ctx.wait_io_quiet();
            // one wake-up with two events, in this order: the transport is writable again; channel
            // 2 has a publish waiting
            ctx.hold_io(true);
            ctx.force_grant();
            let _ = go_tx.send(());
            ctx.wait_blocked(p);
            ctx.log("batch built");
            ctx.hold_io(false);
            ctx.wait_io_quiet();
            drop(go_tx);
            ctx.join(p);
            ctx.forget(ch1);
            let r = conn.close();
            ctx.log(format!("close -> {}", res(&r)));
        }),
    }
}

/// C13, unread listeners: `k` publishes acknowledged by the broker and `k` returned messages
/// (one push) while the confirm and return listeners are not read; then both are read.
/// The server's answer to Connection.Close is [Ack, Nack, returned message, blocked notice,
/// CloseOk]: what it sends ahead of its CloseOk still reaches the listeners.
fn late_listeners(channel: bool) -> Built {
    let mut broker = StdBroker::new(Handshake::default());
    let frames = vec![
        AMQPFrame::Method(1, AMQPClass::Basic(basic::AMQPMethod::Ack(basic::Ack { delivery_tag: 7, multiple: false }))),
        AMQPFrame::Method(1, AMQPClass::Basic(basic::AMQPMethod::Nack(basic::Nack { delivery_tag: 8, multiple: true, requeue: false }))),
        AMQPFrame::Method(1, AMQPClass::Basic(basic::AMQPMethod::Return(basic::Return { reply_code: 312, reply_text: "NO_ROUTE".into(), exchange: "x".into(), routing_key: "late".into() }))),
        header(1, 2, true),
        body(1, &[4, 2]),
        AMQPFrame::Method(0, AMQPClass::Connection(pconnection::AMQPMethod::Blocked(pconnection::Blocked { reason: "late".into() }))),
    ];
    if channel {
        broker.before_channel_close_ok = frames;
    } else {
        broker.close_behaviour = vh::sim::broker::CloseBehaviour::FramesThenCloseOk(frames);
    }
    let mut cfg = EnvConfig::default();
    cfg.deliver_cuts = true;
    Built {
        broker: Box::new(broker),
        cfg,
        root: Box::new(move |ctx: Ctx| {
            let mut conn = match open(&ctx, ConnectionOptions::default().heartbeat(0), ConnectionTuning::default()) {
                Ok(c) => c,
                Err(e) => {
                    ctx.log(format!("open -> Err({})", err_name(&e)));
                    return;
                }
            };
            let blocked = conn.listen_for_connection_blocked().expect("listen blocked");
            let ch = conn.open_channel(Some(1)).expect("ch1");
            let confirms = ch.listen_for_publisher_confirms().expect("listen");
            let returns = ch.listen_for_returns().expect("listen returns");
            ch.enable_publisher_confirms().expect("confirm.select");
            ch.basic_publish("", Publish::new(&[1], "k")).expect("publish");
            let _ = ch.qos(0, 1, false);
            let mut conn = Some(conn);
            if channel {
                let r = ch.close();
                ctx.log(format!("close -> {}", res(&r)));
            } else {
                ctx.forget(ch);
                let r = conn.take().unwrap().close();
                ctx.log(format!("close -> {}", res(&r)));
            }
            let got: Vec<String> = confirms
                .try_iter()
                .filter_map(|c| match c {
                    // (the ack of the publish above is not what this is about)
                    amiquip::Confirm::Ack(p) if p.delivery_tag == 1 => None,
                    amiquip::Confirm::Ack(p) => Some(format!("Ack({},{})", p.delivery_tag, p.multiple)),
                    amiquip::Confirm::Nack(p) => Some(format!("Nack({},{})", p.delivery_tag, p.multiple)),
                })
                .collect();
            ctx.log(format!("confirms {:?}", got));
            ctx.log(format!("returns {:?}", returns.try_iter().map(|r| (r.routing_key.clone(), r.content.clone())).collect::<Vec<_>>()));
            ctx.log(format!("blocked {:?}", blocked.try_iter().map(|n| format!("{:?}", n)).collect::<Vec<_>>()));
            if let Some(c) = conn.take() {
                let _ = c.close();
            }
        }),
    }
}

fn flood_listeners(k: usize) -> Built {
    let mut broker = StdBroker::new(Handshake::default());
    let mut frames = Vec::new();
    for i in 0..k {
        frames.push(AMQPFrame::Method(1, AMQPClass::Basic(basic::AMQPMethod::Return(basic::Return { reply_code: 312, reply_text: "NO_ROUTE".into(), exchange: "x".into(), routing_key: format!("k{}", i) }))));
        frames.push(header(1, 1, false));
        frames.push(body(1, &[(i % 251) as u8]));
    }
    // offered once confirm.select (request 2 of channel 1) was seen
    broker.pushes.push(Push::new("returns", frames).when_channel(1, 2));
    let mut cfg = EnvConfig::default();
    cfg.max_steps = 20000;
    Built {
        broker: Box::new(broker),
        cfg,
        root: Box::new(move |ctx: Ctx| {
            let mut conn = match open(&ctx, ConnectionOptions::default().heartbeat(0), ConnectionTuning::default()) {
                Ok(c) => c,
                Err(e) => {
                    ctx.log(format!("open -> Err({})", err_name(&e)));
                    return;
                }
            };
            let ch = conn.open_channel(Some(1)).expect("ch1");
            let confirms = ch.listen_for_publisher_confirms().expect("listen");
            let returns = ch.listen_for_returns().expect("listen returns");
            ch.enable_publisher_confirms().expect("confirm.select");
            for i in 0..k {
                ch.basic_publish("", Publish::new(&[(i % 251) as u8], "k")).expect("publish");
            }
            // virtual time passes only when nothing else can happen: all acks and the push are in
            ctx.sleep_ms(10);
            let _ = ch.qos(0, 1, false);
            let got: Vec<String> = confirms
                .try_iter()
                .map(|c| match c {
                    amiquip::Confirm::Ack(p) => format!("Ack({},{})", p.delivery_tag, p.multiple),
                    amiquip::Confirm::Nack(p) => format!("Nack({},{})", p.delivery_tag, p.multiple),
                })
                .collect();
            ctx.log(format!("confirms {:?}", got));
            let rets: Vec<amiquip::Return> = returns.try_iter().collect();
            let in_order = rets.iter().enumerate().all(|(i, r)| r.routing_key == format!("k{}", i) && r.content == vec![(i % 251) as u8]);
            ctx.log(format!("returns {} in order {}", rets.len(), in_order));
            ctx.forget(ch);
            let r = conn.close();
            ctx.log(format!("close -> {}", res(&r)));
        }),
    }
}

// -----------------------------------------------------------------------------------------

pub struct Violations;

fn violation_frames(kind: &str) -> (Vec<AMQPFrame>, Vec<&'static str>, Option<u16>) {
    let ok1 = |f: AMQPFrame| vec![f];
    match kind {
        "header-without-method" => (ok1(header(1, 1, false)), vec!["Err(FrameUnexpected)"], None),
        "body-without-method" => (ok1(body(1, &[1])), vec!["Err(FrameUnexpected)"], None),
        "second-header" => (vec![deliver(1, "ctag-1-2", 1), header(1, 2, false), header(1, 2, false)], vec!["Err(FrameUnexpected)"], None),
        "body-overrun" => (vec![deliver(1, "ctag-1-2", 1), header(1, 1, false), body(1, &[1, 2])], vec!["Err(FrameUnexpected)"], None),
        "method-mid-content" => (vec![deliver(1, "ctag-1-2", 1), deliver(1, "ctag-1-2", 2)], vec!["Err(FrameUnexpected)"], None),
        "unopened-channel" => (ok1(AMQPFrame::Method(5, AMQPClass::Basic(basic::AMQPMethod::QosOk(basic::QosOk {})))), vec!["Err(ReceivedFrameWithBogusChannelId(5))"], None),
        // (which error content on channel 0 produces is the client's choice: see the check)
        "content-on-channel0" => (ok1(header(0, 1, false)), vec!["Err(ClientException)", "Err(FrameUnexpected)", "Err(ReceivedFrameWithBogusChannelId(0))"], Some(530)),
        "unknown-tag" => (vec![deliver(1, "nobody", 1), header(1, 0, false)], vec!["Err(UnknownConsumerTag(1,nobody))"], None),
        "duplicate-tag" => (ok1(AMQPFrame::Method(1, AMQPClass::Basic(basic::AMQPMethod::ConsumeOk(basic::ConsumeOk { consumer_tag: "ctag-1-2".into() })))), vec!["Err(DuplicateConsumerTag(1,ctag-1-2))"], None),
        "client-only-method" => (ok1(AMQPFrame::Method(1, AMQPClass::Basic(basic::AMQPMethod::Publish(basic::Publish { ticket: 0, exchange: "".into(), routing_key: "".into(), mandatory: false, immediate: false })))), vec!["Err(ClientException)"], Some(530)),
        "unimplemented-class" => (ok1(AMQPFrame::Method(1, AMQPClass::Tx(tx::AMQPMethod::CommitOk(tx::CommitOk {})))), vec!["Err(ClientException)"], Some(540)),
        // any announced size: no panic, no abort, no delivery; waiting for the rest or refusing are both fine
        "huge-body-size" => (vec![deliver(1, "ctag-1-2", 1), header(1, 1 << 62, false), body(1, &[1])], vec!["Ok", "Err(FrameUnexpected)"], None),
        _ => panic!(),
    }
}

impl Scenario for Violations {
    fn name(&self) -> &'static str {
        "violations"
    }
    fn property(&self) -> &'static str {
        "C07"
    }
    fn variants(&self, _tier: &str) -> Vec<Value> {
        ["header-without-method", "body-without-method", "second-header", "body-overrun", "method-mid-content", "unopened-channel", "content-on-channel0", "unknown-tag", "duplicate-tag", "client-only-method", "unimplemented-class", "huge-body-size"]
            .iter()
            .map(|k| json!({"kind": k}))
            // the client-exception kinds again with a second thread publishing on another channel:
            // whatever it hands over after the exception must not follow Connection.Close
            .chain(["content-on-channel0", "client-only-method", "unimplemented-class"].iter().map(|k| json!({"kind": k, "publisher": true})))
            // ... and the one wake-up in which the transport takes the exception's Close and a
            // publish of another thread is waiting right behind that event, built with the batch
            // driver (the window is three or more deviations away from the default schedule)
            .chain(["client-only-method", "unimplemented-class"].iter().map(|k| json!({"kind": k, "publisher": "batch"})))
            // a server that keeps talking behind its CloseOk: whatever the I/O thread still acts
            // on in that state is a violation like any other
            .chain(["unopened-channel", "client-only-method", "heartbeat"].iter().map(|k| json!({"kind": "behind-close-ok", "what": k})))
            // two violating frames right behind OpenOk, in the same transmission: the first decides
            .chain(["early-540-530", "early-bogus-540"].iter().map(|k| json!({"kind": k})))
            // the exception's Close over a transport that takes it in pieces
            .chain(["content-on-channel0", "client-only-method", "unimplemented-class"].iter().map(|k| json!({"kind": k, "write_cuts": true})))
            .collect()
    }
    fn bound(&self, tier: &str, p: &Value) -> usize {
        if p["publisher"] == "batch" {
            return 0;
        }
        if tier == "thorough" {
            3
        } else {
            2
        }
    }
    fn describe(&self) -> String {
        "twelve representative server protocol violations pushed frame by frame into a live connection with a consumer (one valid delivery first): close() must return the error named by the statement (or ClientException with Connection.Close carrying the hard-error code as the last frame written), never IoThreadPanic; the consumer only ever sees the valid delivery".into()
    }
    fn build(&self, p: &Value) -> Built {
        let kind = p["kind"].as_str().unwrap().to_string();
        if p["publisher"] == "batch" {
            return exception_batch(&kind);
        }
        let with_publisher = p["publisher"] == true;
        let mut hs = Handshake::default();
        let early = kind.starts_with("early-");
        if early {
            let open_ok = AMQPFrame::Method(0, AMQPClass::Connection(pconnection::AMQPMethod::OpenOk(pconnection::OpenOk { known_hosts: String::new() })));
            let tx_select = AMQPFrame::Method(1, AMQPClass::Tx(tx::AMQPMethod::SelectOk(tx::SelectOk {})));
            let fs = if kind == "early-540-530" { vec![open_ok, tx_select, header(0, 1, false)] } else { vec![open_ok, deliver(3, "nobody", 1), tx_select] };
            hs.after_open = vh::sim::broker::Stage::Frames(fs, false);
        }
        let mut broker = StdBroker::new(hs);
        broker.strict_content = false;
        let last = chain(&mut broker, "valid", vec![deliver(1, "ctag-1-2", 50), header(1, 1, false), body(1, &[6])], None, Some((1, 2)));
        let behind = kind == "behind-close-ok";
        if behind {
            let f = match p["what"].as_str().unwrap() {
                "heartbeat" => AMQPFrame::Heartbeat(0),
                k => violation_frames(k).0.remove(0),
            };
            broker.close_behaviour = vh::sim::broker::CloseBehaviour::CloseOkThen(vec![f]);
        } else if !early {
            let (frames, _, _) = violation_frames(&kind);
            chain(&mut broker, "bad", frames, Some(&last), Some((1, 2)));
        }
        let mut cfg = EnvConfig::default();
        cfg.deliver_cuts = true;
        if p["write_cuts"] == true {
            cfg.deliver_cuts = false;
            cfg.write_cuts = true;
            cfg.write_cut_limit = 2;
            cfg.grant_menu = vec![1];
        }
        Built {
            broker: Box::new(broker),
            cfg,
            root: Box::new(move |ctx: Ctx| {
                let mut conn = match open(&ctx, ConnectionOptions::default().heartbeat(0), ConnectionTuning::default()) {
                    Ok(c) => c,
                    Err(e) => {
                        ctx.log(format!("open -> Err({})", err_name(&e)));
                        return;
                    }
                };
                if early {
                    // (the frames behind OpenOk are handled as soon as the connection exists)
                    let r = conn.close();
                    ctx.log(format!("close -> {}", res(&r)));
                    return;
                }
                let ch = conn.open_channel(Some(1)).expect("ch1");
                let publisher = if with_publisher {
                    let ch2 = conn.open_channel(Some(2)).expect("ch2");
                    Some(ctx.spawn("p", move |ctx| {
                        for i in 0..3u8 {
                            let r = ch2.basic_publish("", Publish::new(&[i], "k"));
                            ctx.log(format!("publish{} -> {}", i, res(&r)));
                        }
                        ctx.forget(ch2);
                    }))
                } else {
                    None
                };
                let consumer = ch.basic_consume("q", ConsumerOptions::default()).expect("consume");
                let rx = consumer.receiver().clone();
                if kind == "huge-body-size" || behind {
                    // the connection stays up (the content never completes / nothing is wrong yet)
                    if let Ok(m) = ctx.recv("consumer", &rx) {
                        ctx.log(format!("consumer <- {}", consumer_msg_name(&m)));
                    }
                    ctx.sleep_ms(5);
                } else {
                    drain_consumer(&ctx, "consumer", &rx);
                }
                std::mem::forget(consumer);
                ctx.forget(ch);
                if let Some(p) = publisher {
                    ctx.join(p);
                }
                let r = conn.close();
                ctx.log(format!("close -> {}", res(&r)));
            }),
        }
    }
    fn check(&self, p: &Value, o: &Outcome, _w: &World) -> Vec<(String, String)> {
        let mut v = Vec::new();
        let kind = p["kind"].as_str().unwrap();
        let main = o.logs.get("main").cloned().unwrap_or_default();
        if kind == "behind-close-ok" {
            // did the I/O thread still take a frame after the CloseOk? (it has gone before the
            // frame arrives if the two come in separate reads)
            let pos = o.io_events.iter().position(|e| matches!(e, vh::sim::world::IoEvent::Frame(AMQPFrame::Method(0, AMQPClass::Connection(pconnection::AMQPMethod::CloseOk(_))))));
            let acted = pos.map(|k| o.io_events[k + 1..].iter().any(|e| matches!(e, vh::sim::world::IoEvent::Frame(_)))).unwrap_or(false);
            let close = main.iter().find(|l| l.starts_with("close -> ")).cloned().unwrap_or_default();
            let ok = if acted { close.starts_with("close -> Err(") && close != "close -> Err(IoThreadPanic)" } else { close == "close -> Ok" };
            if !ok {
                v.push(("violations:frame-behind-close-ok".into(), format!("{} behind CloseOk, taken by the I/O thread: {}; {}", p["what"], acted, close)));
            }
            return v;
        }
        if kind.starts_with("early-") {
            let close = main.iter().find(|l| l.starts_with("close -> ")).cloned().unwrap_or_default();
            let (want, code): (&str, Option<u16>) = if kind == "early-540-530" { ("close -> Err(ClientException)", Some(540)) } else { ("close -> Err(ReceivedFrameWithBogusChannelId(3))", None) };
            // (an open that fails with the same cause is the other legitimate outcome: the frames were
            // read together with OpenOk)
            let open_failed = main.iter().any(|l| l.starts_with("open -> Err("));
            if close != want && !open_failed {
                v.push((format!("violations:first-violation-decides:{}", kind), format!("{}: {:?} expected {}", kind, main, want)));
            }
            if let (Some(code), true) = (code, close == want) {
                let (envs, _) = wire_frames(o);
                // (or the client's own Close(200), had it gone out before the frames were read: nothing may follow it)
                let ok = matches!(envs.last().and_then(|e| e.decode()), Some(AMQPFrame::Method(0, AMQPClass::Connection(pconnection::AMQPMethod::Close(c)))) if c.reply_code == code || c.reply_code == 200);
                if !ok {
                    v.push((format!("violations:first-violation-decides:{}", kind), format!("{}: the last frame written is not Connection.Close({})", kind, code)));
                }
            }
            return v;
        }
        let (_, want, code) = violation_frames(kind);
        let close = main.iter().find(|l| l.starts_with("close -> ")).map(|l| l.trim_start_matches("close -> ").to_string());
        match close {
            None => v.push(("violations:no-close-result".into(), format!("{:?}", main))),
            Some(c) => {
                if !want.contains(&c.as_str()) {
                    v.push((format!("violations:close-result:{}", kind), format!("{}: close returned {} expected {:?}", kind, c, want)));
                }
            }
        }
        let msgs: Vec<&String> = main.iter().filter(|l| l.starts_with("consumer <- Delivery")).collect();
        if p["publisher"] == "batch" {
            if !main.iter().any(|l| l == "batch built") {
                v.push(("violations:batch-driver".into(), format!("{:?}", main)));
            }
        } else if msgs.len() != 1 || *msgs[0] != "consumer <- Delivery(tag=50,body=[6])" {
            v.push(("violations:mis-delivered".into(), format!("{}: consumer saw {:?}, expected only the valid delivery 50", kind, msgs)));
        }
        if let (Some(code), true) = (code, main.iter().any(|l| l == "close -> Err(ClientException)")) {
            let (envs, rest) = wire_frames(o);
            if rest != 0 {
                v.push(("violations:exception-close-frame".into(), format!("{}: {} bytes behind the last whole frame on the wire", kind, rest)));
            }
            let ok = match envs.last().and_then(|e| e.decode()) {
                Some(AMQPFrame::Method(0, AMQPClass::Connection(pconnection::AMQPMethod::Close(c)))) => c.reply_code == code || (kind == "content-on-channel0" && [503u16, 504, 505].contains(&c.reply_code)),
                _ => false,
            };
            if !ok {
                v.push(("violations:exception-close-frame".into(), format!("{}: last frame written is not Connection.Close({})", kind, code)));
            }
        }
        v
    }
}
