//! C20: simultaneous closes and requests in one event batch (batch driver).
use crate::scenarios::*;
use amiquip::{ConnectionOptions, ConnectionTuning, Publish};
use serde_json::{json, Value};
use vh::sim::broker::{Handshake, Push, StdBroker};
use vh::sim::explore::{run_once, Built, Ctx, Scenario};
use vh::sim::world::{EnvConfig, Outcome, World};

pub struct Batch;

const SLOTS: [&str; 5] = ["SC", "SCh", "K", "A1", "A2"];

fn permutations(items: &[String]) -> Vec<Vec<String>> {
    if items.len() <= 1 {
        return vec![items.to_vec()];
    }
    let mut out = Vec::new();
    for i in 0..items.len() {
        let mut rest = items.to_vec();
        let x = rest.remove(i);
        for mut p in permutations(&rest) {
            p.insert(0, x.clone());
            out.push(p);
        }
    }
    out
}

impl Scenario for Batch {
    fn name(&self) -> &'static str {
        "batch"
    }
    fn property(&self) -> &'static str {
        "C20"
    }
    fn variants(&self, tier: &str) -> Vec<Value> {
        let max = if tier == "thorough" { 5 } else { 4 };
        let mut v = Vec::new();
        for mask in 1u32..32 {
            if mask.count_ones() as usize > max {
                continue;
            }
            // at least one server close among the events (that is what the property is about)
            if mask & 3 == 0 {
                continue;
            }
            let present: Vec<&str> = (0..5).filter(|i| mask & (1 << i) != 0).map(|i| SLOTS[i]).collect();
            let kinds_k: Vec<&str> = if present.contains(&"K") { vec!["K:alloc", "K:blocked", "K:close"] } else { vec![""] };
            // (A1:chclose: the client closes channel 1 itself - with SCh in the batch the two closes cross)
            let kinds_a1: Vec<Vec<&str>> = if present.contains(&"A1") { vec![vec!["A1:publish"], vec!["A1:call"], vec!["A1:publish", "A1:call"], vec!["A1:chclose"]] } else { vec![vec![]] };
            for kk in &kinds_k {
                for ka in &kinds_a1 {
                    let mut items: Vec<String> = Vec::new();
                    for s in &present {
                        match *s {
                            "K" => items.push(kk.to_string()),
                            "A1" => items.extend(ka.iter().map(|x| x.to_string())),
                            o => items.push(o.to_string()),
                        }
                    }
                    if items.len() > max {
                        continue;
                    }
                    for order in permutations(&items) {
                        // the two server frames share the byte stream; nothing may follow a
                        // Connection.Close, so only the order SCh, SC is a server behaviour
                        let sc = order.iter().position(|e| e == "SC");
                        let sch = order.iter().position(|e| e == "SCh");
                        if let (Some(a), Some(b)) = (sc, sch) {
                            if a < b {
                                continue;
                            }
                        }
                        // channel 1 is used from one thread: its publish precedes its call
                        let pp = order.iter().position(|e| e == "A1:publish");
                        let pc = order.iter().position(|e| e == "A1:call");
                        if matches!((pp, pc), (Some(a), Some(b)) if a > b) {
                            continue;
                        }
                        for stall in [false, true] {
                            v.push(json!({"events": order, "mode": "one", "stall": stall}));
                        }
                    }
                }
            }
        }
        // the server closes with reply code 200 (and 0): still the server's close
        for code in [200u64, 0] {
            for ev in [vec!["SC"], vec!["A1:call", "SC"], vec!["SC", "K:close"], vec!["K:close", "SC"], vec!["SCh", "SC", "A2"]] {
                v.push(json!({"events": ev, "mode": "one", "stall": false, "sc_code": code}));
            }
        }
        // the reply to a call in flight on channel 1 and the server's close right behind it, in
        // one read (mem_channel_bound 1 and 16: the reply queue has to hold both)
        for close in ["SCh", "SC"] {
            for bound in [1u64, 16] {
                for extra in [vec![], vec!["A2"], vec!["K:blocked"]] {
                    let mut ev: Vec<String> = vec!["R1".to_string(), close.to_string()];
                    ev.extend(extra.iter().map(|x| x.to_string()));
                    v.push(json!({"events": ev, "mode": "one", "stall": false, "precall": true, "bound": bound}));
                }
            }
        }
        // a backlog from before the batch (a publish on channel 1 that met a stalled transport):
        // the batch contains the transport's "writable again" (W) next to the close(s) and
        // requests, so that one wake-up flushes old output, reads the close and queues new output
        for close in [vec!["SC"], vec!["SCh"], vec!["SCh", "SC"]] {
            for extra in [vec![], vec!["A2"], vec!["K:close"], vec!["K:alloc"], vec!["A1:call"]] {
                let mut items: Vec<String> = vec!["W".to_string()];
                items.extend(close.iter().map(|x| x.to_string()));
                items.extend(extra.iter().map(|x| x.to_string()));
                for order in permutations(&items) {
                    let sc = order.iter().position(|e| e == "SC");
                    let sch = order.iter().position(|e| e == "SCh");
                    if matches!((sc, sch), (Some(a), Some(b)) if a < b) {
                        continue;
                    }
                    v.push(json!({"events": order, "mode": "one", "stall": false, "prepub": true}));
                }
            }
        }
        // the same backlog with a high-water mark below it (channels 1 and 2 are not being
        // listened to when the batch happens), the server closing both channels, the transport
        // taking bytes again and a new channel being opened - in one wake-up and one by one
        {
            let items: Vec<String> = ["W", "SCh", "SCh2", "K:alloc"].iter().map(|x| x.to_string()).collect();
            for order in permutations(&items) {
                for mode in ["one", "separate"] {
                    v.push(json!({"events": order, "mode": mode, "stall": false, "prepub": true, "high": 16}));
                }
            }
        }
        // channels from the automatic allocation (ids 1 and 2): the client's close of the newest
        // channel crosses the server's, and another channel is asked for in the same wake-up -
        // the stale CloseOk for the crossing close must not meet the new channel
        {
            let items: Vec<String> = ["A2:chclose", "SCh2", "K:allocnone"].iter().map(|x| x.to_string()).collect();
            for order in permutations(&items) {
                for mode in ["one", "separate"] {
                    // (one by one, a server cannot close a channel whose close it has already confirmed)
                    let a = order.iter().position(|e| e == "A2:chclose");
                    let b = order.iter().position(|e| e == "SCh2");
                    if mode == "separate" && a < b {
                        continue;
                    }
                    v.push(json!({"events": order, "mode": mode, "stall": false, "auto": true}));
                }
            }
        }
        v
    }
    fn bound(&self, _tier: &str, _p: &Value) -> usize {
        0
    }
    fn describe(&self) -> String {
        "(Channel::close returns Ok only if the server's CloseOk for that channel was read.) batch driver: after a default-schedule setup (two channels, a consumer on each) the I/O thread is held at its gate while every ordered subset (up to 4, thorough 5) of {server Connection.Close, server Channel.Close(1), one channel-0 request (open_channel | listen_for_connection_blocked | Connection::close), a publish / call / publish+call on channel 1, a call on channel 2} is made pending in that order; one poll then handles them as one batch; also with the transport stalled so that the closing state spans several batches. Oracle: no panic, every request returns, Connection::close reports the server's close, and all results equal those of the same events delivered in the same order in separate batches".into()
    }
    fn build(&self, p: &Value) -> Built {
        let mut broker = StdBroker::new(Handshake::default());
        // (sc_code: the reply code of the server's Connection.Close; 200 - "reply-success" - is a
        // close like any other)
        let sc_code = p["sc_code"].as_u64().unwrap_or(320) as u16;
        broker.pushes.push(Push::new("SC", vec![conn_close_frame(sc_code, "bye")]).manual());
        broker.pushes.push(Push::new("SCh", vec![chan_close_frame(1, 404, "NOT_FOUND")]).manual());
        broker.pushes.push(Push::new("SCh2", vec![chan_close_frame(2, 404, "NOT_FOUND")]).manual());
        let mut cfg = EnvConfig::default();
        cfg.time = false;
        let events: Vec<String> = p["events"].as_array().unwrap().iter().map(|x| x.as_str().unwrap().to_string()).collect();
        let separate = p["mode"] == "separate";
        let stall = p["stall"] == true;
        let precall = p["precall"] == true;
        let qbound = p["bound"].as_u64().unwrap_or(16) as usize;
        let auto = p["auto"] == true;
        let prepub = p["prepub"] == true;
        let high = p["high"].as_u64().map(|h| h as usize);
        if prepub {
            // only the batch's own "W" lets the transport take bytes again
            cfg.no_grants = true;
        }
        if precall {
            // channel 1: Open = request 1, Consume = 2 are answered at once; the purge issued before
            // the batch (request 3) is answered when the batch says so ("R1")
            broker.hold_replies = true;
            broker.hold_after_seq = 2;
            broker.manual_release = true;
        }
        if stall {
            // the handshake, the two Channel.Open and the two Basic.Consume fit (296 bytes);
            // what the batch makes the client write meets a transport that takes 4 more bytes
            // and then nothing until it is granted: the closing state spans several wake-ups
            cfg.stall_after = Some(300);
        }
        Built {
            broker: Box::new(broker),
            cfg,
            root: Box::new(move |ctx: Ctx| {
                let mut conn = match open(&ctx, ConnectionOptions::default().heartbeat(0), match high {
                    Some(h) => ConnectionTuning::default().mem_channel_bound(qbound).buffered_writes_high_water(h).buffered_writes_low_water(0),
                    None => ConnectionTuning::default().mem_channel_bound(qbound),
                }) {
                    Ok(c) => c,
                    Err(e) => {
                        ctx.log(format!("open -> Err({})", err_name(&e)));
                        return;
                    }
                };
                let (ch1, ch2) = if auto { (conn.open_channel(None).expect("ch1"), conn.open_channel(None).expect("ch2")) } else { (conn.open_channel(Some(1)).expect("ch1"), conn.open_channel(Some(2)).expect("ch2")) };
                assert_eq!((ch1.channel_id(), ch2.channel_id()), (1, 2));
                let (go_k_tx, go_k) = crossbeam_channel::bounded::<String>(1);
                let (go_a1_tx, go_a1) = crossbeam_channel::bounded::<String>(2);
                let (go_a2_tx, go_a2) = crossbeam_channel::bounded::<String>(1);
                // the actors report when their setup (a consumer each) is done
                let (ready_tx, ready) = crossbeam_channel::bounded::<()>(2);
                let (ready1, ready2) = (ready_tx.clone(), ready_tx);
                let k = ctx.spawn("K", move |ctx| {
                    let mut conn = conn;
                    let op = ctx.recv("go", &go_k).unwrap_or_default();
                    let mut closed = false;
                    match op.as_str() {
                        "K:alloc" | "K:allocnone" => {
                            let r = if op == "K:allocnone" { conn.open_channel(None) } else { conn.open_channel(Some(7)) };
                            ctx.log(format!("open_channel -> {}", res(&r)));
                            if let Ok(c) = r {
                                let r = c.close();
                                ctx.log(format!("newchan close -> {}", res(&r)));
                            }
                        }
                        "K:blocked" => {
                            let r = conn.listen_for_connection_blocked();
                            ctx.log(format!("listen_blocked -> {}", res(&r)));
                        }
                        "K:close" => {
                            let r = conn.close();
                            ctx.log(format!("close -> {}", res(&r)));
                            closed = true;
                            return;
                        }
                        _ => {}
                    }
                    // wait for the others, then close
                    let _ = ctx.recv("finish", &go_k);
                    if !closed {
                        let r = conn.close();
                        ctx.log(format!("close -> {}", res(&r)));
                    }
                });
                let a1 = ctx.spawn("A1", move |ctx| {
                    let mut ch1 = Some(ch1);
                    let cons = ch1.as_ref().unwrap().basic_consume("q1", amiquip::ConsumerOptions::default());
                    let cons_rx = cons.as_ref().ok().map(|c| c.receiver().clone());
                    std::mem::forget(cons);
                    let _ = ready1.send(());
                    while let Ok(op) = ctx.recv("go", &go_a1) {
                        if op.contains("publish") {
                            let r = ch1.as_ref().unwrap().basic_publish("", Publish::new(b"abc", "k"));
                            ctx.log(format!("publish -> {}", res(&r)));
                        }
                        if op.contains("call") {
                            let r = ch1.as_ref().unwrap().queue_purge("q");
                            ctx.log(format!("call -> {:?}", r.map_err(|e| err_name(&e))));
                        }
                        if op.contains("chclose") {
                            let r = ch1.take().unwrap().close();
                            ctx.log(format!("chclose -> {:?}", r.map_err(|e| err_name(&e))));
                        }
                    }
                    if let Some(ch1) = ch1 {
                        let r = ch1.qos(0, 1, false);
                        ctx.log(format!("late -> {}", res(&r)));
                        let r = ch1.close();
                        ctx.log(format!("chclose -> {}", res(&r)));
                    }
                    if let Some(rx) = &cons_rx {
                        ctx.log(format!("consumer saw {:?}", rx.try_iter().map(|m| consumer_msg_name(&m)).collect::<Vec<_>>()));
                    }
                });
                let a2 = ctx.spawn("A2", move |ctx| {
                    let cons = ch2.basic_consume("q2", amiquip::ConsumerOptions::default());
                    let cons_rx = cons.as_ref().ok().map(|c| c.receiver().clone());
                    std::mem::forget(cons);
                    let _ = ready2.send(());
                    let op = ctx.recv("go", &go_a2).unwrap_or_default();
                    if op == "A2" {
                        let r = ch2.queue_purge("q");
                        ctx.log(format!("call -> {:?}", r.map_err(|e| err_name(&e))));
                    }
                    if op == "A2:chclose" {
                        // the client closes channel 2 itself (with SCh2 in the batch the closes cross)
                        let r = ch2.close();
                        ctx.log(format!("chclose -> {}", res(&r)));
                        let _ = ctx.recv("finish", &go_a2);
                    } else {
                        let _ = ctx.recv("finish", &go_a2);
                        let r = ch2.qos(0, 1, false);
                        ctx.log(format!("late -> {}", res(&r)));
                        let r = ch2.close();
                        ctx.log(format!("chclose -> {}", res(&r)));
                    }
                    if let Some(rx) = &cons_rx {
                        ctx.log(format!("consumer saw {:?}", rx.try_iter().map(|m| consumer_msg_name(&m)).collect::<Vec<_>>()));
                    }
                });
                // ---- the batch
                let _ = ctx.recv("ready", &ready);
                let _ = ctx.recv("ready", &ready);
                if precall {
                    // a call on channel 1 goes out and stays unanswered
                    let _ = go_a1_tx.send("A1:call".to_string());
                    ctx.wait_blocked(a1);
                }
                if prepub {
                    // a publish on channel 1 is accepted and stays in the I/O thread's buffer
                    ctx.stall_transport();
                    let _ = go_a1_tx.send("A1:publish".to_string());
                    ctx.wait_blocked(a1);
                }
                ctx.wait_io_quiet();
                ctx.hold_io(true);
                for ev in &events {
                    match ev.as_str() {
                        "W" => ctx.force_grant(),
                        "SC" | "SCh" | "SCh2" => {
                            if !ctx.force_push(ev) {
                                ctx.log(format!("push {} not possible", ev));
                            }
                        }
                        "R1" => {
                            if !ctx.force_push("release:1") {
                                ctx.log("no held reply on channel 1");
                            }
                        }
                        e if e.starts_with("K:") => {
                            let _ = go_k_tx.send(e.to_string());
                            ctx.wait_blocked(k);
                        }
                        e if e.starts_with("A1:") => {
                            let _ = go_a1_tx.send(e.to_string());
                            ctx.wait_blocked(a1);
                        }
                        "A2" | "A2:chclose" => {
                            let _ = go_a2_tx.send(ev.to_string());
                            ctx.wait_blocked(a2);
                        }
                        _ => {}
                    }
                    if separate {
                        ctx.hold_io(false);
                        ctx.wait_io_quiet();
                        ctx.hold_io(true);
                    }
                }
                ctx.hold_io(false);
                ctx.wait_io_quiet();
                // ---- wind down: everybody finishes, the connection owner closes last
                drop(go_a1_tx);
                drop(go_a2_tx);
                ctx.join(a1);
                ctx.join(a2);
                drop(go_k_tx);
                ctx.join(k);
            }),
        }
    }
    fn check(&self, p: &Value, o: &Outcome, _w: &World) -> Vec<(String, String)> {
        let mut v = Vec::new();
        let events: Vec<String> = p["events"].as_array().unwrap().iter().map(|x| x.as_str().unwrap().to_string()).collect();
        let has_sc = events.iter().any(|e| e == "SC");
        for a in ["K", "A1", "A2"] {
            let log = o.logs.get(a).cloned().unwrap_or_default();
            let done = if a == "K" { log.iter().any(|l| l.starts_with("close -> ")) } else { log.iter().any(|l| l.starts_with("chclose -> ")) };
            if !done {
                v.push(("batch:request-never-returned".into(), format!("actor {} log {:?}", a, log)));
            }
        }
        let k = o.logs.get("K").cloned().unwrap_or_default();
        if let Some(c) = k.iter().find(|l| l.starts_with("close -> ")) {
            let want = if has_sc { format!("close -> Err(ServerClosedConnection({},bye))", p["sc_code"].as_u64().unwrap_or(320)) } else { "close -> Ok".to_string() };
            if *c != want {
                v.push((format!("batch:close-result:{}", c.trim_start_matches("close -> ")), format!("Connection::close: {} expected {}; events {:?}", c, want, events)));
            }
        }
        if let Some(m) = o.logs.get("main") {
            if !m.is_empty() {
                v.push(("batch:driver".into(), format!("{:?}", m)));
            }
        }
        // "takes effect before the close": what the I/O thread accepted from a channel before it
        // acted on the server's Connection.Close (before it took the client's close request, if
        // the server never closed the connection) is on the wire, in whole frames, once the
        // client's last frame (CloseOk / Close) is
        {
            use amiquip::verif::MsgKind;
            use amq_protocol::frame::AMQPFrame;
            use amq_protocol::protocol::{connection as pconnection, AMQPClass};
            use vh::sim::world::IoEvent;
            let (envs, rest) = wire_frames(o);
            let last_out = envs.iter().any(|e| e.chan == 0 && (is_method(e, 10, 51) || is_method(e, 10, 50)));
            if last_out && rest != 0 {
                v.push(("batch:wire-not-whole-frames".into(), format!("{} trailing bytes on the wire; events {:?}", rest, events)));
            }
            let cut = o
                .io_events
                .iter()
                .position(|e| matches!(e, IoEvent::Frame(AMQPFrame::Method(0, AMQPClass::Connection(pconnection::AMQPMethod::Close(_)))) | IoEvent::Recv { msg: MsgKind::ConnectionClose { .. }, .. }))
                .unwrap_or(o.io_events.len());
            if last_out && rest == 0 && !o.io_panicked {
                for chan in [1u16, 2, 3] {
                    let accepted: usize = o.io_events[..cut]
                        .iter()
                        .map(|e| match e {
                            IoEvent::Recv { channel_id, msg: MsgKind::Send { len }, .. } if *channel_id == chan => *len,
                            _ => 0,
                        })
                        .sum();
                    // (the I/O thread's own CloseOk for a channel the server closed comes on top)
                    let written: usize = envs.iter().filter(|e| e.chan == chan && !is_method(e, 20, 41)).map(|e| e.wire_len()).sum();
                    if written < accepted {
                        v.push(("batch:accepted-output-not-written".into(), format!("channel {}: the I/O thread had accepted {} bytes of requests before the connection's close point but only {} reached the wire; events {:?}", chan, accepted, written, events)));
                    }
                }
            }
        }
        // "takes effect before the close or fails with the close's error", for Channel::close: it
        // has taken effect when the server confirmed it - a Channel::close that returns Ok without
        // a Channel.CloseOk for that channel having been read met the server's close and kept quiet
        {
            use amq_protocol::frame::AMQPFrame;
            use amq_protocol::protocol::{channel as pchannel, AMQPClass};
            use vh::sim::world::IoEvent;
            for (a, chan) in [("A1", 1u16), ("A2", 2u16)] {
                let log = o.logs.get(a).cloned().unwrap_or_default();
                let n_ok = log.iter().filter(|l| l.starts_with("chclose -> Ok")).count();
                let n_close_ok = o.io_events.iter().filter(|e| matches!(e, IoEvent::Frame(AMQPFrame::Method(c, AMQPClass::Channel(pchannel::AMQPMethod::CloseOk(_)))) if *c == chan)).count();
                if n_ok > n_close_ok {
                    v.push(("batch:channel-close-ok-without-close-ok".into(), format!("actor {} (channel {}): Channel::close returned Ok {} time(s) but the server's CloseOk for that channel was read {} time(s); events {:?}; log {:?}", a, chan, n_ok, n_close_ok, events, log)));
                }
            }
        }
        // differential: same events, same order, one per batch
        if p["mode"] == "one" && v.is_empty() && o.panics.is_empty() && !o.io_panicked && o.deadlock.is_none() {
            // "resolves as some serial order": the same events handled one per batch, in the
            // given order or, failing that, in any other order a server could produce
            let mut orders = vec![events.clone()];
            for perm in permutations(&events) {
                let sc = perm.iter().position(|e| e == "SC");
                let sch = perm.iter().position(|e| e == "SCh");
                if matches!((sc, sch), (Some(a), Some(b)) if a < b) {
                    continue;
                }
                let pp = perm.iter().position(|e| e == "A1:publish");
                let pc = perm.iter().position(|e| e == "A1:call");
                if matches!((pp, pc), (Some(a), Some(b)) if a > b) {
                    continue;
                }
                if perm != events {
                    orders.push(perm);
                }
            }
            let mut matched = false;
            let mut first_diff = String::new();
            for ord in orders {
                let mut p2 = p.clone();
                p2["mode"] = json!("separate");
                p2["events"] = json!(ord);
                let b = run_once(self, &p2, &[], &[], false);
                if b.machinery.is_some() || !b.violations.is_empty() {
                    continue;
                }
                let same = ["K", "A1", "A2"].iter().all(|a| o.logs.get(*a) == b.outcome.logs.get(*a));
                if same {
                    matched = true;
                    break;
                }
                if first_diff.is_empty() {
                    first_diff = format!("serial {:?}: K {:?} A1 {:?} A2 {:?}", ord, b.outcome.logs.get("K"), b.outcome.logs.get("A1"), b.outcome.logs.get("A2"));
                }
            }
            if !matched {
                v.push(("batch:no-serial-order-explains-it".into(), format!("events {:?} in one batch gave K {:?} A1 {:?} A2 {:?}; no serial handling gives that (e.g. {})", events, o.logs.get("K"), o.logs.get("A1"), o.logs.get("A2"), first_diff)));
            }
        }
        v
    }
}
