//! C04 (rpc), C09 (chclose), C01 (wire) scenarios.
use crate::scenarios::*;
use amiquip::{Channel, ConnectionOptions, ConnectionTuning, ConsumerOptions, ExchangeDeclareOptions, ExchangeType, FieldTable, Publish, QueueDeclareOptions, QueueDeleteOptions};
use amq_protocol::frame::{AMQPContentHeader, AMQPFrame};
use amq_protocol::protocol::{basic, AMQPClass};
use serde_json::{json, Value};
use vh::sim::broker::{Handshake, Push, StdBroker};
use vh::sim::explore::{Built, Ctx, Scenario};
use vh::sim::world::{EnvConfig, Outcome, World};

// -----------------------------------------------------------------------------------------
// C04

pub struct Rpc;

/// Run op `name` as the request number `seq` of channel `chan`; returns the loggable result
/// and what the scripted broker must have answered for (chan, seq).
fn run_op(ctx: &Ctx, ch: &Channel, name: &str, chan: u16, seq: u32) -> (String, String) {
    let (a, b) = StdBroker::reply_values(chan, seq);
    match name {
        "declare" => {
            let r = ch.queue_declare("named", QueueDeclareOptions::default()).map(|q| (q.name().to_string(), q.declared_message_count(), q.declared_consumer_count()));
            (format!("{:?}", r.map_err(|e| err_name(&e))), format!("{:?}", Ok::<_, String>(("named".to_string(), Some(a), Some(b)))))
        }
        "declare_auto" => {
            let r = ch.queue_declare("", QueueDeclareOptions::default()).map(|q| (q.name().to_string(), q.declared_message_count(), q.declared_consumer_count()));
            (format!("{:?}", r.map_err(|e| err_name(&e))), format!("{:?}", Ok::<_, String>((format!("gen-{}-{}", chan, seq), Some(a), Some(b)))))
        }
        "declare_passive" => {
            let r = ch.queue_declare_passive("pq").map(|q| (q.name().to_string(), q.declared_message_count(), q.declared_consumer_count()));
            (format!("{:?}", r.map_err(|e| err_name(&e))), format!("{:?}", Ok::<_, String>(("pq".to_string(), Some(a), Some(b)))))
        }
        "purge" => {
            let r = ch.queue_purge("q");
            (format!("{:?}", r.map_err(|e| err_name(&e))), format!("{:?}", Ok::<u32, String>(a)))
        }
        "delete" => {
            let r = ch.queue_delete("q", QueueDeleteOptions::default());
            (format!("{:?}", r.map_err(|e| err_name(&e))), format!("{:?}", Ok::<u32, String>(a)))
        }
        "qos" => (format!("{:?}", ch.qos(0, 5, false).map_err(|e| err_name(&e))), "Ok(())".into()),
        "recover" => (format!("{:?}", ch.recover(true).map_err(|e| err_name(&e))), "Ok(())".into()),
        "bind" => (format!("{:?}", ch.queue_bind("q", "x", "k", FieldTable::new()).map_err(|e| err_name(&e))), "Ok(())".into()),
        "confirm" => (format!("{:?}", ch.enable_publisher_confirms().map_err(|e| err_name(&e))), "Ok(())".into()),
        "get_empty" => (format!("{:?}", ch.basic_get("q", true).map(|g| g.map(|g| g.delivery.delivery_tag())).map_err(|e| err_name(&e))), "Ok(None)".into()),
        "get_msg" => {
            let r = ch.basic_get("msgq", false).map(|g| g.map(|g| (g.delivery.delivery_tag(), g.message_count, String::from_utf8_lossy(&g.delivery.body).to_string())));
            (format!("{:?}", r.map_err(|e| err_name(&e))), expected_only(name, chan, seq).1)
        }
        "consume_cancel" => {
            // two requests: consume (seq) and cancel (seq+1)
            let r = ch.basic_consume("q", ConsumerOptions::default());
            match r {
                Ok(c) => {
                    let tag = c.consumer_tag().to_string();
                    let r2 = c.cancel();
                    let last = ctx.recv("consumer", c.receiver()).map(|m| consumer_msg_name(&m));
                    (format!("tag {} cancel {:?} last {:?}", tag, r2.map_err(|e| err_name(&e)), last.map_err(|_| "disconnected")), format!("tag ctag-{}-{} cancel Ok(()) last Ok(\"ClientCancelled\")", chan, seq))
                }
                Err(e) => (format!("Err({})", err_name(&e)), "consumer".into()),
            }
        }
        "consume_srv_cancel" => {
            // consume (seq); the server cancels the consumer itself; the client's own cancel (seq+1)
            // must still return once the server confirms it
            match ch.basic_consume("q", ConsumerOptions::default()) {
                Ok(c) => {
                    let first = ctx.recv("consumer", c.receiver()).map(|m| consumer_msg_name(&m));
                    let r2 = c.cancel();
                    (format!("first {:?} cancel {:?}", first.map_err(|_| "disconnected"), r2.map_err(|e| err_name(&e))), "first Ok(\"ServerCancelled\") cancel Ok(())".to_string())
                }
                Err(e) => (format!("Err({})", err_name(&e)), "consumer".into()),
            }
        }
        "handle_ops" => {
            // four requests: a declare answered with counts (0, 0), then purge, get and delete
            // through the Queue handle, which remembers those counts
            let want = expected_only(name, chan, seq).1;
            match ch.queue_declare("emptyq", QueueDeclareOptions::default()) {
                Ok(q) => {
                    let d = (q.declared_message_count(), q.declared_consumer_count());
                    let p = q.purge().map_err(|e| err_name(&e));
                    let g = q.get(true).map(|g| g.map(|g| g.delivery.delivery_tag())).map_err(|e| err_name(&e));
                    let x = q.delete(QueueDeleteOptions::default()).map_err(|e| err_name(&e));
                    (format!("declared {:?} purge {:?} get {:?} delete {:?}", d, p, g, x), want)
                }
                Err(e) => (format!("Err({})", err_name(&e)), want),
            }
        }
        "purge_then_closed" => {
            // the server answers the purge and closes the channel right behind the reply (one
            // transmission): the call gets its reply, the next call the server's close
            let r1 = ch.queue_purge("close-after-reply").map_err(|e| err_name(&e));
            let r2 = ch.queue_purge("q").map_err(|e| err_name(&e));
            (format!("{:?} then {:?}", r1, r2), expected_only(name, chan, seq).1)
        }
        "nowait_handles" => {
            // twelve requests, every one a nowait variant reached through a Queue / Exchange handle
            // (or the channel): none of them waits, each goes out with its nowait bit set
            let t = FieldTable::new();
            let mut r: Vec<String> = Vec::new();
            let mut note = |what: &str, x: Result<(), amiquip::Error>| r.push(format!("{}={}", what, if x.is_ok() { "Ok".to_string() } else { err_name(&x.unwrap_err()) }));
            match (ch.queue_declare_nowait("hq", QueueDeclareOptions::default()), ch.exchange_declare_nowait(ExchangeType::Direct, "xa", ExchangeDeclareOptions::default()), ch.exchange_declare_nowait(ExchangeType::Fanout, "xb", ExchangeDeclareOptions::default())) {
                (Ok(q), Ok(xa), Ok(xb)) => {
                    note("q.bind", q.bind_nowait(&xa, "k", t.clone()));
                    note("x.bind_src", xa.bind_to_source_nowait(&xb, "k", t.clone()));
                    note("x.bind_dst", xa.bind_to_destination_nowait(&xb, "k", t.clone()));
                    note("x.unbind_src", xa.unbind_from_source_nowait(&xb, "k", t.clone()));
                    note("x.unbind_dst", xa.unbind_from_destination_nowait(&xb, "k", t.clone()));
                    note("q.purge", q.purge_nowait());
                    note("q.delete", q.delete_nowait(QueueDeleteOptions::default()));
                    note("x.delete", xb.delete_nowait(false));
                    note("confirm", ch.enable_publisher_confirms_nowait());
                }
                _ => r.push("declare failed".into()),
            }
            (r.join(" "), "q.bind=Ok x.bind_src=Ok x.bind_dst=Ok x.unbind_src=Ok x.unbind_dst=Ok q.purge=Ok q.delete=Ok x.delete=Ok confirm=Ok".to_string())
        }
        "declare_nowait" => (format!("{:?}", ch.queue_declare_nowait("nw", QueueDeclareOptions::default()).map(|q| q.name().to_string()).map_err(|e| err_name(&e))), "Ok(\"nw\")".into()),
        "purge_nowait" => (format!("{:?}", ch.queue_purge_nowait("q").map_err(|e| err_name(&e))), "Ok(())".into()),
        "bind_nowait" => (format!("{:?}", ch.queue_bind_nowait("q", "x", "k", FieldTable::new()).map_err(|e| err_name(&e))), "Ok(())".into()),
        "delete_nowait" => (format!("{:?}", ch.queue_delete_nowait("q", QueueDeleteOptions::default()).map_err(|e| err_name(&e))), "Ok(())".into()),
        "publish" => (format!("{:?}", ch.basic_publish("", Publish::new(b"xyz", "k")).map_err(|e| err_name(&e))), "Ok(())".into()),
        "exchange_ops" => {
            // six requests: the synchronous exchange operations (declare, passive declare, bind,
            // unbind - through the channel and through a handle -, delete), each waits for its own -Ok
            let t = FieldTable::new();
            let mut r: Vec<String> = Vec::new();
            let mut note = |what: &str, x: Result<(), amiquip::Error>| r.push(format!("{}={}", what, if x.is_ok() { "Ok".to_string() } else { err_name(&x.unwrap_err()) }));
            match ch.exchange_declare(ExchangeType::Topic, "xa", ExchangeDeclareOptions::default()) {
                Ok(xa) => {
                    note("declare", Ok(()));
                    note("passive", ch.exchange_declare_passive("xb").map(|_| ()));
                    note("bind", ch.exchange_bind("xa", "xb", "k", t.clone()));
                    note("unbind", ch.exchange_unbind("xa", "xb", "k", t.clone()));
                    note("h.bind", xa.bind_to_source(&xa, "k2", t.clone()));
                    note("delete", xa.delete(false));
                }
                Err(e) => note("declare", Err(e)),
            }
            (r.join(" "), expected_only(name, chan, seq).1)
        }
        other => panic!("unknown op {}", other),
    }
}

/// What the scripted broker answers to op `name` issued as request `seq` of channel `chan`
/// (the value-carrying ops only; everything else does not depend on the numbering).
fn expected_only(name: &str, chan: u16, seq: u32) -> ((), String) {
    let (a, b) = StdBroker::reply_values(chan, seq);
    let w = match name {
        "declare" => format!("{:?}", Ok::<_, String>(("named".to_string(), Some(a), Some(b)))),
        "declare_auto" => format!("{:?}", Ok::<_, String>((format!("gen-{}-{}", chan, seq), Some(a), Some(b)))),
        "declare_passive" => format!("{:?}", Ok::<_, String>(("pq".to_string(), Some(a), Some(b)))),
        "purge" | "delete" => format!("{:?}", Ok::<u32, String>(a)),
        "consume_cancel" => format!("tag ctag-{}-{} cancel Ok(()) last Ok(\"ClientCancelled\")", chan, seq),
        "get_msg" => format!("Ok(Some(({}, {}, \"body-{}-{}\")))", a, b, chan, seq),
        "purge_then_closed" => format!("{:?} then {:?}", Ok::<u32, String>(a), Err::<u32, String>(format!("ServerClosedChannel({},406,PRECONDITION_FAILED - after the reply)", chan))),
        "handle_ops" => format!("declared (Some(0), Some(0)) purge {:?} get Ok(None) delete {:?}", Ok::<u32, String>(StdBroker::reply_values(chan, seq + 1).0), Ok::<u32, String>(StdBroker::reply_values(chan, seq + 3).0)),
        "qos" | "recover" | "bind" | "confirm" | "declare_nowait" | "purge_nowait" | "bind_nowait" | "delete_nowait" | "publish" => "Ok(())".to_string(),
        "nowait_handles" => "q.bind=Ok x.bind_src=Ok x.bind_dst=Ok x.unbind_src=Ok x.unbind_dst=Ok q.purge=Ok q.delete=Ok x.delete=Ok confirm=Ok".to_string(),
        "get_empty" => "Ok(None)".to_string(),
        "exchange_ops" => "declare=Ok passive=Ok bind=Ok unbind=Ok h.bind=Ok delete=Ok".to_string(),
        _ => String::new(),
    };
    ((), w)
}

fn seqs_used(op: &str) -> u32 {
    match op {
        "consume_cancel" | "consume_srv_cancel" => 2,
        "handle_ops" => 4,
        "exchange_ops" => 6,
        "nowait_handles" => 12,
        "publish" => 0, // a publish is not a request the broker numbers (Basic.Publish has no reply)
        _ => 1,
    }
}

impl Scenario for Rpc {
    fn name(&self) -> &'static str {
        "rpc"
    }
    fn property(&self) -> &'static str {
        "C04"
    }
    fn variants(&self, tier: &str) -> Vec<Value> {
        let mut v = vec![
            json!({"programs": [["declare", "purge"], ["declare_auto", "delete"], ["qos", "declare"]], "hold": true}),
            json!({"programs": [["consume_cancel", "get_empty"], ["purge", "confirm"], ["declare", "recover"]], "hold": true}),
            json!({"programs": [["declare_nowait", "declare"], ["purge_nowait", "purge"], ["bind_nowait", "delete"]], "hold": true}),
            json!({"programs": [["publish", "declare"], ["delete_nowait", "publish", "purge"], ["declare_passive", "bind"]], "hold": true}),
            json!({"programs": [["declare", "purge", "delete"], ["declare", "purge", "delete"]], "hold": false}),
            json!({"programs": [["consume_srv_cancel", "purge"], ["declare", "consume_srv_cancel"]], "hold": false}),
            json!({"programs": [["get_msg", "purge"], ["get_empty", "get_msg"], ["declare", "get_msg"]], "hold": true}),
            json!({"programs": [["handle_ops", "purge"], ["purge", "handle_ops"]], "hold": true}),
            json!({"programs": [["purge", "purge_then_closed"], ["declare", "purge"], ["purge", "declare"]], "hold": true}),
            json!({"programs": [["nowait_handles", "purge"], ["declare_nowait", "purge_nowait", "bind_nowait", "delete_nowait", "declare"]], "hold": true}),
            json!({"programs": [["purge_then_closed"], ["declare", "purge", "delete"]], "hold": false}),
            // channel ids closed and opened again (explicitly and by the allocator, channel_max 2)
            // before the calls: a reply must still find the channel that asked
            json!({"programs": [["declare", "purge"], ["purge", "declare"]], "hold": true, "reuse": "ab"}),
            json!({"programs": [["declare", "purge"], ["purge", "declare"]], "hold": true, "reuse": "ba"}),
        ];
        v.push(json!({"programs": [["declare", "purge"], ["publish", "delete"]], "hold": false, "fine": true}));
        v.push(json!({"programs": [["exchange_ops", "declare"], ["purge", "exchange_ops"]], "hold": true}));
        // a high-water mark below one publish (default low-water mark): every publish is a
        // throttling episode, and the calls behind it still get their own replies
        v.push(json!({"programs": [["publish", "declare", "purge"], ["purge", "publish", "declare"]], "hold": false, "high": 32}));
        if tier == "thorough" {
            v.push(json!({"programs": [["declare", "declare_auto", "declare_passive"], ["purge", "delete", "purge"], ["get_empty", "consume_cancel"]], "hold": true}));
            v.push(json!({"programs": [["bind", "declare"], ["recover", "purge"], ["confirm", "delete"]], "hold": false}));
        }
        v
    }
    fn bound(&self, tier: &str, p: &Value) -> usize {
        if p["fine"] == true {
            return if tier == "thorough" { 3 } else { 2 };
        }
        if tier == "thorough" {
            3
        } else {
            2
        }
    }
    fn describe(&self) -> String {
        "2-3 channels used from 2-3 threads, each running a program of 2-3 calls (sync calls with value-carrying replies, nowait variants, consume+cancel, publishes in between); the broker numbers requests per channel, derives every reply value from (channel, number) and releases replies per channel in every order the deviation bound allows; oracle: each call returns exactly the value generated for its own (channel, number)".into()
    }
    fn build(&self, p: &Value) -> Built {
        let mut broker = StdBroker::new(Handshake::default());
        broker.hold_replies = p["hold"] == true;
        let programs: Vec<Vec<String>> = p["programs"].as_array().unwrap().iter().map(|a| a.as_array().unwrap().iter().map(|x| x.as_str().unwrap().to_string()).collect()).collect();
        // a server-side cancel for every consume_srv_cancel op, offered once that consume was seen
        for (i, prog) in programs.iter().enumerate() {
            let chan = (i + 1) as u16;
            let mut seq = 2u32;
            for op in prog {
                if op == "consume_srv_cancel" {
                    let tag = format!("ctag-{}-{}", chan, seq);
                    broker.pushes.push(Push::new(&format!("srv-cancel-{}", chan), vec![AMQPFrame::Method(chan, AMQPClass::Basic(basic::AMQPMethod::Cancel(basic::Cancel { consumer_tag: tag, nowait: false })))]).when_channel(chan, seq));
                }
                seq += seqs_used(op);
            }
        }
        let mut cfg = EnvConfig::default();
        cfg.fine = p["fine"] == true;
        if cfg.fine {
            cfg.max_steps = 20000;
        }
        let reuse = p["reuse"].is_string();
        let close_b_first = p["reuse"] == "ba";
        let tuning = match p["high"].as_u64() {
            Some(h) => ConnectionTuning::default().buffered_writes_high_water(h as usize),
            None => ConnectionTuning::default(),
        };
        Built {
            broker: Box::new(broker),
            cfg,
            root: Box::new(move |ctx: Ctx| {
                let mut conn = match open(&ctx, ConnectionOptions::default().heartbeat(0).channel_max(if reuse { 2 } else { 0 }), tuning) {
                    Ok(c) => c,
                    Err(e) => {
                        ctx.log(format!("open -> Err({})", err_name(&e)));
                        return;
                    }
                };
                let mut pre: Vec<Result<Channel, amiquip::Error>> = Vec::new();
                if reuse {
                    // ids 1 and 2 handed out by the allocator and closed again; then id 1 is
                    // opened explicitly and the allocator is asked for one more channel: it must
                    // be id 2, and each channel's replies must find their own caller
                    let a = conn.open_channel(None).expect("first");
                    let b = conn.open_channel(None).expect("second");
                    if close_b_first {
                        b.close().expect("close second");
                        a.close().expect("close first");
                    } else {
                        a.close().expect("close first");
                        b.close().expect("close second");
                    }
                    pre.push(conn.open_channel(Some(1)));
                    pre.push(conn.open_channel(None));
                    pre.reverse();
                }
                let mut actors = Vec::new();
                for (i, prog) in programs.into_iter().enumerate() {
                    let chan = (i + 1) as u16;
                    let opened = if reuse { pre.pop().unwrap() } else { conn.open_channel(Some(chan)) };
                    if let (true, Ok(c)) = (reuse, &opened) {
                        if c.channel_id() != chan {
                            ctx.log(format!("open_channel{} -> Err(got id {})", chan, c.channel_id()));
                        }
                    }
                    let ch = match opened {
                        Ok(c) => c,
                        Err(e) => {
                            ctx.log(format!("open_channel{} -> Err({})", chan, err_name(&e)));
                            continue;
                        }
                    };
                    actors.push(ctx.spawn(&format!("c{}", chan), move |ctx| {
                        let mut seq = 2u32; // Channel.Open was request 1
                        // whether Consumer::cancel still sends Basic.Cancel for a consumer the
                        // server has already cancelled is the client's choice: after such an op
                        // both request numberings are legal
                        let mut slack = 0u32;
                        for (k, op) in prog.iter().enumerate() {
                            let (got, want) = run_op(&ctx, &ch, op, chan, seq);
                            let mut line = format!("{}#{} = {} | {}", op, k, got, want);
                            if slack > 0 && !want.starts_with("first") {
                                let (_, alt) = expected_only(op, chan, seq - slack);
                                if alt != want {
                                    line = format!("{} || {}", line, alt);
                                }
                            }
                            ctx.log(line);
                            seq += seqs_used(op);
                            if op == "consume_srv_cancel" {
                                slack += 1;
                            }
                        }
                        let r = ch.close();
                        if prog.last().map(|s| s.as_str()) == Some("purge_then_closed") {
                            // (the server has closed this channel: its own close cannot succeed)
                            ctx.log(format!("chclose -> {}", if r.is_err() { "Ok" } else { "Ok although the server had closed the channel" }));
                        } else {
                            ctx.log(format!("chclose -> {}", res(&r)));
                        }
                    }));
                }
                for a in actors {
                    ctx.join(a);
                }
                let r = conn.close();
                ctx.log(format!("close -> {}", res(&r)));
            }),
        }
    }
    fn check(&self, p: &Value, o: &Outcome, _w: &World) -> Vec<(String, String)> {
        let mut v = Vec::new();
        let n = p["programs"].as_array().unwrap().len();
        for i in 1..=n {
            let name = format!("c{}", i);
            let log = o.logs.get(&name).cloned().unwrap_or_default();
            let want_len = p["programs"][i - 1].as_array().unwrap().len() + 1;
            if log.len() != want_len {
                v.push(("rpc:incomplete".into(), format!("actor {} log {:?}", name, log)));
            }
            for l in &log {
                if let Some((lhs, want)) = l.split_once(" | ") {
                    let got = lhs.split_once(" = ").map(|x| x.1).unwrap_or("");
                    if !want.split(" || ").any(|w| w == got) {
                        let op = lhs.split('#').next().unwrap_or("");
                        v.push((format!("rpc:wrong-reply:{}", op), format!("channel {}: {} but the reply generated for this call was {}", i, lhs, want)));
                    }
                } else if l != "chclose -> Ok" {
                    v.push(("rpc:chclose".into(), format!("channel {}: {}", i, l)));
                }
            }
        }
        let main = o.logs.get("main").cloned().unwrap_or_default();
        if main != vec!["close -> Ok".to_string()] {
            v.push(("rpc:close".into(), format!("main log {:?}", main)));
        }
        // the nowait bit on the wire: set by the nowait variants, clear on their synchronous
        // twins (channels whose programs consist of ops with a fixed list of such methods)
        let fixed = |op: &str| -> Option<Vec<(u16, u16, bool)>> {
            Some(match op {
                "declare" | "declare_auto" | "declare_passive" => vec![(50, 10, false)],
                "purge" => vec![(50, 30, false)],
                "delete" => vec![(50, 40, false)],
                "bind" => vec![(50, 20, false)],
                "confirm" => vec![(85, 10, false)],
                "handle_ops" => vec![(50, 10, false), (50, 30, false), (50, 40, false)],
                "exchange_ops" => vec![(40, 10, false), (40, 10, false), (40, 30, false), (40, 40, false), (40, 30, false), (40, 20, false)],
                "declare_nowait" => vec![(50, 10, true)],
                "purge_nowait" => vec![(50, 30, true)],
                "bind_nowait" => vec![(50, 20, true)],
                "delete_nowait" => vec![(50, 40, true)],
                "nowait_handles" => vec![(50, 10, true), (40, 10, true), (40, 10, true), (50, 20, true), (40, 30, true), (40, 30, true), (40, 40, true), (40, 40, true), (50, 30, true), (50, 40, true), (40, 20, true), (85, 10, true)],
                "qos" | "recover" | "get_empty" | "get_msg" | "publish" => vec![],
                _ => return None,
            })
        };
        let nowait_bit = |class: u16, method: u16| -> Option<u8> {
            Some(match (class, method) {
                (40, 10) | (50, 10) => 4,
                (40, 20) => 1,
                (40, 30) | (40, 40) | (50, 20) | (50, 30) | (85, 10) => 0,
                (50, 40) => 2,
                _ => return None,
            })
        };
        let (envs, _) = wire_frames(o);
        for i in 1..=n {
            let ops: Vec<String> = p["programs"][i - 1].as_array().unwrap().iter().map(|x| x.as_str().unwrap().to_string()).collect();
            let want: Option<Vec<(u16, u16, bool)>> = ops.iter().map(|op| fixed(op)).collect::<Option<Vec<_>>>().map(|x| x.concat());
            let want = match want {
                Some(w) => w,
                None => continue,
            };
            let mut got: Vec<(u16, u16, bool)> = Vec::new();
            for e in envs.iter().filter(|e| e.chan == i as u16 && e.ty == 1) {
                if let Ok((c, m, Some(bits))) = vh::wire::request_bits(&e.payload) {
                    if let Some(b) = nowait_bit(c, m) {
                        got.push((c, m, bits & (1 << b) != 0));
                    }
                }
            }
            if got != want {
                v.push(("rpc:nowait-bits".into(), format!("channel {}: (class, method, nowait) of the requests on the wire {:?} expected {:?}", i, got, want)));
            }
        }
        v
    }
}

// -----------------------------------------------------------------------------------------
// C09

pub struct ChClose;

impl Scenario for ChClose {
    fn name(&self) -> &'static str {
        "chclose"
    }
    fn property(&self) -> &'static str {
        "C09"
    }
    fn variants(&self, tier: &str) -> Vec<Value> {
        let mut v = Vec::new();
        for n in [1u16, 2, 3] {
            // idleclose: the first call made on the closed channel is Channel::close itself
            // idlelisten / idleconfirms: ... is the registration of a return / confirm listener
            for state in ["idle", "inflight", "halfcontent", "consumers", "crossing", "idleclose", "idlelisten", "idleconfirms"] {
                if tier != "thorough" && !(n == 1 || (n == 2 && state == "inflight") || (n == 3 && state == "idle")) {
                    continue;
                }
                v.push(json!({"n": n, "state": state}));
            }
        }
        // the channel had a consumer earlier, cancelled by the client and dropped: nothing of it
        // is in the way when the server closes the channel
        v.push(json!({"n": 1, "state": "idle", "excons": true}));
        v.push(json!({"n": 2, "state": "inflight", "excons": true}));
        v.push(json!({"n": 1, "state": "crossing-reuse"}));
        // ... and the automatic allocation right after crossing closes of the newest channel: it
        // must not hand out the id whose CloseOk is still on its way
        v.push(json!({"n": 3, "state": "crossing-reuse-none"}));
        // every kind of reply code and text (no deviation: the values are what is swept)
        for code in [0u16, 1, 200, 311, 404, 541, 65535] {
            for (text, state) in [("", "inflight"), ("NOT_FOUND - no queue 'q' in vhost '/'", "consumers"), ("gr\u{fc}\u{df} \u{4e16}", "idle")] {
                v.push(json!({"n": 1, "state": state, "code": code, "text": text, "codes": true}));
            }
        }
        // fine mode: client threads run between the I/O thread's individual takes and hand-overs
        v.push(json!({"n": 2, "state": "inflight", "fine": true}));
        // (one consumer only: the order in which several consumers of a channel are notified is the
        // iteration order of a randomly seeded HashMap, which fine mode would make visible)
        v.push(json!({"n": 1, "state": "halfcontent", "fine": true}));
        if tier == "thorough" {
            v.push(json!({"n": 1, "state": "crossing", "fine": true}));
            v.push(json!({"n": 3, "state": "idle", "fine": true}));
            v.push(json!({"n": 1, "state": "consumers", "fine": true}));
        }
        v
    }
    fn bound(&self, tier: &str, p: &Value) -> usize {
        if p["codes"] == true {
            return if tier == "thorough" { 1 } else { 0 };
        }
        if p["state"] == "crossing-reuse" || p["state"] == "crossing-reuse-none" {
            return 2;
        }
        if p["fine"] == true {
            return if tier == "thorough" { 2 } else { 1 };
        }
        if tier == "thorough" {
            3
        } else {
            2
        }
    }
    fn describe(&self) -> String {
        "three channels on three threads; the server closes channel n (each n) while it is idle / has a call in flight / has content half received / has two consumers attached, pushed at any point; the other channels keep making value-carrying calls; afterwards the connection re-opens id n".into()
    }
    fn build(&self, p: &Value) -> Built {
        let n = p["n"].as_u64().unwrap() as u16;
        let state = p["state"].as_str().unwrap().to_string();
        let mut broker = StdBroker::new(Handshake::default());
        let mut frames = Vec::new();
        if state == "halfcontent" {
            frames.push(AMQPFrame::Method(n, AMQPClass::Basic(basic::AMQPMethod::Deliver(basic::Deliver { consumer_tag: format!("ctag-{}-2", n), delivery_tag: 1, redelivered: false, exchange: "e".into(), routing_key: "k".into() }))));
            frames.push(AMQPFrame::Header(n, 60, Box::new(AMQPContentHeader { class_id: 60, weight: 0, body_size: 3, properties: Default::default() })));
            frames.push(AMQPFrame::Body(n, vec![1]));
        }
        let reuse = state == "crossing-reuse";
        let reuse_none = state == "crossing-reuse-none";
        let state = if reuse || reuse_none { "crossing".to_string() } else { state };
        let code = p["code"].as_u64().unwrap_or(406) as u16;
        let text = p["text"].as_str().unwrap_or("PRECONDITION_FAILED").to_string();
        frames.push(chan_close_frame(n, code, &text));
        // offered once channel n's actor has sent its first request (so that the state exists)
        let excons = p["excons"] == true;
        let need = match state.as_str() {
            "consumers" => 3, // open + two consumes
            _ => 2,           // open + one request (purge / consume / delete)
        } + if excons { 2 } else { 0 }; // ... + the earlier consumer's consume and cancel
        broker.pushes.push(Push::new("chan-close", frames).when_channel(n, need));
        if state == "inflight" {
            broker.mute.push((50, 40)); // queue.delete is never answered: the call stays in flight
        }
        let mut cfg = EnvConfig::default();
        cfg.fine = p["fine"] == true;
        if cfg.fine {
            cfg.max_steps = 20000;
        }
        let st2 = state.clone();
        Built {
            broker: Box::new(broker),
            cfg,
            root: Box::new(move |ctx: Ctx| {
                let mut conn = match open(&ctx, ConnectionOptions::default().heartbeat(0), ConnectionTuning::default()) {
                    Ok(c) => c,
                    Err(e) => {
                        ctx.log(format!("open -> Err({})", err_name(&e)));
                        return;
                    }
                };
                let mut actors = Vec::new();
                for chan in 1..=3u16 {
                    // (reuse-none: every channel comes from the automatic allocation, 1, 2, 3 in turn)
                    let ch = if reuse_none { conn.open_channel(None) } else { conn.open_channel(Some(chan)) }.expect("open_channel");
                    assert_eq!(ch.channel_id(), chan, "fresh connection: ids are handed out in order");
                    let state = if st2 == "crossing-reuse" || st2 == "crossing-reuse-none" { "crossing".to_string() } else { st2.clone() };
                    actors.push((chan, ctx.spawn(&format!("c{}", chan), move |ctx| {
                        let mut seq = 2u32;
                        if chan == n {
                            // the channel that will be closed
                            if excons {
                                match ch.basic_consume("q", ConsumerOptions::default()) {
                                    Ok(c) => {
                                        let r = c.cancel();
                                        if r.is_err() {
                                            ctx.log(format!("cancel -> {}", res(&r)));
                                        }
                                        drop(c);
                                    }
                                    Err(e) => ctx.log(format!("consume -> Err({})", err_name(&e))),
                                }
                                seq += 2;
                            }
                            let mut consumers = Vec::new();
                            if state == "consumers" || state == "halfcontent" {
                                for _ in 0..(if state == "consumers" { 2 } else { 1 }) {
                                    let c = ch.basic_consume("q", ConsumerOptions::default());
                                    seq += 1;
                                    ctx.log(format!("consume -> {}", res(&c)));
                                    if let Ok(c) = c {
                                        consumers.push(c);
                                    }
                                }
                            } else {
                                let (got, want) = run_op(&ctx, &ch, "purge", chan, seq);
                                seq += 1;
                                ctx.log(format!("purge#0 = {} | {}", got, want));
                            }
                            if state == "inflight" {
                                let r = ch.queue_delete("q", QueueDeleteOptions::default());
                                ctx.log(format!("delete -> {:?}", r.map_err(|e| err_name(&e))));
                            } else if state == "crossing" {
                                // the client closes the channel itself; the server's close may cross it
                            } else if state == "idle" || state == "idleclose" || state == "idlelisten" || state == "idleconfirms" {
                                // virtual time only passes once nothing else can happen, i.e.
                                // after the server's close has been pushed and handled
                                ctx.sleep_ms(10);
                                ctx.log("AFTER");
                            } else {
                                for (i, c) in consumers.iter().enumerate() {
                                    drain_consumer(&ctx, &format!("consumer{}", i), c.receiver());
                                }
                            }
                            // next calls after the close
                            if state != "crossing" && state != "idleclose" {
                                let r = match state.as_str() {
                                    "idlelisten" => ch.listen_for_returns().map(|_| ()),
                                    "idleconfirms" => ch.listen_for_publisher_confirms().map(|_| ()),
                                    _ => ch.qos(0, 1, false),
                                };
                                ctx.log(format!("next -> {:?}", r.map_err(|e| err_name(&e))));
                                let r = ch.qos(0, 1, false);
                                ctx.log(format!("later -> {:?}", r.map_err(|e| err_name(&e))));
                            }
                            for c in consumers {
                                std::mem::forget(c);
                            }
                            let _ = seq;
                            let r = ch.close();
                            ctx.log(format!("chclose -> {:?}", r.map_err(|e| err_name(&e))));
                        } else {
                            for (k, op) in ["declare", "purge"].iter().enumerate() {
                                let (got, want) = run_op(&ctx, &ch, op, chan, seq);
                                seq += 1;
                                ctx.log(format!("{}#{} = {} | {}", op, k, got, want));
                            }
                            let r = ch.close();
                            ctx.log(format!("chclose -> {}", res(&r)));
                        }
                    })));
                }
                for (chan, a) in actors {
                    ctx.join(a);
                    if chan == n && reuse_none {
                        let r = conn.open_channel(None);
                        ctx.log(format!("reopen-none -> {:?}", r.as_ref().map(|c| c.channel_id()).map_err(err_name)));
                        if let Ok(c) = r {
                            let r = c.qos(0, 1, false);
                            ctx.log(format!("use-none -> {}", res(&r)));
                            let r = c.close();
                            ctx.log(format!("reclose -> {}", res(&r)));
                        }
                    } else if chan == n && st2 == "crossing" && !reuse {
                        // id n must be available again - but see known_findings.json: reusing the id
                        // right after crossing closes can meet the server's late CloseOk; probed
                        // separately by variant crossing-reuse
                        // so this variant first lets everything in flight settle (virtual
                        // time only passes at quiescence), then asks for id n again
                        ctx.sleep_ms(10);
                        let r = conn.open_channel(Some(n));
                        ctx.log(format!("reopen -> {:?}", r.as_ref().map(|c| c.channel_id()).map_err(err_name)));
                        if let Ok(c) = r {
                            let r = c.close();
                            ctx.log(format!("reclose -> {}", res(&r)));
                        }
                    } else if chan == n {
                        // id n must be available again
                        let r = conn.open_channel(Some(n));
                        ctx.log(format!("reopen -> {:?}", r.as_ref().map(|c| c.channel_id()).map_err(err_name)));
                        if let Ok(c) = r {
                            let r = c.close();
                            ctx.log(format!("reclose -> {}", res(&r)));
                        }
                    }
                }
                let r = conn.close();
                ctx.log(format!("close -> {}", res(&r)));
            }),
        }
    }
    fn check(&self, p: &Value, o: &Outcome, _w: &World) -> Vec<(String, String)> {
        use vh::sim::world::IoEvent;
        let mut v = Vec::new();
        let n = p["n"].as_u64().unwrap() as u16;
        let state = p["state"].as_str().unwrap();
        let reuse = state == "crossing-reuse";
        let reuse_none = state == "crossing-reuse-none";
        let state = if reuse || reuse_none { "crossing" } else { state };
        let closed = o.io_events.iter().any(|e| matches!(e, IoEvent::Frame(AMQPFrame::Method(c, AMQPClass::Channel(amq_protocol::protocol::channel::AMQPMethod::Close(_)))) if *c == n));
        let code = p["code"].as_u64().unwrap_or(406);
        let text = p["text"].as_str().unwrap_or("PRECONDITION_FAILED").to_string();
        let want_err = format!("Err(ServerClosedChannel({},{},{}))", n, code, text);
        for chan in 1..=3u16 {
            let log = o.logs.get(&format!("c{}", chan)).cloned().unwrap_or_default();
            if chan != n {
                // untouched channels: every call returns its own reply
                if log.len() != 3 {
                    v.push(("chclose:other-incomplete".into(), format!("channel {} log {:?}", chan, log)));
                }
                for l in &log {
                    if let Some((lhs, want)) = l.split_once(" | ") {
                        let got = lhs.split_once(" = ").map(|x| x.1).unwrap_or("");
                        if got != want {
                            v.push(("chclose:other-channel-disturbed".into(), format!("channel {} (not closed): {} expected {}", chan, lhs, want)));
                        }
                    } else if l != "chclose -> Ok" {
                        v.push(("chclose:other-channel-disturbed".into(), format!("channel {} (not closed): {}", chan, l)));
                    }
                }
            } else if closed && (state == "crossing" || state == "idleclose") {
                // the client's own Channel::close is the call in flight (crossing) or the next call
                // (idleclose) when the server closes channel n: it is that call which reports the
                // server's close (the server's Close always precedes its CloseOk in the stream)
                let ok = log.iter().any(|l| *l == format!("chclose -> Err(\"ServerClosedChannel({},{},{})\")", n, code, text));
                if !ok {
                    v.push(("chclose:close-call-result".into(), format!("channel {} (state {}): Channel::close was the first call to meet the server's close and must report it: {:?}", n, state, log)));
                }
            } else if closed {
                // first failing call names the cause; later calls keep failing
                let mut results: Vec<(String, String)> = log.iter().filter_map(|l| l.split_once(" -> ").map(|(a, b)| (a.to_string(), b.replace('"', "")))).filter(|(a, _)| !a.starts_with("consumer") && a != "chclose").collect();
                // the value-carrying first request of the idle state
                if let Some(l) = log.iter().find(|l| l.starts_with("purge#0 = ")) {
                    let (got, want) = l.split_once(" = ").unwrap().1.split_once(" | ").unwrap();
                    if got.starts_with("Ok") && got != want {
                        v.push(("chclose:wrong-reply-before-close".into(), format!("channel {}: purge returned {} but its reply carried {}", n, got, want)));
                    }
                    results.insert(0, ("purge".to_string(), got.replace('"', "")));
                }
                let after_marker = !state.starts_with("idle") || log.iter().any(|l| l == "AFTER");
                let first_err = results.iter().position(|(_, r)| r.starts_with("Err"));
                match first_err {
                    None => {
                        if after_marker {
                            v.push(("chclose:closed-channel-never-failed".into(), format!("{:?}", log)));
                        }
                    }
                    Some(i) => {
                        if results[i].1 != want_err {
                            v.push((format!("chclose:first-error:{}", results[i].1), format!("channel {}: {} -> {} expected {}; log {:?}", n, results[i].0, results[i].1, want_err, log)));
                        }
                        if let Some((op, r)) = results[i..].iter().find(|(_, r)| !r.starts_with("Err")) {
                            v.push(("chclose:call-after-close-succeeded".into(), format!("channel {}: {} -> {}; log {:?}", n, op, r, log)));
                        }
                    }
                }
                let n_cons = log.iter().filter(|l| *l == "consume -> Ok").count();
                if state != "inflight" {
                    for i in 0..n_cons {
                        let msgs: Vec<&String> = log.iter().filter(|l| l.starts_with(&format!("consumer{} <- ", i))).collect();
                        let want = format!("consumer{} <- ServerClosedChannel[ServerClosedChannel({},{},{})]", i, n, code, text);
                        if msgs.len() != 1 || *msgs[0] != want {
                            v.push(("chclose:consumer-terminal".into(), format!("consumer {} saw {:?} expected [{}]", i, msgs, want)));
                        }
                    }
                }
            }
        }
        if reuse_none {
            let main = o.logs.get("main").cloned().unwrap_or_default();
            let ok = main.iter().any(|l| l.starts_with("reopen-none -> Ok(")) && main.iter().any(|l| l == "use-none -> Ok") && main.iter().any(|l| l == "reclose -> Ok") && main.last().map(|s| s.as_str()) == Some("close -> Ok");
            if !ok {
                v.push(("chclose:open-none-after-crossing".into(), format!("server and client closed channel {} at the same time; a channel opened automatically right afterwards must work: {:?}", n, main)));
            }
        }
        if reuse {
            // the one interleaving recorded as a known finding: the server's CloseOk for the
            // client's crossing Close arrives after id n was opened again
            let main = o.logs.get("main").cloned().unwrap_or_default();
            if main.iter().any(|l| l == "reopen -> Err(\"FrameUnexpected\")") {
                // the connection then dies, taking the other channels with it: everything else
                // observed in this execution is a consequence of the one finding
                return vec![("chclose:crossing-id-reuse".into(), format!("server and client closed channel {} at the same time, the id was reopened at once and the server's late CloseOk hit the new channel: {:?}", n, main))];
            }
        }
        if closed {
            // Channel.CloseOk on n was written
            let (envs, _) = wire_frames(o);
            let n_ok = envs.iter().filter(|e| e.chan == n && is_method(e, 20, 41)).count();
            if n_ok == 0 {
                v.push(("chclose:no-close-ok".into(), format!("no Channel.CloseOk on channel {} on the wire", n)));
            } else if n_ok != 1 {
                v.push(("chclose:close-ok-count".into(), format!("{} Channel.CloseOk frames on channel {} for one server close", n_ok, n)));
            }
            // ... and before the id is used again
            let first_ok = envs.iter().position(|e| e.chan == n && is_method(e, 20, 41));
            let opens: Vec<usize> = envs.iter().enumerate().filter(|(_, e)| e.chan == n && is_method(e, 20, 10)).map(|(i, _)| i).collect();
            if let (Some(ok), Some(second_open)) = (first_ok, opens.get(1)) {
                if ok > *second_open {
                    v.push(("chclose:close-ok-after-reopen".into(), format!("Channel.CloseOk for the closed channel {} written after the id was opened again", n)));
                }
            }
            let main = o.logs.get("main").cloned().unwrap_or_default();
            if !reuse_none && !main.iter().any(|l| *l == format!("reopen -> Ok({})", n)) {
                v.push(("chclose:id-not-reusable".into(), format!("main log {:?}", main)));
            } else if !main.iter().any(|l| l == "reclose -> Ok") {
                v.push(("chclose:reopened-channel-unusable".into(), format!("main log {:?}", main)));
            }
        }
        let main = o.logs.get("main").cloned().unwrap_or_default();
        if main.last().map(|s| s.as_str()) != Some("close -> Ok") {
            v.push(("chclose:connection-disturbed".into(), format!("main log {:?}", main)));
        }
        v
    }
}

// -----------------------------------------------------------------------------------------
// C02 (E2 part): published messages on the wire of a live connection under backpressure

pub struct PubWire;

fn pubwire_body(chan: u16, k: usize, len: usize) -> Vec<u8> {
    (0..len).map(|i| ((i * 7 + k * 31 + chan as usize * 101) % 251) as u8).collect()
}

fn pubwire_props(k: usize) -> amiquip::AmqpProperties {
    match k % 3 {
        0 => amiquip::AmqpProperties::default(),
        1 => amiquip::AmqpProperties::default().with_content_type("text/plain".into()).with_delivery_mode(2),
        _ => amiquip::AmqpProperties::default().with_message_id(format!("m{}", k)).with_priority(9).with_timestamp(1234),
    }
}

const PUBWIRE_LENS: [usize; 6] = [0, 1, 4088, 4089, 9000, 3];

fn pubwire_lens(p: &Value) -> Vec<usize> {
    if let Some(big) = p["big"].as_u64() {
        return vec![1, big as usize, 3];
    }
    if p["cancel"] == true {
        PUBWIRE_LENS[..3].to_vec()
    } else {
        PUBWIRE_LENS.to_vec()
    }
}

impl Scenario for PubWire {
    fn name(&self) -> &'static str {
        "pubwire"
    }
    fn property(&self) -> &'static str {
        "C02"
    }
    fn variants(&self, _tier: &str) -> Vec<Value> {
        // cancel: channel 1 also has a consumer, which the server cancels at any point; the client's
        // CancelOk belongs to channel 1's frames and must not split a message
        // (chmax: the server's channel_max - no limit, and a limit just above frame_max; the body
        // frames are cut by frame_max whatever the other negotiated numbers are)
        vec![json!({"stall": null}), json!({"stall": 400}), json!({"stall": 5000}), json!({"stall": null, "cancel": true}), json!({"stall": null, "chmax": 0}), json!({"stall": 400, "chmax": 4097}),
            // fine mode: a publisher refills its queue (bound 2) while the I/O thread is taking from it
            json!({"stall": null, "fine": true}),
            // a message of 35 body frames (more than 128 KiB on the wire) on the channel whose
            // consumer the server cancels, through a queue of one entry
            json!({"stall": null, "cancel": true, "big": 140000, "qbound": 1}),
            // a high-water mark below one message (default low-water mark): throttling episodes
            // while the messages go out
            json!({"stall": 400, "high": 64}), json!({"stall": null, "high": 64})]
    }
    fn bound(&self, tier: &str, p: &Value) -> usize {
        if p["fine"] == true {
            return if tier == "thorough" { 2 } else { 1 };
        }
        if tier == "thorough" {
            3
        } else {
            2
        }
    }
    fn describe(&self) -> String {
        "two threads publish six messages each (bodies of 0, 1, frame_max-8, frame_max-7, 9000 and 3 bytes with frame_max 4096; different exchanges, routing keys, mandatory/immediate flags and properties) on channels 1 and 2 of a live connection whose transport accepts writes in part and stalls (after 400 or 5000 bytes, until granted); oracle on the bytes the transport accepted: per channel, each publish is a Basic.Publish with exactly its exchange, routing key and flags, one content header with the body length and its properties, then body frames of at most frame_max bytes each whose payloads concatenate to the body (none for the empty body), contiguous and in publish order".into()
    }
    fn build(&self, p: &Value) -> Built {
        let mut hs = Handshake::default();
        hs.tune = (p["chmax"].as_u64().unwrap_or(2047) as u16, 4096, 0);
        let mut broker = StdBroker::new(hs);
        let cancel = p["cancel"] == true;
        if cancel {
            broker.pushes.push(Push::new("srv-cancel", vec![AMQPFrame::Method(1, AMQPClass::Basic(basic::AMQPMethod::Cancel(basic::Cancel { consumer_tag: "ctag-1-2".into(), nowait: false })))]).when_channel(1, 2));
        }
        let mut cfg = EnvConfig::default();
        cfg.write_cuts = !cancel && p["fine"] != true;
        cfg.write_cut_limit = 2;
        cfg.grant_menu = vec![1];
        cfg.fine = p["fine"] == true;
        if cfg.fine {
            cfg.max_steps = 40000;
        }
        if let Some(n) = p["stall"].as_u64() {
            cfg.stall_after = Some(n as usize);
        }
        let lens = pubwire_lens(p);
        let qbound = p["qbound"].as_u64().unwrap_or(2) as usize;
        let high = p["high"].as_u64().map(|h| h as usize);
        Built {
            broker: Box::new(broker),
            cfg,
            root: Box::new(move |ctx: Ctx| {
                let mut conn = match open(&ctx, ConnectionOptions::default().heartbeat(0), match high { Some(h) => ConnectionTuning::default().mem_channel_bound(qbound).buffered_writes_high_water(h), None => ConnectionTuning::default().mem_channel_bound(qbound) }) {
                    Ok(c) => c,
                    Err(e) => {
                        ctx.log(format!("open -> Err({})", err_name(&e)));
                        return;
                    }
                };
                let mut actors = Vec::new();
                for chan in 1..=2u16 {
                    let ch = conn.open_channel(Some(chan)).expect("open_channel");
                    let lens = lens.clone();
                    actors.push(ctx.spawn(&format!("w{}", chan), move |ctx| {
                        let cons = if cancel && chan == 1 { Some(ch.basic_consume("q", ConsumerOptions::default())) } else { None };
                        for (k, len) in lens.iter().enumerate() {
                            let body = pubwire_body(chan, k, *len);
                            let publish = Publish { body: &body, routing_key: format!("rk{}", k), mandatory: k % 2 == 1, immediate: k % 4 >= 2, properties: pubwire_props(k) };
                            let r = ch.basic_publish(format!("ex{}", chan), publish);
                            ctx.log(format!("publish{} -> {}", k, res(&r)));
                        }
                        std::mem::forget(cons);
                        let r = ch.close();
                        ctx.log(format!("chclose -> {}", res(&r)));
                    }));
                }
                for a in actors {
                    ctx.join(a);
                }
                let r = conn.close();
                ctx.log(format!("close -> {}", res(&r)));
            }),
        }
    }
    fn check(&self, p: &Value, o: &Outcome, _w: &World) -> Vec<(String, String)> {
        use amq_protocol::frame::AMQPFrame as F;
        let lens = pubwire_lens(p);
        let mut v = Vec::new();
        let (envs, rest) = wire_frames(o);
        if rest != 0 {
            v.push(("pubwire:partial-frame".into(), format!("{} trailing bytes", rest)));
        }
        for chan in 1..=2u16 {
            let log = o.logs.get(&format!("w{}", chan)).cloned().unwrap_or_default();
            if log.len() != lens.len() + 1 || log.iter().any(|l| !l.ends_with("-> Ok")) {
                v.push(("pubwire:publisher-failed".into(), format!("publisher {} log {:?}", chan, log)));
                continue;
            }
            let frames: Vec<&vh::wire::Env> = envs.iter().filter(|e| e.chan == chan).collect();
            let mut i = 0usize;
            let mut fail = |what: String| v.push(("pubwire:message-not-as-published".into(), format!("channel {}: {}", chan, what)));
            if !frames.first().map(|e| is_method(e, 20, 10)).unwrap_or(false) {
                fail("first frame is not Channel.Open".into());
                continue;
            }
            i += 1;
            let mut ok = true;
            // between two messages (never inside one) the channel's other frames may appear: the
            // consume request and the answer to the server's cancel
            let skip_other = |i: &mut usize| {
                while frames.get(*i).map(|e| is_method(e, 60, 20) || is_method(e, 60, 31)).unwrap_or(false) {
                    *i += 1;
                }
            };
            for (k, len) in lens.iter().enumerate() {
                let body = pubwire_body(chan, k, *len);
                skip_other(&mut i);
                match frames.get(i).and_then(|e| e.decode()) {
                    Some(F::Method(_, AMQPClass::Basic(basic::AMQPMethod::Publish(m)))) => {
                        if m.exchange != format!("ex{}", chan) || m.routing_key != format!("rk{}", k) || m.mandatory != (k % 2 == 1) || m.immediate != (k % 4 >= 2) {
                            fail(format!("publish {}: method carries {:?}", k, m));
                            ok = false;
                            break;
                        }
                    }
                    other => {
                        fail(format!("publish {}: expected Basic.Publish at frame {}, found {:?}", k, i, other.map(|f| vh::wire::brief(&f))));
                        ok = false;
                        break;
                    }
                }
                i += 1;
                match frames.get(i).and_then(|e| e.decode()) {
                    Some(F::Header(_, class, h)) => {
                        if class != 60 || h.body_size != *len as u64 || format!("{:?}", h.properties) != format!("{:?}", pubwire_props(k)) {
                            fail(format!("publish {}: header says class {} size {} properties {:?}; published {} bytes with {:?}", k, class, h.body_size, h.properties, len, pubwire_props(k)));
                            ok = false;
                            break;
                        }
                    }
                    other => {
                        fail(format!("publish {}: expected a content header at frame {}, found {:?}", k, i, other.map(|f| vh::wire::brief(&f))));
                        ok = false;
                        break;
                    }
                }
                i += 1;
                let mut got: Vec<u8> = Vec::new();
                while let Some(e) = frames.get(i) {
                    if e.ty != 3 {
                        break;
                    }
                    if e.wire_len() > 4096 {
                        fail(format!("publish {}: body frame of {} bytes on the wire, frame_max is 4096", k, e.wire_len()));
                        ok = false;
                    }
                    if e.payload.is_empty() {
                        fail(format!("publish {}: empty body frame", k));
                        ok = false;
                    }
                    got.extend_from_slice(&e.payload);
                    i += 1;
                }
                if got != body {
                    fail(format!("publish {}: body frames carry {} bytes that {} the {} published", k, got.len(), if got.len() == body.len() { "differ from" } else { "are not" }, body.len()));
                    ok = false;
                }
                if !ok {
                    break;
                }
            }
            let rest = &frames[i.min(frames.len())..];
            let tail_ok = rest.iter().filter(|e| is_method(e, 20, 40)).count() == 1 && rest.iter().all(|e| is_method(e, 20, 40) || is_method(e, 60, 20) || is_method(e, 60, 31));
            if ok && !tail_ok {
                fail(format!("after the last message: expected Channel.Close and nothing else, found {} more frames", frames.len() - i));
            }
        }
        let main = o.logs.get("main").cloned().unwrap_or_default();
        if main != vec!["close -> Ok".to_string()] {
            v.push(("pubwire:close".into(), format!("main log {:?}", main)));
        }
        v
    }
}

// -----------------------------------------------------------------------------------------
// C10 (E2 part): channel ids through the live I/O thread

pub struct Ids;

impl Scenario for Ids {
    fn name(&self) -> &'static str {
        "ids"
    }
    fn property(&self) -> &'static str {
        "C10"
    }
    fn variants(&self, _tier: &str) -> Vec<Value> {
        vec![
            json!({"max": 0, "ops": ["some:65535", "call:0", "none", "call:1", "close:0", "some:65535", "call:2", "some:0", "some:65535", "some:65534", "call:3"]}),
            json!({"max": 2, "ops": ["none", "none", "none", "call:0", "close:0", "none", "call:2", "some:0", "some:3", "close:1", "some:2", "call:3", "none"]}),
            json!({"max": 1, "ops": ["none", "none", "close:0", "some:1", "none", "call:1", "close:1", "none", "call:2", "some:1"]}),
            json!({"max": 3, "ops": ["some:2", "none", "none", "none", "close:0", "some:2", "none", "close:1", "close:2", "none", "none", "none"]}),
            // channels that go away without Channel::close: dropped, dropped while their thread
            // unwinds from a panic, closed by the server (then dropped)
            json!({"max": 2, "ops": ["some:1", "none", "unwind:0", "some:1", "call:2", "drop:1", "none", "call:3", "none", "unwind:2", "unwind:3", "none", "none", "none"]}),
            json!({"max": 2, "ops": ["none", "none", "srvclose:0", "srvclose:1", "some:2", "none", "call:2", "call:3", "none", "srvclose:3", "none", "srvclose:2", "srvclose:5", "none", "none", "none"]}),
            json!({"max": 3, "ops": ["none", "none", "none", "srvclose:1", "close:0", "drop:2", "some:3", "none", "none", "none", "call:3", "call:4", "call:5"]}),
            // closed by both sides at once ("xclose": the server's own Close of that channel was
            // already on the wire when the client's arrived; the server's CloseOk follows it in the
            // same transmission - delivered whole, see build): the id is available again at once,
            // to the explicit and to the automatic allocation
            json!({"max": 2, "cross": 2, "ops": ["none", "none", "xclose:1", "some:2", "call:2", "none", "call:0", "close:2", "none", "call:4", "some:2"]}),
            json!({"max": 2, "cross": 2, "ops": ["none", "none", "xclose:1", "none", "call:2", "none", "close:0", "some:1", "call:4", "close:2", "none", "none"]}),
        ]
    }
    fn bound(&self, tier: &str, _p: &Value) -> usize {
        if tier == "thorough" {
            2
        } else {
            1
        }
    }
    fn describe(&self) -> String {
        "sequences of open_channel(None), open_channel(Some(id)), a call on an open channel and Channel::close on a live connection with channel_max 1, 2, 3 and 65535 (ids 0, max, max+1, a reopened id, exhaustion and reuse); every result is compared with a set-of-open-ids reference: Some(id) yields exactly id iff id is in range and not open, None yields some id in range that is not open iff one exists, calls on every channel handed out work".into()
    }
    fn build(&self, p: &Value) -> Built {
        let max = p["max"].as_u64().unwrap() as u16;
        let mut hs = Handshake::default();
        // the server imposes no limit of its own: the client's option decides (0 = 65535)
        hs.tune = (0, 131072, 0);
        let mut broker = StdBroker::new(hs);
        // server-initiated closes, released by the program itself ("srvclose")
        for id in 1..=3u16 {
            for k in 0..4 {
                broker.pushes.push(Push::new(&format!("sc{}.{}", id, k), vec![chan_close_frame(id, 406, "bye")]).manual());
            }
        }
        let ops: Vec<String> = p["ops"].as_array().unwrap().iter().map(|x| x.as_str().unwrap().to_string()).collect();
        let mut cfg = EnvConfig::default();
        if let Some(id) = p["cross"].as_u64() {
            broker.before_channel_close_ok = vec![chan_close_frame(id as u16, 406, "bye")];
            // the two frames arrive in one piece: with the CloseOk held back while the id is
            // opened again this sequence becomes the known finding chclose:crossing-id-reuse,
            // which C09's own check reports
            cfg.deliver_cut_limit = 0;
        }
        Built {
            broker: Box::new(broker),
            cfg,
            root: Box::new(move |ctx: Ctx| {
                let mut conn = match open(&ctx, ConnectionOptions::default().heartbeat(0).channel_max(max), ConnectionTuning::default()) {
                    Ok(c) => c,
                    Err(e) => {
                        ctx.log(format!("open -> Err({})", err_name(&e)));
                        return;
                    }
                };
                let mut chans: Vec<Option<Channel>> = Vec::new();
                for op in &ops {
                    let (kind, arg) = op.split_once(':').map(|(a, b)| (a, b.parse::<usize>().unwrap())).unwrap_or((op.as_str(), 0));
                    match kind {
                        "none" | "some" => {
                            let r = if kind == "none" { conn.open_channel(None) } else { conn.open_channel(Some(arg as u16)) };
                            ctx.log(format!("{} -> {:?}", op, r.as_ref().map(|c| c.channel_id()).map_err(err_name)));
                            chans.push(r.ok());
                        }
                        "call" => match chans.get(arg).and_then(|c| c.as_ref()) {
                            Some(c) => {
                                let r = c.queue_purge("q");
                                ctx.log(format!("{} -> {:?} on {}", op, r.map_err(|e| err_name(&e)), c.channel_id()));
                            }
                            None => ctx.log(format!("{} -> skipped", op)),
                        },
                        "drop" | "unwind" | "srvclose" => match chans.get_mut(arg).and_then(|c| c.take()) {
                            Some(c) => {
                                let id = c.channel_id();
                                if kind == "srvclose" {
                                    let pushed = (0..4).any(|k| ctx.force_push(&format!("sc{}.{}", id, k)));
                                    let r = c.queue_purge("q");
                                    ctx.log(format!("{} -> {:?} on {} (pushed {})", op, r.map_err(|e| err_name(&e)), id, pushed));
                                    drop(c);
                                } else if kind == "unwind" {
                                    let r = std::panic::catch_unwind(std::panic::AssertUnwindSafe(move || {
                                        let _held = c;
                                        panic!("worker failed");
                                    }));
                                    ctx.log(format!("{} -> panicked {} on {}", op, r.is_err(), id));
                                } else {
                                    drop(c);
                                    ctx.log(format!("{} -> dropped on {}", op, id));
                                }
                            }
                            None => ctx.log(format!("{} -> skipped", op)),
                        },
                        _ => match chans.get_mut(arg).and_then(|c| c.take()) {
                            Some(c) => {
                                let id = c.channel_id();
                                let r = c.close();
                                ctx.log(format!("{} -> {:?} on {}", op, r.map_err(|e| err_name(&e)), id));
                            }
                            None => ctx.log(format!("{} -> skipped", op)),
                        },
                    }
                }
                for c in chans.into_iter().flatten() {
                    ctx.forget(c);
                }
                let r = conn.close();
                ctx.log(format!("close -> {}", res(&r)));
            }),
        }
    }
    fn check(&self, p: &Value, o: &Outcome, _w: &World) -> Vec<(String, String)> {
        let mut v = Vec::new();
        let max = match p["max"].as_u64().unwrap() as u32 {
            0 => 65535,
            m => m,
        };
        let main = o.logs.get("main").cloned().unwrap_or_default();
        let mut open: std::collections::BTreeSet<u32> = Default::default();
        let mut handed: Vec<Option<u32>> = Vec::new();
        // request numbers per channel id for the value-carrying call
        let mut seqs: std::collections::BTreeMap<u32, u32> = Default::default();
        let ops: Vec<String> = p["ops"].as_array().unwrap().iter().map(|x| x.as_str().unwrap().to_string()).collect();
        for (i, op) in ops.iter().enumerate() {
            let line = match main.get(i) {
                Some(l) => l.clone(),
                None => {
                    v.push(("ids:incomplete".into(), format!("log ends before op {} ({}): {:?}", i, op, main)));
                    return v;
                }
            };
            let got = line.split_once(" -> ").map(|x| x.1.to_string()).unwrap_or_default();
            let (kind, arg) = op.split_once(':').map(|(a, b)| (a, b.parse::<u32>().unwrap())).unwrap_or((op.as_str(), 0));
            match kind {
                "some" => {
                    let ok = arg >= 1 && arg <= max && !open.contains(&arg);
                    let want = if ok { format!("Ok({})", arg) } else { format!("Err(\"UnavailableChannelId({})\")", arg) };
                    if got != want {
                        v.push(("ids:explicit-id".into(), format!("op {} {} with open ids {:?} (channel_max {}): {} expected {}", i, op, open, max, got, want)));
                        return v;
                    }
                    if ok {
                        open.insert(arg);
                        seqs.insert(arg, 1);
                    }
                    handed.push(if ok { Some(arg) } else { None });
                }
                "none" => {
                    if (open.len() as u32) < max {
                        let id = got.strip_prefix("Ok(").and_then(|x| x.strip_suffix(')')).and_then(|x| x.parse::<u32>().ok());
                        match id {
                            Some(id) if id >= 1 && id <= max && !open.contains(&id) => {
                                open.insert(id);
                                seqs.insert(id, 1);
                                handed.push(Some(id));
                            }
                            _ => {
                                v.push(("ids:allocated-id".into(), format!("op {} open_channel(None) with open ids {:?} (channel_max {}): {}", i, open, max, got)));
                                return v;
                            }
                        }
                    } else {
                        if got != "Err(\"ExhaustedChannelIds\")" {
                            v.push(("ids:exhaustion".into(), format!("op {} open_channel(None) with every id open {:?}: {}", i, open, got)));
                            return v;
                        }
                        handed.push(None);
                    }
                }
                "call" => {
                    if let Some(Some(id)) = handed.get(arg as usize) {
                        let seq = seqs.get_mut(id).map(|s| {
                            *s += 1;
                            *s
                        }).unwrap_or(0);
                        let want = format!("Ok({}) on {}", id * 1000 + seq, id);
                        if got != want {
                            v.push(("ids:call-on-channel".into(), format!("op {} {}: {} expected {}", i, op, got, want)));
                            return v;
                        }
                    }
                }
                "drop" | "unwind" | "srvclose" => {
                    if let Some(Some(id)) = handed.get(arg as usize).cloned() {
                        let want = match kind {
                            "drop" => format!("dropped on {}", id),
                            "unwind" => format!("panicked true on {}", id),
                            _ => format!("Err(\"ServerClosedChannel({},406,bye)\") on {} (pushed true)", id, id),
                        };
                        if got != want {
                            v.push(("ids:release".into(), format!("op {} {}: {} expected {}", i, op, got, want)));
                            return v;
                        }
                        open.remove(&id);
                        handed[arg as usize] = None;
                    }
                }
                _ => {
                    if let Some(Some(id)) = handed.get(arg as usize).cloned() {
                        // (what Channel::close returns when the closes cross is C09's business)
                        let crossed = kind == "xclose" && got == format!("Err(\"ServerClosedChannel({},406,bye)\") on {}", id, id);
                        if got != format!("Ok(()) on {}", id) && !crossed {
                            v.push(("ids:close".into(), format!("op {} {}: {}", i, op, got)));
                            return v;
                        }
                        open.remove(&id);
                        handed[arg as usize] = None;
                    }
                }
            }
        }
        if main.last().map(|s| s.as_str()) != Some("close -> Ok") {
            v.push(("ids:close-connection".into(), format!("{:?}", main)));
        }
        v
    }
}

// -----------------------------------------------------------------------------------------
// C01 (E2 part)

/// One writer of the `wire` scenario: three publishes, a nowait bind, a qos, close.
fn spawn_writer(ctx: &Ctx, chan: u16, ch: Channel) -> usize {
    ctx.spawn(&format!("w{}", chan), move |ctx| {
        for i in 0..3u8 {
            let body = vec![chan as u8 * 16 + i; (i as usize + 1) * 2];
            let r = ch.basic_publish("ex", Publish::new(&body, format!("k{}", i)));
            ctx.log(format!("publish{} -> {}", i, res(&r)));
        }
        let r = ch.queue_bind_nowait("q", "ex", "k", FieldTable::new());
        ctx.log(format!("bind -> {}", res(&r)));
        let r = ch.qos(0, chan, false);
        ctx.log(format!("qos -> {}", res(&r)));
        let r = ch.close();
        ctx.log(format!("chclose -> {}", res(&r)));
    })
}

pub struct Wire;

impl Scenario for Wire {
    fn name(&self) -> &'static str {
        "wire"
    }
    fn property(&self) -> &'static str {
        "C01"
    }
    fn variants(&self, tier: &str) -> Vec<Value> {
        // narrow accept menus (2 sizes) everywhere; the thorough tier adds every variant again
        // with wide menus (6 sizes) at the quick bound and takes the narrow ones one deeper
        let mut v = Vec::new();
        for lim in if tier == "thorough" { vec![2usize, 6] } else { vec![2usize] } {
            v.extend(vec![
                json!({"stall": null, "bound": 16, "menu": lim}),
                json!({"stall": 0, "bound": 16, "menu": lim}),
                json!({"stall": 100, "bound": 1, "menu": lim}),
                json!({"stall": 333, "bound": 2, "menu": lim}),
                // the server closes the connection while writers are busy and the transport takes
                // writes only in part: whatever is on the wire is still whole frames, each channel's
                // a prefix of its program, CloseOk last
                json!({"stall": null, "bound": 16, "menu": lim, "server_close": true}),
                json!({"stall": 400, "bound": 16, "menu": lim, "server_close": true}),
            ]);
        }
        // the one frame the I/O thread composes from data it does not control: the Close of a
        // client-side exception quotes the offending frame; long names of multi-byte characters
        // at both alignments of the 255-byte limit
        for k in 0..2 {
            v.push(json!({"stall": null, "bound": 16, "menu": 2, "server_close": true, "exception": k}));
        }
        v.push(json!({"stall": 400, "bound": 16, "menu": 2, "server_close": true, "exception": 0}));
        // heartbeats on (1 s) and a transport that stalls for one and a half intervals with a
        // backlog that ends in the middle of a frame: whatever the client does about its
        // heartbeat meanwhile, the stream stays whole frames
        for stall in [400usize, 411, 422, 433] {
            v.push(json!({"stall": stall, "bound": 16, "menu": 2, "hb_stall": true}));
        }
        v
    }
    fn bound(&self, tier: &str, p: &Value) -> usize {
        if tier == "thorough" && p["menu"] == 2 {
            3
        } else {
            2
        }
    }
    fn describe(&self) -> String {
        "two writer threads on channels 1 and 2 (three publishes, a nowait bind, a qos each) plus the connection thread, over a transport that accepts writes short at every call (then stalls until granted 1 / 8 / all bytes) or starts stalled; oracle: the byte stream is the protocol header plus whole frames, each channel's frames are exactly its program in issue order, nothing lost or duplicated, everything flushed before Connection.Close".into()
    }
    fn build(&self, p: &Value) -> Built {
        let mut broker = StdBroker::new(Handshake::default());
        if let Some(k) = p["exception"].as_u64() {
            // a method only a client may send, with names that make its description long
            let name = format!("{}{}", "a".repeat(k as usize), "\u{e9}".repeat(100));
            let f = AMQPFrame::Method(1, AMQPClass::Basic(basic::AMQPMethod::Publish(basic::Publish { ticket: 0, exchange: name.clone(), routing_key: "\u{4e16}\u{754c}".repeat(20), mandatory: false, immediate: false })));
            broker.pushes.push(Push::new("conn-close", vec![f]).after_frames(6));
        } else if p["server_close"] == true {
            broker.pushes.push(Push::new("conn-close", vec![conn_close_frame(320, "bye")]).after_frames(6));
        }
        let mut cfg = EnvConfig::default();
        cfg.write_cuts = true;
        cfg.grant_menu = vec![1, 8];
        cfg.write_cut_limit = p["menu"].as_u64().unwrap_or(3) as usize;
        if cfg.write_cut_limit <= 2 {
            cfg.grant_menu = vec![1];
        }
        if let Some(n) = p["stall"].as_u64() {
            cfg.stall_after = Some(n as usize);
        }
        let hb_stall = p["hb_stall"] == true;
        if hb_stall {
            // nobody but the session itself lets the transport take bytes again
            cfg.no_grants = true;
            cfg.write_cuts = false;
        }
        let bound = p["bound"].as_u64().unwrap() as usize;
        Built {
            broker: Box::new(broker),
            cfg,
            root: Box::new(move |ctx: Ctx| {
                let mut conn = match open(&ctx, ConnectionOptions::default().heartbeat(if hb_stall { 1 } else { 0 }), ConnectionTuning::default().mem_channel_bound(bound)) {
                    Ok(c) => c,
                    Err(e) => {
                        ctx.log(format!("open -> Err({})", err_name(&e)));
                        return;
                    }
                };
                let mut actors = Vec::new();
                let mut opened = Vec::new();
                for chan in 1..=2u16 {
                    match conn.open_channel(Some(chan)) {
                        Ok(c) => opened.push((chan, c)),
                        Err(e) => ctx.log(format!("open_channel{} -> Err({})", chan, err_name(&e))),
                    }
                    if !hb_stall {
                        // (the writers start as soon as their channel exists, except where both
                        // must exist before the transport stalls)
                        for (chan, ch) in opened.drain(..) {
                            actors.push(spawn_writer(&ctx, chan, ch));
                        }
                    }
                }
                for (chan, ch) in opened.drain(..) {
                    actors.push(spawn_writer(&ctx, chan, ch));
                }
                if hb_stall {
                    // (virtual time passes once everybody is blocked behind the stalled transport)
                    ctx.sleep_ms(1500);
                    ctx.force_grant();
                }
                for a in actors {
                    ctx.join(a);
                }
                let r = conn.close();
                ctx.log(format!("close -> {}", res(&r)));
            }),
        }
    }
    fn check(&self, p: &Value, o: &Outcome, _w: &World) -> Vec<(String, String)> {
        let mut v = Vec::new();
        let (envs, rest) = wire_frames(o);
        if rest != 0 {
            v.push(("wire:partial-frame".into(), format!("{} trailing bytes", rest)));
        }
        // (heartbeat frames, where heartbeats are on, are not part of any program)
        let envs: Vec<_> = envs.into_iter().filter(|e| !(p["hb_stall"] == true && e.ty == 8 && e.chan == 0)).collect();
        let exception = !p["exception"].is_null();
        let server_closed = p["server_close"] == true
            && o.io_events.iter().any(|e| match e {
                vh::sim::world::IoEvent::Frame(AMQPFrame::Method(0, AMQPClass::Connection(amq_protocol::protocol::connection::AMQPMethod::Close(_)))) => !exception,
                vh::sim::world::IoEvent::Frame(AMQPFrame::Method(1, AMQPClass::Basic(basic::AMQPMethod::Publish(_)))) => exception,
                _ => false,
            });
        for chan in 1..=2u16 {
            let log = o.logs.get(&format!("w{}", chan)).cloned().unwrap_or_default();
            if !server_closed && (log.len() != 6 || log.iter().any(|l| !l.ends_with("-> Ok"))) {
                v.push(("wire:writer-failed".into(), format!("writer {} log {:?}", chan, log)));
            }
            // expected frames of this channel, payloads spelled out from the AMQP 0-9-1 field
            // layouts (not produced by the generator the client uses)
            let hex = |b: &[u8]| b.iter().map(|x| format!("{:02x}", x)).collect::<String>();
            let mut want: Vec<String> = vec![format!("M{}", hex(&[0, 20, 0, 10, 0]))];
            for i in 0..3u8 {
                let body = vec![chan as u8 * 16 + i; (i as usize + 1) * 2];
                want.push(format!("M{}", hex(&[0, 60, 0, 40, 0, 0, 2, b'e', b'x', 2, b'k', b'0' + i, 0])));
                want.push(format!("H{}", hex(&[0, 60, 0, 0, 0, 0, 0, 0, 0, 0, 0, body.len() as u8, 0, 0])));
                want.push(format!("B{}", hex(&body)));
            }
            want.push(format!("M{}", hex(&[0, 50, 0, 20, 0, 0, 1, b'q', 2, b'e', b'x', 1, b'k', 1, 0, 0, 0, 0])));
            want.push(format!("M{}", hex(&[0, 60, 0, 10, 0, 0, 0, 0, 0, chan as u8, 0])));
            want.push(format!("M{}", hex(&[0, 20, 0, 40])));
            let mut got: Vec<String> = Vec::new();
            for e in envs.iter().filter(|e| e.chan == chan) {
                match e.ty {
                    // Channel.Close: code and text are the client's business, only its place matters
                    1 if is_method(e, 20, 40) => got.push(format!("M{}", hex(&e.payload[..4]))),
                    1 => got.push(format!("M{}", hex(&e.payload))),
                    2 => got.push(format!("H{}", hex(&e.payload))),
                    3 => {
                        // a body may legally be split into several frames: compare the concatenation
                        match got.last_mut() {
                            Some(last) if last.starts_with('B') => last.push_str(&hex(&e.payload)),
                            _ => got.push(format!("B{}", hex(&e.payload))),
                        }
                    }
                    t => got.push(format!("T{}", t)),
                }
            }
            if server_closed {
                // the close cuts every program short at a frame boundary. (Not necessarily at a
                // message boundary: a publish hands its method, header and body over one by one,
                // and the close may fall between them - the publish then fails, and neither C01
                // nor C02 promise anything about the frames of a failed publish beyond their being
                // whole and in order. Found by the thorough tier at 3 deviations.)
                let mut is_prefix = got.len() <= want.len() && got.iter().zip(want.iter()).all(|(g, w)| g == w);
                if !is_prefix && !got.is_empty() && got.len() <= want.len() {
                    // a body cut short by the close: its frames so far are a prefix of the body
                    let k = got.len() - 1;
                    is_prefix = got[..k] == want[..k] && got[k].starts_with('B') && want[k].starts_with(got[k].as_str());
                }
                if !is_prefix {
                    v.push(("wire:frames-changed-by-close".into(), format!("channel {} frames on the wire {:?} are not a prefix of {:?}", chan, got, want)));
                }
                continue;
            }
            if got != want {
                let key = if got.len() < want.len() { "wire:frames-lost" } else if got.len() > want.len() { "wire:frames-duplicated" } else { "wire:frames-reordered-or-changed" };
                v.push((key.into(), format!("channel {} frames on the wire {:?} expected {:?}", chan, got, want)));
            }
        }
        let main = o.logs.get("main").cloned().unwrap_or_default();
        if server_closed && exception {
            if !matches!(main.last().map(|s| s.as_str()), Some("close -> Err(ClientException)")) {
                v.push(("wire:close".into(), format!("main log {:?}", main)));
            }
            // the last frame is the client's Close, whole and well formed, its text within a short string
            match envs.last().map(|e| (e, e.decode())) {
                Some((_, Some(AMQPFrame::Method(0, AMQPClass::Connection(amq_protocol::protocol::connection::AMQPMethod::Close(c)))))) if c.reply_text.len() <= 255 && c.reply_code >= 500 => {}
                // crossing: the client's own Close (200) had been written when the offending
                // frame arrived; nothing may follow it (C08), the exception has no frame of its own
                Some((_, Some(AMQPFrame::Method(0, AMQPClass::Connection(amq_protocol::protocol::connection::AMQPMethod::Close(c)))))) if c.reply_code == 200 => {}
                Some((e, d)) => v.push(("wire:exception-close-frame".into(), format!("the last frame written (channel {} type {} {} bytes) is not a well-formed Connection.Close with a hard-error code: {:?}", e.chan, e.ty, e.payload.len(), d.map(|f| format!("{:?}", f).chars().take(120).collect::<String>())))),
                None => v.push(("wire:exception-close-frame".into(), "nothing written".into())),
            }
            return v;
        }
        if server_closed {
            if main.last().map(|s| s.as_str()) != Some("close -> Err(ServerClosedConnection(320,bye))") {
                v.push(("wire:close".into(), format!("main log {:?}", main)));
            }
            match envs.last() {
                Some(last) if last.chan == 0 && is_method(last, 10, 51) => {}
                // crossing closes: the client's own Close was written before the server's arrived
                Some(last) if last.chan == 0 && is_method(last, 10, 50) => {}
                _ => v.push(("wire:last-frame".into(), "the last frame written after the server's close is neither Connection.CloseOk nor the client's own Close".into())),
            }
            return v;
        }
        if main != vec!["close -> Ok".to_string()] {
            v.push(("wire:close".into(), format!("main log {:?}", main)));
        }
        // channel 0 carries exactly the handshake and the close (heartbeats are off)
        let ch0: Vec<String> = envs.iter().filter(|e| e.chan == 0).map(|e| if e.ty == 1 && e.payload.len() >= 4 { format!("M{}.{}", u16::from_be_bytes([e.payload[0], e.payload[1]]), u16::from_be_bytes([e.payload[2], e.payload[3]])) } else { format!("T{}", e.ty) }).collect();
        if ch0 != vec!["M10.11", "M10.31", "M10.40", "M10.50"] {
            v.push(("wire:channel0-frames".into(), format!("channel 0 frames on the wire {:?}", ch0)));
        }
        if let Some(last) = envs.last() {
            if !(last.chan == 0 && is_method(last, 10, 50)) {
                v.push(("wire:last-frame".into(), "the last frame written is not Connection.Close".into()));
            }
        }
        // every frame is well formed for a parser that is not the client's generator
        for e in &envs {
            if e.ty == 1 {
                if let Err(err) = vh::wire::request_bits(&e.payload) {
                    if !err.starts_with("no schema") {
                        v.push(("wire:malformed-method".into(), format!("channel {} method payload {:?}: {}", e.chan, e.payload, err)));
                    }
                }
            }
        }
        v
    }
}
