//! C16: handshake scenarios.
use crate::scenarios::*;
use amiquip::{AmqpValue, Auth, ConnectionOptions, ConnectionTuning, FieldTable};
use amq_protocol::frame::{AMQPContentHeader, AMQPFrame};
use amq_protocol::protocol::{channel as pchannel, connection as pconnection, AMQPClass};
use serde_json::{json, Value};
use std::time::Duration;
use vh::sim::broker::{Handshake, Stage, StdBroker};
use vh::sim::explore::{Built, Ctx, Scenario};
use vh::sim::world::{EnvConfig, Outcome, World};

pub struct Hs;

fn start_frame(mech: &str, loc: &str) -> AMQPFrame {
    let mut sp = FieldTable::new();
    sp.insert("product".to_string(), AmqpValue::LongString("simx-broker".to_string()));
    AMQPFrame::Method(0, AMQPClass::Connection(pconnection::AMQPMethod::Start(pconnection::Start { version_major: 0, version_minor: 9, server_properties: sp, mechanisms: mech.into(), locales: loc.into() })))
}
fn tune_frame(c: u16, f: u32, h: u16) -> AMQPFrame {
    AMQPFrame::Method(0, AMQPClass::Connection(pconnection::AMQPMethod::Tune(pconnection::Tune { channel_max: c, frame_max: f, heartbeat: h })))
}
fn open_ok_frame() -> AMQPFrame {
    AMQPFrame::Method(0, AMQPClass::Connection(pconnection::AMQPMethod::OpenOk(pconnection::OpenOk { known_hosts: String::new() })))
}
fn secure_frame() -> AMQPFrame {
    AMQPFrame::Method(0, AMQPClass::Connection(pconnection::AMQPMethod::Secure(pconnection::Secure { challenge: "prove it".into() })))
}

/// (frames the server sends instead of the normal frame of this stage, whether the normal frame follows)
fn behaviour(stage: &str, b: &str) -> Stage {
    let normal = |stage: &str| match stage {
        "start" => start_frame("PLAIN AMQPLAIN EXTERNAL", "en_US"),
        "startok" => tune_frame(2047, 131072, 60),
        _ => open_ok_frame(),
    };
    match b {
        "normal" => Stage::Normal,
        "secure" => Stage::Frames(vec![secure_frame()], false),
        "close" => Stage::Frames(vec![conn_close_frame(530, "NOT_ALLOWED - vhost")], false),
        // ... and hangs up without waiting for the CloseOk
        "close-eof" => Stage::Frames(vec![conn_close_frame(530, "NOT_ALLOWED - vhost")], true),
        "start" => Stage::Frames(vec![start_frame("PLAIN", "en_US")], false),
        "tune" => Stage::Frames(vec![tune_frame(0, 0, 0)], false),
        "openok" => Stage::Frames(vec![open_ok_frame()], false),
        "heartbeat-then-normal" => Stage::Frames(vec![AMQPFrame::Heartbeat(0), normal(stage)], false),
        // things a server may legitimately send right behind OpenOk (same segment)
        "normal-then-heartbeat" => Stage::Frames(vec![normal(stage), AMQPFrame::Heartbeat(0)], false),
        "normal-then-blocked" => Stage::Frames(vec![normal(stage), AMQPFrame::Method(0, AMQPClass::Connection(pconnection::AMQPMethod::Blocked(pconnection::Blocked { reason: "alarm".into() })))], false),
        "channel1-method" => Stage::Frames(vec![AMQPFrame::Method(1, AMQPClass::Channel(pchannel::AMQPMethod::OpenOk(pchannel::OpenOk { channel_id: String::new() })))], false),
        "header" => Stage::Frames(vec![AMQPFrame::Header(0, 60, Box::new(AMQPContentHeader { class_id: 60, weight: 0, body_size: 0, properties: Default::default() }))], false),
        "body" => Stage::Frames(vec![AMQPFrame::Body(0, vec![1, 2, 3])], false),
        // the right method for the stage (or a Close / Secure), but not on channel 0
        "wrong-channel" | "close-wrong-channel" | "secure-wrong-channel" => {
            let f = match b {
                "wrong-channel" => normal(stage),
                "close-wrong-channel" => conn_close_frame(530, "NOT_ALLOWED - vhost"),
                _ => secure_frame(),
            };
            let ch = match stage {
                "start" => 1,
                "startok" => 3,
                _ => 65535,
            };
            match f {
                AMQPFrame::Method(_, m) => Stage::Frames(vec![AMQPFrame::Method(ch, m)], false),
                other => Stage::Frames(vec![other], false),
            }
        }
        "eof" => Stage::Eof,
        "malformed" => Stage::Raw(vec![1, 0, 0, 0, 0, 0, 4, 0xFF, 0xFF, 0, 0, 0xCD]),
        "silent" | "silent-hb" => Stage::Silent,
        "tune-small-frame-max" => Stage::Frames(vec![tune_frame(10, 1024, 60)], false),
        "mech-none" => Stage::Frames(vec![start_frame("AMQPLAIN EXTERNAL", "en_US")], false),
        "mech-substring" => Stage::Frames(vec![start_frame("XPLAIN PLAINX", "en_US")], false),
        "mech-empty" => Stage::Frames(vec![start_frame("", "en_US")], false),
        "locale-none" => Stage::Frames(vec![start_frame("PLAIN", "fr_FR en_GB")], false),
        "locale-second" => Stage::Frames(vec![start_frame("AMQPLAIN PLAIN", "fr_FR en_US")], false),
        other => panic!("unknown behaviour {}", other),
    }
}

/// Acceptable results of insecure_open_stream for (stage, behaviour).
fn expected(stage: &str, b: &str, timeout: bool, external: bool) -> Vec<&'static str> {
    let after_start_ok = stage == "startok";
    match b {
        "normal" | "heartbeat-then-normal" | "locale-second" | "normal-then-heartbeat" | "normal-then-blocked" => vec!["Ok"],
        "secure" => {
            if after_start_ok {
                vec!["Err(SaslSecureNotSupported)"]
            } else {
                vec!["Err(FrameUnexpected)"]
            }
        }
        "close" | "close-eof" => {
            if stage == "open" {
                vec!["Err(ServerClosedConnection(530,NOT_ALLOWED - vhost))"]
            } else {
                vec!["Err(FrameUnexpected)"]
            }
        }
        "start" | "tune" | "openok" | "channel1-method" | "header" | "body" | "wrong-channel" | "close-wrong-channel" | "secure-wrong-channel" => vec!["Err(FrameUnexpected)"],
        "eof" => {
            if after_start_ok {
                vec!["Err(InvalidCredentials)"]
            } else {
                vec!["Err(UnexpectedSocketClose)"]
            }
        }
        // (InvalidCredentials is for a connection *dropped* while waiting for the reply to
        // StartOk; everything else keeps its own cause there too)
        "malformed" => vec!["Err(MalformedFrame)"],
        "silent" | "silent-hb" => {
            if !timeout {
                vec!["HANG-ALLOWED"]
            } else {
                vec!["Err(ConnectionTimeout)"]
            }
        }
        "tune-small-frame-max" => vec!["Err(FrameMaxTooSmall)"],
        "mech-none" | "mech-substring" | "mech-empty" => {
            if external && b == "mech-none" {
                vec!["Err(UnsupportedLocale)", "Ok", "Err(FrameUnexpected)"]
            } else {
                vec!["Err(UnsupportedAuthMechanism)"]
            }
        }
        "locale-none" => vec!["Err(UnsupportedLocale)"],
        _ => vec![],
    }
}

/// Length of a correct server's stream in this scenario (Start, Tune, OpenOk, CloseOk).
const HS_STREAM_LEN: usize = 141;

impl Scenario for Hs {
    fn name(&self) -> &'static str {
        "handshake"
    }
    fn property(&self) -> &'static str {
        "C16"
    }
    fn variants(&self, tier: &str) -> Vec<Value> {
        let mut v = Vec::new();
        let common = ["normal", "secure", "close", "start", "tune", "openok", "heartbeat-then-normal", "channel1-method", "header", "body", "eof", "malformed", "silent", "wrong-channel", "close-wrong-channel", "secure-wrong-channel"];
        for stage in ["start", "startok", "open"] {
            for b in common {
                // the frame that is right for this stage is not a deviation
                if matches!((stage, b), ("start", "start") | ("startok", "tune") | ("open", "openok")) {
                    continue;
                }
                v.push(json!({"stage": stage, "b": b, "timeout": true, "auth": "plain", "info": false}));
            }
        }
        for b in ["mech-none", "mech-substring", "mech-empty", "locale-none", "locale-second"] {
            v.push(json!({"stage": "start", "b": b, "timeout": true, "auth": "plain", "info": false}));
        }
        v.push(json!({"stage": "startok", "b": "tune-small-frame-max", "timeout": true, "auth": "plain", "info": false}));
        v.push(json!({"stage": "open", "b": "normal-then-heartbeat", "timeout": true, "auth": "plain", "info": false}));
        v.push(json!({"stage": "open", "b": "normal-then-blocked", "timeout": true, "auth": "plain", "info": false}));
        v.push(json!({"stage": "open", "b": "close-eof", "timeout": true, "auth": "plain", "info": false}));
        // ... hanging up in a way that shows as a reset on reads and / or a broken pipe on writes
        for hangup in ["reset", "pipe", "reset+pipe"] {
            v.push(json!({"stage": "open", "b": "close-eof", "timeout": true, "auth": "plain", "info": false, "hangup": hangup}));
        }
        // a transport that takes a few bytes per write call and never says would-block
        for chunk in [1usize, 5, 64] {
            v.push(json!({"stage": "open", "b": "normal", "timeout": true, "auth": "plain", "info": false, "chunk": chunk}));
        }
        // option variations on the good path and on the credential-rejection path
        for auth in ["plain", "external", "custom"] {
            for info in [false, true] {
                v.push(json!({"stage": "open", "b": "normal", "timeout": false, "auth": auth, "info": info}));
                v.push(json!({"stage": "startok", "b": "eof", "timeout": false, "auth": auth, "info": info}));
            }
        }
        v.push(json!({"stage": "open", "b": "normal", "timeout": true, "auth": "plain", "info": false, "faults": true}));
        // silence with a configured timeout (1.5 s) while a negotiated heartbeat of 1 s is running
        v.push(json!({"stage": "open", "b": "silent-hb", "timeout": true, "auth": "plain", "info": false, "hb": 1}));
        v.push(json!({"stage": "open", "b": "silent-hb", "timeout": true, "auth": "plain", "info": false, "hb": 2}));
        v.push(json!({"stage": "startok", "b": "silent-hb", "timeout": true, "auth": "plain", "info": false, "hb": 1}));
        // every cut of a correct server's stream: the read stops there (would-block) and goes on
        // with the next delivery; and the stream ending there, seen in the same read pass as the
        // last byte or in a later one
        for k in 1..HS_STREAM_LEN {
            v.push(json!({"stage": "open", "b": "normal", "timeout": false, "auth": "plain", "info": false, "cut": k}));
        }
        for k in 0..HS_STREAM_LEN {
            v.push(json!({"stage": "open", "b": "normal", "timeout": false, "auth": "plain", "info": false, "eof_at": k}));
            if k > 0 {
                v.push(json!({"stage": "open", "b": "normal", "timeout": false, "auth": "plain", "info": false, "eof_at": k, "same_pass": true}));
            }
        }
        if tier == "thorough" {
            for stage in ["start", "startok", "open"] {
                for b in ["eof", "close", "secure", "malformed"] {
                    v.push(json!({"stage": stage, "b": b, "timeout": false, "auth": "external", "info": true}));
                }
            }
        }
        v
    }
    fn bound(&self, tier: &str, p: &Value) -> usize {
        if !p["cut"].is_null() || !p["eof_at"].is_null() {
            return if tier == "thorough" { 1 } else { 0 };
        }
        if tier == "thorough" {
            3
        } else {
            2
        }
    }
    fn describe(&self) -> String {
        "the opening handshake through the real I/O loop against a broker that, at each of the three points where the client waits (after the protocol header, after StartOk, after Open), either behaves or sends one of 12 other things (Secure, Close, each wrong-stage frame, heartbeat, channel-1 method, header, body, EOF, malformed bytes, silence with a configured timeout) plus mechanism/locale list variations, a too small frame_max and auth/information options; every delivery cut and schedule within the deviation bound. Oracle: exact error or success, frames written strictly in reaction (StartOk fields, TuneOk, Open vhost, CloseOk on server close), server_properties, thread and transport released".into()
    }
    fn build(&self, p: &Value) -> Built {
        let mut hs = Handshake::default();
        let stage = p["stage"].as_str().unwrap();
        let b = p["b"].as_str().unwrap();
        let st = behaviour(stage, b);
        match stage {
            "start" => hs.at_start = st,
            "startok" => hs.after_start_ok = st,
            _ => hs.after_open = st,
        }
        // a heartbeat before the expected frame must be ignored: the normal frame follows inside the Stage
        let broker = StdBroker::new(hs);
        let mut cfg = EnvConfig::default();
        cfg.deliver_cuts = true;
        cfg.horizon_ns = 20_000_000_000;
        if p["faults"] == true {
            use vh::sim::world::FaultKind;
            cfg.faults = vec![FaultKind::ReadEof, FaultKind::ReadErr, FaultKind::WriteErr];
        }
        if let Some(c) = p["chunk"].as_u64() {
            cfg.write_chunk = Some(c as usize);
        }
        cfg.hangup = match p["hangup"].as_str() {
            Some("reset") => "reset",
            Some("pipe") => "pipe",
            Some("reset+pipe") => "reset+pipe",
            _ => "eof",
        };
        if let Some(k) = p["cut"].as_u64() {
            cfg.deliver_cuts = false;
            cfg.force_cuts = vec![k as usize];
        }
        if let Some(k) = p["eof_at"].as_u64() {
            cfg.deliver_cuts = false;
            cfg.crash_after_inbound = Some((k as usize, vh::sim::world::FaultKind::ReadEof));
            cfg.crash_with_last_byte = p["same_pass"] == true;
        }
        let timeout = p["timeout"] == true;
        let hb = p["hb"].as_u64().unwrap_or(0) as u16;
        let auth = p["auth"].as_str().unwrap().to_string();
        let info = p["info"] == true;
        Built {
            broker: Box::new(broker),
            cfg,
            root: Box::new(move |ctx: Ctx| {
                let mut options = ConnectionOptions::<Auth>::default().virtual_host("v%2Fh/1+%41").heartbeat(hb);
                options = match auth.as_str() {
                    "external" => options.auth(Auth::External),
                    "custom" => options.auth(Auth::Plain { username: "us\u{e9}r".into(), password: "p\u{0}w".into() }),
                    _ => options,
                };
                if info {
                    options = options.information(Some("simx test".to_string()));
                }
                if timeout {
                    options = options.connection_timeout(Some(Duration::from_millis(1500)));
                }
                match open(&ctx, options, ConnectionTuning::default()) {
                    Ok(conn) => {
                        ctx.log("open -> Ok");
                        ctx.log(format!("server_properties {:?}", conn.server_properties()));
                        let r = conn.close();
                        ctx.log(format!("close -> {}", res(&r)));
                    }
                    Err(e) => ctx.log(format!("open -> Err({})", err_name(&e))),
                }
            }),
        }
    }
    fn check(&self, p: &Value, o: &Outcome, _w: &World) -> Vec<(String, String)> {
        let mut v = Vec::new();
        let stage = p["stage"].as_str().unwrap();
        let b = p["b"].as_str().unwrap();
        let auth = p["auth"].as_str().unwrap();
        let want = expected(stage, b, p["timeout"] == true, auth == "external");
        let main = o.logs.get("main").cloned().unwrap_or_default();
        if p["faults"] == true {
            // transport faults injected at arbitrary points: the attempt must end (deadlock /
            // panic checks are generic), name a socket-level cause or succeed, and release everything
            let got = main.iter().find(|l| l.starts_with("open -> ")).cloned().unwrap_or_default();
            let okset = ["open -> Ok", "open -> Err(UnexpectedSocketClose)", "open -> Err(IoErrorReadingSocket)", "open -> Err(IoErrorWritingSocket)", "open -> Err(InvalidCredentials)"];
            if !okset.contains(&got.as_str()) {
                v.push(("handshake:fault-result".into(), format!("with injected transport faults open returned {:?}", got)));
            }
            // "the matching socket error": a read or write error is not a rejection of credentials
            // (that is an end of stream while waiting for the reply to StartOk)
            if got == "open -> Err(InvalidCredentials)" && !o.faults_used.iter().any(|f| *f == vh::sim::world::FaultKind::ReadEof) {
                v.push(("handshake:socket-error-reported-as-credentials".into(), format!("faults presented {:?}, open returned InvalidCredentials", o.faults_used)));
            }
            if got == "open -> Err(UnexpectedSocketClose)" && !o.faults_used.iter().any(|f| *f == vh::sim::world::FaultKind::ReadEof) {
                v.push(("handshake:socket-error-reported-as-eof".into(), format!("faults presented {:?}, open returned UnexpectedSocketClose", o.faults_used)));
            }
            if o.io_existed && (!o.io_gone || !o.transport_dropped) {
                v.push(("handshake:not-released".into(), format!("io_gone={} transport_dropped={}", o.io_gone, o.transport_dropped)));
            }
            return v;
        }
        if let Some(k) = p["eof_at"].as_u64() {
            // where the three frames of the handshake end in the server's stream
            let b = &o.inbound;
            let mut ends = Vec::new();
            let mut pos = 0usize;
            while pos + 8 <= b.len() && ends.len() < 3 {
                let size = u32::from_be_bytes([b[pos + 3], b[pos + 4], b[pos + 5], b[pos + 6]]) as usize;
                pos += 8 + size;
                ends.push(pos);
            }
            while ends.len() < 3 {
                ends.push(usize::MAX);
            }
            let k = k as usize;
            let got: Vec<String> = main.iter().filter(|l| l.starts_with("open -> ") || l.starts_with("close -> ")).cloned().collect();
            let ok = if k < ends[0] {
                got == ["open -> Err(UnexpectedSocketClose)"]
            } else if k < ends[1] {
                // StartOk has gone out and the connection is dropped without a (whole) reply
                got == ["open -> Err(InvalidCredentials)"]
            } else if k < ends[2] {
                got == ["open -> Err(UnexpectedSocketClose)"]
            } else {
                // OpenOk arrived: the connection exists (unless the end was seen in the very pass
                // that read OpenOk) and then dies of the end of stream - or closes cleanly if even
                // the CloseOk got through
                got == ["open -> Ok", "close -> Err(UnexpectedSocketClose)"] || got == ["open -> Err(UnexpectedSocketClose)"] || (k >= b.len() && b.len() > ends[2] && got == ["open -> Ok", "close -> Ok"])
            };
            if !ok {
                v.push(("handshake:cut-stream".into(), format!("server stream ends after {} bytes (frames end at {:?}): {:?}", k, ends, got)));
            }
            if o.io_existed && (!o.io_gone || !o.transport_dropped) {
                v.push(("handshake:not-released".into(), format!("io_gone={} transport_dropped={}", o.io_gone, o.transport_dropped)));
            }
            return v;
        }
        let got = main.iter().find(|l| l.starts_with("open -> ")).map(|l| l.trim_start_matches("open -> ").to_string());
        match &got {
            None => v.push(("handshake:no-result".into(), format!("open did not return ({} / {})", stage, b))),
            Some(g) => {
                if !want.contains(&g.as_str()) {
                    v.push((format!("handshake:result:{}:{}:{}", stage, b, g), format!("server behaviour {} at stage {}: open returned {} expected one of {:?}", b, stage, g, want)));
                }
            }
        }
        if o.io_existed && (!o.io_gone || !o.transport_dropped) {
            v.push(("handshake:not-released".into(), format!("io_gone={} transport_dropped={}", o.io_gone, o.transport_dropped)));
        }
        // a timeout happens when the configured time has passed since the server was last heard
        // from (everything before the silence happens at virtual time 0), not later
        if matches!(b, "silent" | "silent-hb") && p["timeout"] == true {
            let ms = 1_000_000u64;
            match o.io_exit_time_ns {
                Some(t) if t >= 1500 * ms && t <= 1510 * ms => {}
                other => v.push(("handshake:timeout-instant".into(), format!("server silent from 0 ms, configured timeout 1500 ms: the attempt ended at {:?} ms", other.map(|t| t / ms)))),
            }
        }
        // frames written, strictly in reaction
        let (envs, rest) = wire_frames(o);
        if rest != 0 {
            v.push(("handshake:partial-frame".into(), format!("{} trailing bytes", rest)));
        }
        let ids: Vec<(u16, u16)> = envs.iter().filter(|e| e.ty == 1).map(|e| (u16::from_be_bytes([e.payload[0], e.payload[1]]), u16::from_be_bytes([e.payload[2], e.payload[3]]))).collect();
        let ok = got.as_deref() == Some("Ok");
        let mut allowed: Vec<(u16, u16)> = Vec::new();
        // how far the server let the client get
        let start_ok_expected = !(stage == "start" && !matches!(b, "normal" | "heartbeat-then-normal" | "locale-second"));
        if start_ok_expected {
            allowed.push((10, 11));
            let tune_seen = !(stage == "startok" && !matches!(b, "normal" | "heartbeat-then-normal"));
            if tune_seen {
                allowed.push((10, 31));
                allowed.push((10, 40));
                if stage == "open" && b == "close" {
                    allowed.push((10, 51));
                }
                // (close-eof: the CloseOk has nobody to go to; written or not)
                if stage == "open" && b == "close-eof" && ids.last() == Some(&(10, 51)) {
                    allowed.push((10, 51));
                }
                if ok {
                    allowed.push((10, 50));
                }
            }
        }
        if auth == "external" && matches!(b, "mech-none") {
            // outcome depends on the list; skip the exact frame check
        } else if ids != allowed && !(ids.len() <= allowed.len() && ids[..] == allowed[..ids.len()] && !ok && want.contains(&"HANG-ALLOWED")) {
            // on failures the client may stop early only if the transport died first; otherwise the list is exact
            let early_ok = !ok && ids.len() <= allowed.len() && ids[..] == allowed[..ids.len()] && matches!(b, "eof" | "malformed" | "silent");
            if !early_ok {
                v.push(("handshake:frames-written".into(), format!("server behaviour {} at {}: client wrote methods {:?} expected {:?}", b, stage, ids, allowed)));
            }
        }
        // StartOk / Open content
        for e in &envs {
            match e.decode() {
                Some(AMQPFrame::Method(0, AMQPClass::Connection(pconnection::AMQPMethod::StartOk(s)))) => {
                    let (mech, resp) = match auth {
                        "external" => ("EXTERNAL", "".to_string()),
                        "custom" => ("PLAIN", "\u{0}us\u{e9}r\u{0}p\u{0}w".to_string()),
                        _ => ("PLAIN", "\u{0}guest\u{0}guest".to_string()),
                    };
                    let caps = match s.client_properties.get("capabilities") {
                        Some(AmqpValue::FieldTable(t)) => t.get("consumer_cancel_notify") == Some(&AmqpValue::Boolean(true)) && t.get("connection.blocked") == Some(&AmqpValue::Boolean(true)),
                        _ => false,
                    };
                    let info_ok = if p["info"] == true { s.client_properties.get("information") == Some(&AmqpValue::LongString("simx test".into())) } else { !s.client_properties.contains_key("information") };
                    if s.mechanism != mech || s.response != resp || s.locale != "en_US" || !caps || !info_ok || !s.client_properties.contains_key("product") {
                        v.push(("handshake:start-ok-content".into(), format!("{:?}", s)));
                    }
                }
                Some(AMQPFrame::Method(0, AMQPClass::Connection(pconnection::AMQPMethod::Open(op)))) => {
                    if op.virtual_host != "v%2Fh/1+%41" {
                        v.push(("handshake:open-vhost".into(), format!("{:?}", op)));
                    }
                }
                Some(AMQPFrame::Method(0, AMQPClass::Connection(pconnection::AMQPMethod::TuneOk(t)))) => {
                    let hb = p["hb"].as_u64().unwrap_or(0) as u16;
                    if (t.channel_max, t.frame_max, t.heartbeat) != (2047, 131072, if hb == 0 { 0 } else { hb.min(60) }) {
                        v.push(("handshake:tune-ok".into(), format!("{:?}", t)));
                    }
                }
                _ => {}
            }
        }
        if ok {
            if !main.iter().any(|l| l.contains("simx-broker")) {
                v.push(("handshake:server-properties".into(), format!("{:?}", main)));
            }
            if !main.iter().any(|l| l == "close -> Ok") {
                v.push(("handshake:close".into(), format!("{:?}", main)));
            }
        }
        v
    }
}
