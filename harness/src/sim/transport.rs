//! Mock `IoStream`: an edge-triggered non-blocking socket whose every answer is decided by
//! the controller. Readiness is delivered through a user-space `mio::Registration`.
use super::world::World;
use amiquip::IoStream;
use mio::{Evented, Poll, PollOpt, Ready, Registration, SetReadiness, Token};
use std::io;
use std::sync::{Arc, Mutex};

pub struct MockStream {
    world: Arc<World>,
    registration: Registration,
    set_readiness: Mutex<Option<SetReadiness>>,
    /// epoll's bookkeeping: registering twice, or modifying / removing a descriptor that is not
    /// registered, is an error on a real socket
    registered: std::sync::atomic::AtomicBool,
}

impl MockStream {
    pub fn new(world: Arc<World>) -> MockStream {
        let (registration, set_readiness) = Registration::new2();
        MockStream { world, registration, set_readiness: Mutex::new(Some(set_readiness)), registered: std::sync::atomic::AtomicBool::new(false) }
    }
}

impl io::Read for MockStream {
    fn read(&mut self, buf: &mut [u8]) -> io::Result<usize> {
        self.world.tr_read(buf)
    }
}

impl io::Write for MockStream {
    fn write(&mut self, buf: &[u8]) -> io::Result<usize> {
        self.world.tr_write(buf)
    }
    fn flush(&mut self) -> io::Result<()> {
        Ok(())
    }
}

impl Evented for MockStream {
    fn register(&self, poll: &Poll, token: Token, interest: Ready, opts: PollOpt) -> io::Result<()> {
        if self.registered.swap(true, std::sync::atomic::Ordering::SeqCst) {
            return Err(io::Error::new(io::ErrorKind::AlreadyExists, "stream registered twice"));
        }
        self.registration.register(poll, token, interest, opts)?;
        let sr = self.set_readiness.lock().unwrap().take();
        self.world.tr_register(sr, interest);
        Ok(())
    }
    fn reregister(&self, poll: &Poll, token: Token, interest: Ready, opts: PollOpt) -> io::Result<()> {
        if !self.registered.load(std::sync::atomic::Ordering::SeqCst) {
            return Err(io::Error::new(io::ErrorKind::NotFound, "reregister of a stream that is not registered"));
        }
        self.world.tr_pre_reregister();
        self.registration.reregister(poll, token, interest, opts)?;
        self.world.tr_register(None, interest);
        Ok(())
    }
    fn deregister(&self, poll: &Poll) -> io::Result<()> {
        if !self.registered.swap(false, std::sync::atomic::Ordering::SeqCst) {
            return Err(io::Error::new(io::ErrorKind::NotFound, "deregister of a stream that is not registered"));
        }
        #[allow(deprecated)]
        self.registration.deregister(poll)
    }
}

impl Drop for MockStream {
    fn drop(&mut self) {
        self.world.tr_dropped();
    }
}

impl IoStream for MockStream {}
