//! Mock `IoStream`: an edge-triggered non-blocking socket whose every answer is decided by
//! the controller. Readiness is delivered through a user-space `mio::Registration`.
use super::world::World;
use amiquip::IoStream;
use mio::{Evented, Poll, PollOpt, Ready, Registration, SetReadiness, Token};
use std::io;
use std::sync::{Arc, Mutex};

pub struct MockStream {
    world: Arc<World>,
    registration: Registration,
    set_readiness: Mutex<Option<SetReadiness>>,
}

impl MockStream {
    pub fn new(world: Arc<World>) -> MockStream {
        let (registration, set_readiness) = Registration::new2();
        MockStream { world, registration, set_readiness: Mutex::new(Some(set_readiness)) }
    }
}

impl io::Read for MockStream {
    fn read(&mut self, buf: &mut [u8]) -> io::Result<usize> {
        self.world.tr_read(buf)
    }
}

impl io::Write for MockStream {
    fn write(&mut self, buf: &[u8]) -> io::Result<usize> {
        self.world.tr_write(buf)
    }
    fn flush(&mut self) -> io::Result<()> {
        Ok(())
    }
}

impl Evented for MockStream {
    fn register(&self, poll: &Poll, token: Token, interest: Ready, opts: PollOpt) -> io::Result<()> {
        self.registration.register(poll, token, interest, opts)?;
        let sr = self.set_readiness.lock().unwrap().take();
        self.world.tr_register(sr, interest);
        Ok(())
    }
    fn reregister(&self, poll: &Poll, token: Token, interest: Ready, opts: PollOpt) -> io::Result<()> {
        self.world.tr_pre_reregister();
        self.registration.reregister(poll, token, interest, opts)?;
        self.world.tr_register(None, interest);
        Ok(())
    }
    fn deregister(&self, poll: &Poll) -> io::Result<()> {
        #[allow(deprecated)]
        self.registration.deregister(poll)
    }
}

impl Drop for MockStream {
    fn drop(&mut self) {
        self.world.tr_dropped();
    }
}

impl IoStream for MockStream {}
