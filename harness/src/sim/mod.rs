//! E2 `simx`: controlled exploration of a live amiquip connection.
pub mod broker;
pub mod explore;
pub mod transport;
pub mod world;
