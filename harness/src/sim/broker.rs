//! Scripted, in-process broker. It sees the client's byte stream (as accepted by the
//! transport), splits it with its own envelope parser and answers per a small policy.
use crate::wire::{frame_bytes, split_envelopes, Env, PROTOCOL_HEADER};
use amq_protocol::frame::{parse_frame, AMQPContentHeader, AMQPFrame};
use amq_protocol::protocol::{basic, channel, confirm, connection, exchange, queue, AMQPClass};
use amq_protocol::types::{AMQPValue, FieldTable};
use std::collections::{BTreeMap, VecDeque};

#[derive(Default, Debug)]
pub struct BrokerOut {
    pub bytes: Vec<u8>,
    pub eof: bool,
}

impl BrokerOut {
    pub fn frame(&mut self, f: &AMQPFrame) {
        self.bytes.extend_from_slice(&frame_bytes(f));
    }
}

pub trait Broker: Send {
    /// Client bytes accepted by the transport, in order.
    fn on_client_bytes(&mut self, bytes: &[u8], out: &mut BrokerOut);
    /// Labels of the environment actions the broker currently offers (pushes, releases).
    fn actions(&self) -> Vec<String>;
    fn apply(&mut self, idx: usize, out: &mut BrokerOut);
    /// Virtual-time schedule: the next instant (ns) at which the broker wants to act.
    fn next_time_ns(&self) -> Option<u64> {
        None
    }
    /// Called after virtual time advanced to `now_ns`.
    fn on_time(&mut self, _now_ns: u64, _out: &mut BrokerOut) {}
    /// Fire a manual push by label (batch drivers). Returns false if unknown or used.
    fn force(&mut self, _label: &str, _out: &mut BrokerOut) -> bool {
        false
    }
    fn as_any(&mut self) -> &mut dyn std::any::Any;
}

/// What the server does during the handshake.
#[derive(Clone, Debug)]
pub struct Handshake {
    pub mechanisms: String,
    pub locales: String,
    pub server_properties: FieldTable,
    pub tune: (u16, u32, u16),
    /// replace the frame of a stage by something else
    pub at_start: Stage,
    pub after_start_ok: Stage,
    pub after_tune_ok: Stage,
    pub after_open: Stage,
    /// send the (normal) OpenOk only after this much virtual time (ns)
    pub open_ok_delay_ns: u64,
}

#[derive(Clone, Debug, PartialEq)]
pub enum Stage {
    Normal,
    Silent,
    Eof,
    Frames(Vec<AMQPFrame>, bool /* then eof */),
    Raw(Vec<u8>),
}

impl Default for Handshake {
    fn default() -> Self {
        let mut sp = FieldTable::new();
        sp.insert("product".to_string(), AMQPValue::LongString("simx-broker".to_string()));
        Handshake {
            mechanisms: "PLAIN AMQPLAIN EXTERNAL".into(),
            locales: "en_US".into(),
            server_properties: sp,
            tune: (2047, 131072, 60),
            at_start: Stage::Normal,
            after_start_ok: Stage::Normal,
            after_tune_ok: Stage::Normal,
            after_open: Stage::Normal,
            open_ok_delay_ns: 0,
        }
    }
}

/// An unsolicited thing the server may do once, offered as an environment action while its
/// precondition holds.
#[derive(Clone, Debug)]
pub struct Push {
    pub label: String,
    pub frames: Vec<AMQPFrame>,
    pub eof_after: bool,
    /// offered only once the client has sent at least this many frames
    pub after_client_frames: usize,
    /// offered only after this many earlier pushes were used (orders pushes; usize::MAX = any)
    pub after_pushes: usize,
    /// offered only while this channel is open at the broker and has seen at least this
    /// many requests (Channel.Open counts as the first)
    pub chan_requests: Option<(u16, u32)>,
    /// never offered to the explorer; only the scenario's driver can fire it
    pub manual: bool,
    /// offered only after the push with this label has been used
    pub after_label: Option<String>,
    /// no longer offered once the push with this label has been used
    pub not_after_label: Option<String>,
    /// no longer offered once the client has sent this (class, method) on this channel
    pub not_after_client_method: Option<(u16, u16, u16)>,
    pub used: bool,
}

impl Push {
    pub fn new(label: &str, frames: Vec<AMQPFrame>) -> Push {
        Push { label: label.to_string(), frames, eof_after: false, after_client_frames: 0, after_pushes: 0, chan_requests: None, manual: false, after_label: None, not_after_label: None, not_after_client_method: None, used: false }
    }
    pub fn after_frames(mut self, n: usize) -> Push {
        self.after_client_frames = n;
        self
    }
    pub fn after_pushes(mut self, n: usize) -> Push {
        self.after_pushes = n;
        self
    }
    pub fn when_channel(mut self, chan: u16, requests: u32) -> Push {
        self.chan_requests = Some((chan, requests));
        self
    }
    pub fn after(mut self, label: &str) -> Push {
        self.after_label = Some(label.to_string());
        self
    }
    pub fn not_after(mut self, label: &str) -> Push {
        self.not_after_label = Some(label.to_string());
        self
    }
    pub fn until_client_sends(mut self, chan: u16, class: u16, method: u16) -> Push {
        self.not_after_client_method = Some((chan, class, method));
        self
    }
    pub fn manual(mut self) -> Push {
        self.manual = true;
        self
    }
    pub fn eof(mut self) -> Push {
        self.eof_after = true;
        self
    }
}

#[derive(Clone, Debug, PartialEq)]
pub enum CloseBehaviour {
    /// CloseOk, socket stays open
    CloseOk,
    /// CloseOk and then the server closes the socket
    CloseOkThenEof,
    /// CloseOk and, in the same transmission, these frames (a server that keeps talking)
    CloseOkThen(Vec<AMQPFrame>),
    /// these frames (events the server had in its pipe) and then CloseOk
    FramesThenCloseOk(Vec<AMQPFrame>),
    /// never answer
    Silent,
    /// CloseOk after this much virtual time (ns)
    Delayed(u64),
}

pub struct StdBroker {
    pub hs: Handshake,
    buf: Vec<u8>,
    got_header: bool,
    bad_header: bool,
    pub stage: u8, // 0 wait header, 1 sent start, 2 sent tune, 3 open: steady
    /// every client frame seen (envelope form), in order
    pub frames: Vec<Env>,
    /// replies are queued per channel and released by environment actions instead of at once
    pub hold_replies: bool,
    /// with hold_replies: only hold the replies to requests numbered above this on their channel
    pub hold_after_seq: u32,
    held: BTreeMap<u16, VecDeque<Vec<AMQPFrame>>>,
    pub pushes: Vec<Push>,
    pushes_used: usize,
    pub close_behaviour: CloseBehaviour,
    /// per channel: number of requests answered so far (feeds the reply payloads)
    pub seq: BTreeMap<u16, u32>,
    /// channels with publisher confirms on and their next tag
    confirms: BTreeMap<u16, u64>,
    /// publish in progress per channel: (remaining body bytes, got header)
    publishing: BTreeMap<u16, (u64, bool)>,
    /// queue contents for basic.get: per channel list of bodies to hand out
    pub get_bodies: VecDeque<Vec<u8>>,
    pub client_closed: bool,
    pub server_closed: bool,
    /// after its own Connection.Close the server still answers a (crossing) Connection.Close of
    /// the client with CloseOk, as RabbitMQ does in its closing state
    pub answer_crossing_close: bool,
    /// frames the server still had in its pipe for a channel when the client's Channel.Close
    /// arrived: sent ahead of the CloseOk
    pub before_channel_close_ok: Vec<AMQPFrame>,
    /// frames the broker could not make sense of (envelope parser vs amq-protocol disagreement)
    pub parse_disagreements: Vec<String>,
    /// do not answer these (class, method) requests at all
    pub mute: Vec<(u16, u16)>,
    /// log of (channel, seq, description of the reply) for oracles
    pub replies: Vec<(u16, u32, String)>,
    /// corrupt the frame-end octet of the n-th frame the broker emits after the handshake (0-based)
    pub corrupt_frame: Option<usize>,
    emitted: usize,
    /// stop answering anything once the handshake is done
    pub silent_after_handshake: bool,
    /// channels currently open from the broker's point of view
    pub open_channels: std::collections::BTreeSet<u16>,
    /// channels the broker has closed itself and whose CloseOk is outstanding: everything
    /// else the client still sends on them is discarded, as a real broker does
    pub closing_channels: std::collections::BTreeSet<u16>,
    /// (virtual time ns, raw bytes) the server sends on its own at that time, in order
    pub timed: VecDeque<(u64, Vec<u8>)>,
    /// pushes labelled "d.*" (deliveries) stop being offered once the client has sent any of
    /// these (channel, class, method)
    pub delivery_stoppers: Vec<(u16, u16, u16)>,
    /// channels on which a content (Deliver / Return / GetOk + header + body) has been started
    /// and not finished by this server: remaining body bytes (None = header not sent yet). A
    /// compliant server sends nothing else on such a channel: replies are deferred, pushes wait.
    pub content_open: BTreeMap<u16, Option<u64>>,
    pub deferred: Vec<(u16, Vec<AMQPFrame>)>,
    /// false: the script deliberately violates the protocol (C07 scenario), no content discipline
    pub strict_content: bool,
    /// held replies are released only by `force("release:<chan>")` (batch driver), never offered
    /// to the explorer
    pub manual_release: bool,
}

impl StdBroker {
    pub fn new(hs: Handshake) -> StdBroker {
        StdBroker {
            hs,
            buf: Vec::new(),
            got_header: false,
            bad_header: false,
            stage: 0,
            frames: Vec::new(),
            hold_replies: false,
            hold_after_seq: 0,
            held: BTreeMap::new(),
            pushes: Vec::new(),
            pushes_used: 0,
            close_behaviour: CloseBehaviour::CloseOk,
            seq: BTreeMap::new(),
            confirms: BTreeMap::new(),
            publishing: BTreeMap::new(),
            get_bodies: VecDeque::new(),
            client_closed: false,
            server_closed: false,
            answer_crossing_close: false,
            before_channel_close_ok: Vec::new(),
            parse_disagreements: Vec::new(),
            mute: Vec::new(),
            replies: Vec::new(),
            corrupt_frame: None,
            emitted: 0,
            silent_after_handshake: false,
            open_channels: Default::default(),
            closing_channels: Default::default(),
            timed: VecDeque::new(),
            delivery_stoppers: Vec::new(),
            content_open: BTreeMap::new(),
            deferred: Vec::new(),
            strict_content: true,
            manual_release: false,
        }
    }

    fn stage_out(stage: &Stage, normal: Vec<AMQPFrame>, out: &mut BrokerOut) {
        match stage {
            Stage::Normal => {
                for f in &normal {
                    out.frame(f);
                }
            }
            Stage::Silent => {}
            Stage::Eof => out.eof = true,
            Stage::Frames(fs, eof) => {
                for f in fs {
                    out.frame(f);
                }
                if *eof {
                    out.eof = true;
                }
            }
            Stage::Raw(b) => out.bytes.extend_from_slice(b),
        }
    }

    fn next_seq(&mut self, chan: u16) -> u32 {
        let s = self.seq.entry(chan).or_insert(0);
        *s += 1;
        *s
    }

    /// Values a reply carries are a function of (channel, sequence number of the request on
    /// that channel), so a misrouted or misattributed reply is visible to the caller.
    pub fn reply_values(chan: u16, seq: u32) -> (u32, u32) {
        (chan as u32 * 1000 + seq, chan as u32 * 100 + seq)
    }

    fn reply_to(&mut self, chan: u16, m: &AMQPClass) -> Option<Vec<AMQPFrame>> {
        use AMQPClass::*;
        let f = |c: AMQPClass| Some(vec![AMQPFrame::Method(chan, c)]);
        match m {
            Channel(channel::AMQPMethod::Open(_)) => {
                self.seq.insert(chan, 0);
                self.open_channels.insert(chan);
                self.next_seq(chan);
                f(Channel(channel::AMQPMethod::OpenOk(channel::OpenOk { channel_id: String::new() })))
            }
            Channel(channel::AMQPMethod::Close(_)) => {
                self.open_channels.remove(&chan);
                self.next_seq(chan);
                self.confirms.remove(&chan);
                let mut v: Vec<AMQPFrame> = self.before_channel_close_ok.drain(..).collect();
                v.push(AMQPFrame::Method(chan, Channel(channel::AMQPMethod::CloseOk(channel::CloseOk {}))));
                Some(v)
            }
            Channel(channel::AMQPMethod::CloseOk(_)) => {
                self.open_channels.remove(&chan);
                None
            }
            Queue(queue::AMQPMethod::Declare(d)) => {
                let s = self.next_seq(chan);
                if d.nowait {
                    return None;
                }
                let (a, b) = if d.queue == "emptyq" { (0, 0) } else { Self::reply_values(chan, s) };
                let name = if d.queue.is_empty() { format!("gen-{}-{}", chan, s) } else { d.queue.clone() };
                self.replies.push((chan, s, format!("declare-ok {} {} {}", name, a, b)));
                f(Queue(queue::AMQPMethod::DeclareOk(queue::DeclareOk { queue: name, message_count: a, consumer_count: b })))
            }
            Queue(queue::AMQPMethod::Bind(d)) => {
                self.next_seq(chan);
                if d.nowait {
                    return None;
                }
                f(Queue(queue::AMQPMethod::BindOk(queue::BindOk {})))
            }
            Queue(queue::AMQPMethod::Unbind(_)) => {
                self.next_seq(chan);
                f(Queue(queue::AMQPMethod::UnbindOk(queue::UnbindOk {})))
            }
            Queue(queue::AMQPMethod::Purge(d)) => {
                let s = self.next_seq(chan);
                if d.queue == "no-such-queue" {
                    // what a real broker does with a missing queue: a channel exception
                    self.open_channels.remove(&chan);
                    self.closing_channels.insert(chan);
                    return f(Channel(channel::AMQPMethod::Close(channel::Close { reply_code: 404, reply_text: "NOT_FOUND - no queue 'no-such-queue'".into(), class_id: 50, method_id: 30 })));
                }
                if d.nowait {
                    return None;
                }
                let (a, _) = Self::reply_values(chan, s);
                if d.queue == "close-after-reply" {
                    // the reply and, right behind it in the same transmission, a channel exception
                    self.open_channels.remove(&chan);
                    self.closing_channels.insert(chan);
                    self.replies.push((chan, s, format!("purge-ok {}", a)));
                    return Some(vec![
                        AMQPFrame::Method(chan, Queue(queue::AMQPMethod::PurgeOk(queue::PurgeOk { message_count: a }))),
                        AMQPFrame::Method(chan, Channel(channel::AMQPMethod::Close(channel::Close { reply_code: 406, reply_text: "PRECONDITION_FAILED - after the reply".into(), class_id: 0, method_id: 0 }))),
                    ]);
                }
                self.replies.push((chan, s, format!("purge-ok {}", a)));
                f(Queue(queue::AMQPMethod::PurgeOk(queue::PurgeOk { message_count: a })))
            }
            Queue(queue::AMQPMethod::Delete(d)) => {
                let s = self.next_seq(chan);
                if d.nowait {
                    return None;
                }
                let (a, _) = Self::reply_values(chan, s);
                self.replies.push((chan, s, format!("delete-ok {}", a)));
                f(Queue(queue::AMQPMethod::DeleteOk(queue::DeleteOk { message_count: a })))
            }
            Exchange(exchange::AMQPMethod::Declare(d)) => {
                self.next_seq(chan);
                if d.nowait {
                    return None;
                }
                f(Exchange(exchange::AMQPMethod::DeclareOk(exchange::DeclareOk {})))
            }
            Exchange(exchange::AMQPMethod::Delete(d)) => {
                self.next_seq(chan);
                if d.nowait {
                    return None;
                }
                f(Exchange(exchange::AMQPMethod::DeleteOk(exchange::DeleteOk {})))
            }
            Exchange(exchange::AMQPMethod::Bind(d)) => {
                self.next_seq(chan);
                if d.nowait {
                    return None;
                }
                f(Exchange(exchange::AMQPMethod::BindOk(exchange::BindOk {})))
            }
            Exchange(exchange::AMQPMethod::Unbind(d)) => {
                self.next_seq(chan);
                if d.nowait {
                    return None;
                }
                f(Exchange(exchange::AMQPMethod::UnbindOk(exchange::UnbindOk {})))
            }
            Basic(basic::AMQPMethod::Qos(_)) => {
                self.next_seq(chan);
                f(Basic(basic::AMQPMethod::QosOk(basic::QosOk {})))
            }
            Basic(basic::AMQPMethod::Recover(_)) => {
                self.next_seq(chan);
                f(Basic(basic::AMQPMethod::RecoverOk(basic::RecoverOk {})))
            }
            Basic(basic::AMQPMethod::Consume(_)) => {
                let s = self.next_seq(chan);
                let tag = format!("ctag-{}-{}", chan, s);
                self.replies.push((chan, s, format!("consume-ok {}", tag)));
                f(Basic(basic::AMQPMethod::ConsumeOk(basic::ConsumeOk { consumer_tag: tag })))
            }
            Basic(basic::AMQPMethod::Cancel(c)) => {
                self.next_seq(chan);
                if c.nowait {
                    return None;
                }
                f(Basic(basic::AMQPMethod::CancelOk(basic::CancelOk { consumer_tag: c.consumer_tag.clone() })))
            }
            Basic(basic::AMQPMethod::Get(g)) => {
                let s = self.next_seq(chan);
                // queue "msgq" always holds a message whose body names the request it answers
                let body = if g.queue == "msgq" { Some(format!("body-{}-{}", chan, s).into_bytes()) } else { self.get_bodies.pop_front() };
                match body {
                    None => {
                        self.replies.push((chan, s, "get-empty".to_string()));
                        f(Basic(basic::AMQPMethod::GetEmpty(basic::GetEmpty { cluster_id: String::new() })))
                    }
                    Some(body) => {
                        let (a, b) = Self::reply_values(chan, s);
                        self.replies.push((chan, s, format!("get-ok tag {} count {} body {:?}", a, b, body)));
                        let mut v = vec![
                            AMQPFrame::Method(chan, Basic(basic::AMQPMethod::GetOk(basic::GetOk { delivery_tag: a as u64, redelivered: false, exchange: "gx".into(), routing_key: "gk".into(), message_count: b }))),
                            AMQPFrame::Header(chan, 60, Box::new(AMQPContentHeader { class_id: 60, weight: 0, body_size: body.len() as u64, properties: Default::default() })),
                        ];
                        // (a body of more than four bytes goes out in two frames)
                        if body.len() > 4 {
                            v.push(AMQPFrame::Body(chan, body[..3].to_vec()));
                            v.push(AMQPFrame::Body(chan, body[3..].to_vec()));
                        } else if !body.is_empty() {
                            v.push(AMQPFrame::Body(chan, body));
                        }
                        Some(v)
                    }
                }
            }
            Confirm(confirm::AMQPMethod::Select(sel)) => {
                self.next_seq(chan);
                self.confirms.insert(chan, 1);
                if sel.nowait {
                    return None;
                }
                f(Confirm(confirm::AMQPMethod::SelectOk(confirm::SelectOk {})))
            }
            Basic(basic::AMQPMethod::Publish(_)) => {
                self.publishing.insert(chan, (0, false));
                None
            }
            Basic(basic::AMQPMethod::Ack(_)) | Basic(basic::AMQPMethod::Nack(_)) | Basic(basic::AMQPMethod::Reject(_)) | Basic(basic::AMQPMethod::CancelOk(_)) => None,
            _ => None,
        }
    }

    fn publish_done(&mut self, chan: u16) -> Option<Vec<AMQPFrame>> {
        self.publishing.remove(&chan);
        if let Some(tag) = self.confirms.get_mut(&chan) {
            let t = *tag;
            *tag += 1;
            return Some(vec![AMQPFrame::Method(chan, AMQPClass::Basic(basic::AMQPMethod::Ack(basic::Ack { delivery_tag: t, multiple: false })))]);
        }
        None
    }

    fn emit(&mut self, chan: u16, frames: Vec<AMQPFrame>, out: &mut BrokerOut) {
        if self.silent_after_handshake {
            return;
        }
        if self.content_open.contains_key(&chan) {
            // a reply must not cut into the content being sent on this channel
            self.deferred.push((chan, frames));
            return;
        }
        if self.hold_replies && self.seq.get(&chan).copied().unwrap_or(0) > self.hold_after_seq {
            self.held.entry(chan).or_default().push_back(frames);
        } else {
            self.emit_now(&frames, out);
        }
    }

    fn emit_now(&mut self, frames: &[AMQPFrame], out: &mut BrokerOut) {
        for f in frames {
            let mut b = frame_bytes(f);
            if self.corrupt_frame == Some(self.emitted) {
                let n = b.len();
                b[n - 1] = 0xCD;
            }
            self.emitted += 1;
            out.bytes.extend_from_slice(&b);
            if !self.strict_content {
                continue;
            }
            match f {
                AMQPFrame::Method(c, AMQPClass::Basic(basic::AMQPMethod::Deliver(_))) | AMQPFrame::Method(c, AMQPClass::Basic(basic::AMQPMethod::Return(_))) | AMQPFrame::Method(c, AMQPClass::Basic(basic::AMQPMethod::GetOk(_))) => {
                    self.content_open.insert(*c, None);
                }
                AMQPFrame::Method(c, AMQPClass::Channel(channel::AMQPMethod::Close(_))) => {
                    // (scripts that close a channel in the middle of a content abandon it)
                    self.content_open.remove(c);
                }
                AMQPFrame::Header(c, _, h) => {
                    if self.content_open.contains_key(c) {
                        if h.body_size == 0 {
                            self.content_open.remove(c);
                        } else {
                            self.content_open.insert(*c, Some(h.body_size));
                        }
                    }
                }
                AMQPFrame::Body(c, b) => {
                    if let Some(Some(rem)) = self.content_open.get(c).cloned() {
                        let rem = rem.saturating_sub(b.len() as u64);
                        if rem == 0 {
                            self.content_open.remove(c);
                        } else {
                            self.content_open.insert(*c, Some(rem));
                        }
                    }
                }
                _ => {}
            }
        }
        // replies that waited for a content to finish
        let ready: Vec<usize> = self.deferred.iter().enumerate().filter(|(_, (c, _))| !self.content_open.contains_key(c)).map(|(i, _)| i).collect();
        if !ready.is_empty() {
            let mut rest = Vec::new();
            let mut go = Vec::new();
            for (i, d) in std::mem::take(&mut self.deferred).into_iter().enumerate() {
                if ready.contains(&i) {
                    go.push(d);
                } else {
                    rest.push(d);
                }
            }
            self.deferred = rest;
            for (c, fs) in go {
                self.emit(c, fs, out);
            }
        }
    }

    fn on_frame(&mut self, env: Env, out: &mut BrokerOut) {
        // cross-check the envelope parser against amq-protocol
        let raw = env.to_bytes();
        let parsed = match parse_frame(&raw) {
            Ok((rest, f)) if rest.is_empty() => Some(f),
            _ => None,
        };
        if parsed.is_none() {
            self.parse_disagreements.push(format!("frame type {} chan {} len {} not parsed by amq-protocol", env.ty, env.chan, env.payload.len()));
        }
        self.frames.push(env.clone());
        if self.server_closed {
            // after our Close we only expect CloseOk; ignore everything (but see answer_crossing_close)
            if self.answer_crossing_close && !self.client_closed {
                if let Some(AMQPFrame::Method(0, AMQPClass::Connection(connection::AMQPMethod::Close(_)))) = parsed {
                    self.client_closed = true;
                    out.frame(&AMQPFrame::Method(0, AMQPClass::Connection(connection::AMQPMethod::CloseOk(connection::CloseOk {}))));
                }
            }
            return;
        }
        let frame = match parsed {
            Some(f) => f,
            None => return,
        };
        match self.stage {
            1 => {
                if let AMQPFrame::Method(0, AMQPClass::Connection(connection::AMQPMethod::StartOk(_))) = frame {
                    self.stage = 2;
                    let (c, f, h) = self.hs.tune;
                    let st = self.hs.after_start_ok.clone();
                    Self::stage_out(&st, vec![AMQPFrame::Method(0, AMQPClass::Connection(connection::AMQPMethod::Tune(connection::Tune { channel_max: c, frame_max: f, heartbeat: h })))], out);
                }
            }
            2 => match frame {
                AMQPFrame::Method(0, AMQPClass::Connection(connection::AMQPMethod::TuneOk(_))) => {
                    let st = self.hs.after_tune_ok.clone();
                    Self::stage_out(&st, vec![], out);
                }
                AMQPFrame::Method(0, AMQPClass::Connection(connection::AMQPMethod::Open(_))) => {
                    self.stage = 3;
                    if self.hs.open_ok_delay_ns > 0 {
                        let at = amiquip::verif::clock::now_ns() + self.hs.open_ok_delay_ns;
                        let b = frame_bytes(&AMQPFrame::Method(0, AMQPClass::Connection(connection::AMQPMethod::OpenOk(connection::OpenOk { known_hosts: String::new() }))));
                        self.timed.push_front((at, b));
                        return;
                    }
                    let st = self.hs.after_open.clone();
                    // a script that closes the connection right behind OpenOk says nothing after it
                    if let Stage::Frames(fs, _) = &st {
                        if fs.iter().any(|f| matches!(f, AMQPFrame::Method(0, AMQPClass::Connection(connection::AMQPMethod::Close(_))))) {
                            self.server_closed = true;
                        }
                    }
                    Self::stage_out(&st, vec![AMQPFrame::Method(0, AMQPClass::Connection(connection::AMQPMethod::OpenOk(connection::OpenOk { known_hosts: String::new() })))], out);
                }
                AMQPFrame::Method(0, AMQPClass::Connection(connection::AMQPMethod::CloseOk(_))) => {
                    out.eof = true;
                }
                _ => {}
            },
            _ => match frame {
                AMQPFrame::Heartbeat(_) => {}
                AMQPFrame::Method(0, AMQPClass::Connection(connection::AMQPMethod::Close(_))) => {
                    self.client_closed = true;
                    if self.silent_after_handshake {
                        return;
                    }
                    match self.close_behaviour.clone() {
                        CloseBehaviour::FramesThenCloseOk(fs) => {
                            for f in &fs {
                                out.frame(f);
                            }
                            out.frame(&AMQPFrame::Method(0, AMQPClass::Connection(connection::AMQPMethod::CloseOk(connection::CloseOk {}))));
                        }
                        CloseBehaviour::CloseOkThen(fs) => {
                            out.frame(&AMQPFrame::Method(0, AMQPClass::Connection(connection::AMQPMethod::CloseOk(connection::CloseOk {}))));
                            for f in &fs {
                                out.frame(f);
                            }
                        }
                        CloseBehaviour::CloseOk => out.frame(&AMQPFrame::Method(0, AMQPClass::Connection(connection::AMQPMethod::CloseOk(connection::CloseOk {})))),
                        CloseBehaviour::CloseOkThenEof => {
                            out.frame(&AMQPFrame::Method(0, AMQPClass::Connection(connection::AMQPMethod::CloseOk(connection::CloseOk {}))));
                            out.eof = true;
                        }
                        CloseBehaviour::Silent => {}
                        CloseBehaviour::Delayed(ns) => {
                            let at = amiquip::verif::clock::now_ns() + ns;
                            let b = frame_bytes(&AMQPFrame::Method(0, AMQPClass::Connection(connection::AMQPMethod::CloseOk(connection::CloseOk {}))));
                            self.timed.push_back((at, b));
                        }
                    }
                }
                AMQPFrame::Method(0, AMQPClass::Connection(connection::AMQPMethod::CloseOk(_))) => {
                    out.eof = true;
                }
                AMQPFrame::Method(chan, AMQPClass::Channel(channel::AMQPMethod::CloseOk(_))) => {
                    self.closing_channels.remove(&chan);
                    self.open_channels.remove(&chan);
                }
                AMQPFrame::Method(chan, AMQPClass::Channel(channel::AMQPMethod::Close(_))) if self.closing_channels.contains(&chan) => {
                    // crossing closes: the client's Close is answered although we sent our own
                    let f = vec![AMQPFrame::Method(chan, AMQPClass::Channel(channel::AMQPMethod::CloseOk(channel::CloseOk {})))];
                    if self.content_open.contains_key(&chan) {
                        self.deferred.push((chan, f));
                    } else {
                        self.emit_now(&f, out);
                    }
                }
                AMQPFrame::Method(chan, _) | AMQPFrame::Header(chan, _, _) | AMQPFrame::Body(chan, _) if self.closing_channels.contains(&chan) => {}
                AMQPFrame::Method(chan, m) => {
                    let ids = (env.payload.get(0..2).map(|b| u16::from_be_bytes([b[0], b[1]])).unwrap_or(0), env.payload.get(2..4).map(|b| u16::from_be_bytes([b[0], b[1]])).unwrap_or(0));
                    if self.client_closed || self.mute.contains(&ids) {
                        return;
                    }
                    if let Some(fs) = self.reply_to(chan, &m) {
                        self.emit(chan, fs, out);
                    }
                }
                AMQPFrame::Header(chan, _, h) => {
                    if self.publishing.contains_key(&chan) {
                        if h.body_size == 0 {
                            if let Some(fs) = self.publish_done(chan) {
                                self.emit(chan, fs, out);
                            }
                        } else {
                            self.publishing.insert(chan, (h.body_size, true));
                        }
                    }
                }
                AMQPFrame::Body(chan, b) => {
                    if let Some((rem, true)) = self.publishing.get(&chan).cloned() {
                        let rem = rem.saturating_sub(b.len() as u64);
                        if rem == 0 {
                            if let Some(fs) = self.publish_done(chan) {
                                self.emit(chan, fs, out);
                            }
                        } else {
                            self.publishing.insert(chan, (rem, true));
                        }
                    }
                }
                AMQPFrame::ProtocolHeader => {}
            },
        }
    }

    /// Frames of the client seen so far, decoded.
    pub fn decoded(&self) -> Vec<Option<AMQPFrame>> {
        self.frames.iter().map(|e| e.decode()).collect()
    }
}

impl StdBroker {
    fn push_available(&self, p: &Push) -> bool {
        if p.used || p.manual || self.server_closed || self.client_closed {
            return false;
        }
        if self.frames.len() < p.after_client_frames {
            return false;
        }
        if p.after_pushes != usize::MAX && self.pushes_used < p.after_pushes {
            return false;
        }
        // a content in progress on a channel is finished before anything else is sent on it,
        // and finishing it is not subject to the stoppers below
        match p.frames.first() {
            Some(AMQPFrame::Header(c, _, _)) | Some(AMQPFrame::Body(c, _)) if self.content_open.contains_key(c) => {
                return match &p.after_label {
                    Some(l) => self.pushes.iter().any(|q| q.used && q.label == *l),
                    None => true,
                };
            }
            Some(AMQPFrame::Method(c, _)) if *c != 0 && self.content_open.contains_key(c) => return false,
            _ => {}
        }
        if p.label.starts_with("d.") {
            for (chan, class, method) in &self.delivery_stoppers {
                let seen = self.frames.iter().any(|e| e.chan == *chan && e.ty == 1 && e.payload.len() >= 4 && u16::from_be_bytes([e.payload[0], e.payload[1]]) == *class && u16::from_be_bytes([e.payload[2], e.payload[3]]) == *method);
                if seen {
                    return false;
                }
            }
        }
        if let Some(l) = &p.not_after_label {
            if self.pushes.iter().any(|q| q.used && q.label == *l) {
                return false;
            }
        }
        if let Some((chan, class, method)) = p.not_after_client_method {
            let seen = self.frames.iter().any(|e| e.chan == chan && e.ty == 1 && e.payload.len() >= 4 && u16::from_be_bytes([e.payload[0], e.payload[1]]) == class && u16::from_be_bytes([e.payload[2], e.payload[3]]) == method);
            if seen {
                return false;
            }
        }
        if let Some(l) = &p.after_label {
            if !self.pushes.iter().any(|q| q.used && q.label == *l) {
                return false;
            }
        }
        if let Some((chan, n)) = p.chan_requests {
            if !self.open_channels.contains(&chan) || self.seq.get(&chan).copied().unwrap_or(0) < n {
                return false;
            }
        }
        true
    }
}

impl Broker for StdBroker {
    fn on_client_bytes(&mut self, bytes: &[u8], out: &mut BrokerOut) {
        self.buf.extend_from_slice(bytes);
        if !self.got_header {
            if self.buf.len() < 8 {
                return;
            }
            if &self.buf[..8] != PROTOCOL_HEADER {
                self.bad_header = true;
                out.eof = true;
                self.got_header = true;
                return;
            }
            self.got_header = true;
            self.buf.drain(..8);
            self.stage = 1;
            let st = self.hs.at_start.clone();
            let start = AMQPFrame::Method(
                0,
                AMQPClass::Connection(connection::AMQPMethod::Start(connection::Start {
                    version_major: 0,
                    version_minor: 9,
                    server_properties: self.hs.server_properties.clone(),
                    mechanisms: self.hs.mechanisms.clone(),
                    locales: self.hs.locales.clone(),
                })),
            );
            Self::stage_out(&st, vec![start], out);
        }
        if self.bad_header {
            return;
        }
        loop {
            let (envs, used, err) = split_envelopes(&self.buf);
            if let Some(e) = err {
                if envs.is_empty() {
                    self.parse_disagreements.push(format!("client stream is not whole frames: {}", e));
                    return;
                }
            }
            if envs.is_empty() {
                return;
            }
            self.buf.drain(..used);
            for env in envs {
                self.on_frame(env, out);
            }
        }
    }

    fn actions(&self) -> Vec<String> {
        let mut v = Vec::new();
        if self.stage < 3 {
            return v;
        }
        for (chan, q) in &self.held {
            if !q.is_empty() && !self.content_open.contains_key(chan) && !self.manual_release {
                v.push(format!("release({})", chan));
            }
        }
        for p in &self.pushes {
            if self.push_available(p) {
                v.push(format!("push({})", p.label));
            }
        }
        v
    }

    fn apply(&mut self, idx: usize, out: &mut BrokerOut) {
        let mut i = 0usize;
        let chans: Vec<u16> = self.held.iter().filter(|(c, q)| !q.is_empty() && !self.content_open.contains_key(c) && !self.manual_release).map(|(c, _)| *c).collect();
        for chan in chans {
            if i == idx {
                let fs = self.held.get_mut(&chan).unwrap().pop_front().unwrap();
                self.emit_now(&fs, out);
                return;
            }
            i += 1;
        }
        let avail: Vec<bool> = self.pushes.iter().map(|p| self.push_available(p)).collect();
        for (pi, p) in self.pushes.iter_mut().enumerate() {
            if avail[pi] {
                if i == idx {
                    p.used = true;
                    let frames = p.frames.clone();
                    let eof = p.eof_after;
                    self.pushes_used += 1;
                    for f in &frames {
                        if let AMQPFrame::Method(0, AMQPClass::Connection(connection::AMQPMethod::Close(_))) = f {
                            self.server_closed = true;
                        }
                        if let AMQPFrame::Method(c, AMQPClass::Channel(channel::AMQPMethod::Close(_))) = f {
                            self.open_channels.remove(c);
                            self.closing_channels.insert(*c);
                        }
                    }
                    self.emit_now(&frames, out);
                    if eof {
                        out.eof = true;
                    }
                    return;
                }
                i += 1;
            }
        }
    }

    fn next_time_ns(&self) -> Option<u64> {
        if self.stage < 3 {
            return None;
        }
        self.timed.front().map(|(t, _)| *t)
    }

    fn on_time(&mut self, now_ns: u64, out: &mut BrokerOut) {
        while let Some((t, _)) = self.timed.front() {
            if *t <= now_ns && self.stage >= 3 {
                let (_, b) = self.timed.pop_front().unwrap();
                out.bytes.extend_from_slice(&b);
            } else {
                break;
            }
        }
    }

    fn force(&mut self, label: &str, out: &mut BrokerOut) -> bool {
        // "release:<chan>": the oldest held reply of that channel
        if let Some(c) = label.strip_prefix("release:").and_then(|x| x.parse::<u16>().ok()) {
            let fs = match self.held.get_mut(&c).and_then(|q| q.pop_front()) {
                Some(fs) => fs,
                None => return false,
            };
            self.emit_now(&fs, out);
            if self.manual_release {
                // one manual release ends the holding: later replies are answered at once
                self.hold_replies = false;
                let rest: Vec<(u16, Vec<AMQPFrame>)> = self.held.iter_mut().flat_map(|(c, q)| q.drain(..).map(|f| (*c, f)).collect::<Vec<_>>()).collect();
                for (c, f) in rest {
                    self.emit(c, f, out);
                }
            }
            return true;
        }
        let pi = match self.pushes.iter().position(|p| p.manual && !p.used && p.label == label) {
            Some(i) => i,
            None => return false,
        };
        self.pushes[pi].used = true;
        let frames = self.pushes[pi].frames.clone();
        let eof = self.pushes[pi].eof_after;
        self.pushes_used += 1;
        for f in &frames {
            if let AMQPFrame::Method(0, AMQPClass::Connection(connection::AMQPMethod::Close(_))) = f {
                self.server_closed = true;
            }
            if let AMQPFrame::Method(c, AMQPClass::Channel(channel::AMQPMethod::Close(_))) = f {
                self.open_channels.remove(c);
                self.closing_channels.insert(*c);
            }
        }
        self.emit_now(&frames, out);
        if eof {
            out.eof = true;
        }
        true
    }

    fn as_any(&mut self) -> &mut dyn std::any::Any {
        self
    }
}
