//! The controller: owns scheduling (one thread runs at a time), the transport, the broker
//! and virtual time. Every choice it makes is drawn from a decision sequence and recorded.
use super::broker::{Broker, BrokerOut};
use amiquip::verif::{self, ChanKind, Controller, MsgKind, Point, RecvKind, ToClient};
use amq_protocol::frame::AMQPFrame;
use mio::{Ready, SetReadiness};
use std::cell::Cell;
use std::collections::{BTreeMap, HashMap, VecDeque};
use std::hash::{Hash, Hasher};
use std::io;
use std::sync::{Arc, Condvar, Mutex, MutexGuard};
use std::time::Duration;

thread_local! {
    static ACTOR: Cell<Option<usize>> = Cell::new(None);
}

pub const IO: usize = 0;

type ProbeFn = dyn Fn() -> bool + Sync;
struct ProbePtr(*const ProbeFn);
unsafe impl Send for ProbePtr {}

enum Wait {
    Start,
    Gate,
    Send { serial: u64, kind: ChanKind },
    Recv(ProbePtr, String),
    Join,
    HJoin(usize),
    /// until the target actor is blocked (parked and not enabled) or finished
    ActorBlocked(usize),
    /// until the I/O thread has nothing left to do (idle at its gate) or is gone
    IoQuiet,
    /// fine mode: the I/O thread parked inside an iteration (after taking a message / before
    /// sending to a client); always enabled
    FineStep,
}

enum Status {
    Running,
    Parked(Wait),
    Finished,
}

struct Actor {
    name: String,
    status: Status,
    granted: bool,
    cv: Arc<Condvar>,
    log: Vec<String>,
    panicked: Option<String>,
}

#[derive(Clone, Debug, PartialEq, Eq)]
pub enum PointKind {
    Sched,
    Read,
    Write,
}

#[derive(Clone, Debug)]
pub struct PointRec {
    pub kind: PointKind,
    pub n: usize,
    pub chosen: usize,
    pub sig: u64,
    pub labels: Vec<String>,
}

#[derive(Clone, Debug, PartialEq)]
pub enum IoEvent {
    Recv { channel_id: u16, kind: ChanKind, msg: MsgKind },
    Frame(AMQPFrame),
    ToClient(ToClient),
    Polled(usize),
    Gate { outbuf_len: usize, sealed: bool, n_slots: usize },
    /// client bytes accepted by the transport (cumulative wire length after the write)
    Wrote(usize),
    Exit { panicking: bool },
}

#[derive(Clone, Debug, PartialEq, Eq)]
pub enum FaultKind {
    ReadEof,
    ReadErr,
    /// a read error of kind Interrupted, once; the reads after it fail with ConnectionReset
    ReadErrInterrupted,
    WriteErr,
}

#[derive(Clone, Debug)]
enum EnvAction {
    Deliver(usize),
    Eof,
    Grant(usize),
    Tick,
    Broker(usize),
    Fault(FaultKind),
}

#[derive(Clone, Debug)]
enum Choice {
    Actor(usize),
    Env(EnvAction, String),
}

/// Static configuration of the environment for one execution.
#[derive(Clone, Debug)]
pub struct EnvConfig {
    /// offer alternative Deliver(k) sizes (cut menu) besides "everything"
    pub deliver_cuts: bool,
    /// at most this many alternative delivery sizes per point
    pub deliver_cut_limit: usize,
    /// offer short-read answers inside read()
    pub read_cuts: bool,
    /// offer short-accept answers inside write()
    pub write_cuts: bool,
    /// at most this many alternative accept sizes per write call
    pub write_cut_limit: usize,
    /// transport starts with zero write capacity (stalled) after this many bytes were accepted
    pub stall_after: Option<usize>,
    /// Grant sizes offered when stalled (besides "unlimited")
    pub grant_menu: Vec<usize>,
    /// once stalled the transport never takes another byte (a dead peer): no grant is offered
    pub no_grants: bool,
    /// a stalled transport only ever opens by the amounts of `grant_menu` (a trickling peer)
    pub no_grant_all: bool,
    /// the transport stops taking writes from the moment the client has sealed its output
    /// (whatever sealed it - a close, a client exception - then sits in the buffer until a grant)
    pub stall_on_seal: bool,
    /// absolute offsets of the server->client stream at which a delivery always stops (the
    /// client reads up to there, meets would-block, and gets the rest with the next delivery):
    /// segmentation imposed on the default execution, at no deviation cost
    pub force_cuts: Vec<usize>,
    /// faults that may be injected at any scheduling point (each at most once)
    pub faults: Vec<FaultKind>,
    /// deliver exactly this many server bytes, then make the fault visible (crash-point sweep)
    /// every write call takes at most this many bytes (like a socket with a send buffer of that
    /// size and a fast peer: no would-block, but never everything at once)
    pub write_chunk: Option<usize>,
    pub crash_after_inbound: Option<(usize, FaultKind)>,
    /// the crash becomes visible together with the last byte before it (same read pass, no
    /// would-block in between) instead of as a separate event
    pub crash_with_last_byte: bool,
    /// the server's hanging up becomes visible together with the last byte it sent (same read
    /// pass) instead of as a separate event
    pub eof_with_last_byte: bool,
    /// how the server's hanging up (the broker's `eof`) shows on the client's side: "eof" (reads
    /// return 0; the default), "reset" (reads fail with ConnectionReset), "pipe" (writes fail with
    /// BrokenPipe, reads return 0), "reset+pipe"
    pub hangup: &'static str,
    /// fail the client's n-th write call (0-based)
    pub fail_write_call: Option<usize>,
    /// allow virtual time to advance at quiescence
    pub time: bool,
    /// stop advancing time beyond this (ns)
    pub horizon_ns: u64,
    /// maximum number of scheduling steps before the execution is abandoned (machinery error)
    pub max_steps: usize,
    /// fine mode: every message the I/O thread takes from a client queue and every message it
    /// sends to a client is a scheduling point of its own (an I/O-loop iteration is no longer
    /// atomic with respect to the clients)
    pub fine: bool,
}

impl Default for EnvConfig {
    fn default() -> Self {
        EnvConfig {
            deliver_cuts: false,
            deliver_cut_limit: 2,
            read_cuts: false,
            write_cuts: false,
            write_cut_limit: 3,
            stall_after: None,
            grant_menu: vec![],
            no_grants: false,
            no_grant_all: false,
            force_cuts: Vec::new(),
            stall_on_seal: false,
            faults: vec![],
            write_chunk: None,
            crash_after_inbound: None,
            crash_with_last_byte: false,
            hangup: "eof",
            eof_with_last_byte: false,
            fail_write_call: None,
            time: true,
            horizon_ns: 3_600_000_000_000,
            max_steps: 5000,
            fine: false,
        }
    }
}

struct Transport {
    set_readiness: Option<SetReadiness>,
    interest: Ready,
    readable: VecDeque<u8>,
    eof_readable: bool,
    read_err: bool,
    read_err_interrupted: bool,
    pending: VecDeque<u8>,
    pending_eof: bool,
    eof_delivered: bool,
    capacity: Option<usize>,
    accepted_total: usize,
    write_err: bool,
    write_calls: usize,
    wire: Vec<u8>,
    inbound_delivered: usize,
    inbound_all: Vec<u8>,
    dropped: bool,
    registered: bool,
    faults_used: Vec<FaultKind>,
    crash_done: bool,
    /// (virtual time ns, wire length) at each accepted write
    write_times: Vec<(u64, usize)>,
    read_times: Vec<(u64, usize)>,
}

struct ChanSt {
    channel_id: u16,
    bound: usize,
    occ: HashMap<u8, usize>,
    dropped: bool,
}

fn kind_ix(k: ChanKind) -> u8 {
    match k {
        ChanKind::Main => 0,
        ChanKind::Alloc => 1,
        ChanKind::Blocked => 2,
    }
}

#[derive(Clone, Debug, Default)]
pub struct Outcome {
    pub logs: BTreeMap<String, Vec<String>>,
    pub panics: Vec<String>,
    pub deadlock: Option<String>,
    pub stuck: bool,
    pub diverged: Option<String>,
    pub step_cap: bool,
    pub io_existed: bool,
    pub io_gone: bool,
    pub io_panicked: bool,
    pub transport_dropped: bool,
    pub wire: Vec<u8>,
    pub inbound: Vec<u8>,
    pub inbound_delivered: usize,
    pub io_events: Vec<IoEvent>,
    pub steps: usize,
    pub final_time_ns: u64,
    pub write_times: Vec<(u64, usize)>,
    pub read_times: Vec<(u64, usize)>,
    pub max_outbuf: usize,
    pub gate_outbufs: Vec<usize>,
    pub io_exit_time_ns: Option<u64>,
    /// a transport fault (EOF / read error / write error) was actually presented to the client
    pub fault_injected: bool,
    /// transport faults presented, in order
    pub faults_used: Vec<FaultKind>,
}

struct St {
    actors: Vec<Actor>,
    running: usize,
    prefix: Vec<usize>,
    expect_sigs: Vec<u64>,
    points: Vec<PointRec>,
    last_ran: Option<usize>,
    io_idle: bool,
    io_held: bool,
    seal_stall_done: bool,
    activity_since_idle: bool,
    sleepers: Vec<u64>,
    io_gate_time: u64,
    io_timeout: Option<Duration>,
    io_exit_panicking: bool,
    chans: HashMap<u64, ChanSt>,
    tr: Transport,
    broker: Box<dyn Broker>,
    cfg: EnvConfig,
    io_events: Vec<IoEvent>,
    finished: bool,
    deadlock: Option<String>,
    diverged: Option<String>,
    step_cap: bool,
    steps: usize,
    max_outbuf: usize,
    gate_outbufs: Vec<usize>,
    io_exit_time_ns: Option<u64>,
    record_labels: bool,
}

pub struct World {
    st: Mutex<St>,
    done: Condvar,
    /// client handles a scenario wants to outlive its session without running their `Drop`
    /// during it (a `Channel` closes itself when dropped): kept here and dropped by the explorer
    /// after the execution, once the I/O thread is gone. (`mem::forget` would leak the readiness
    /// pipe each handle keeps alive: two descriptors per execution.)
    graveyard: Mutex<Vec<Box<dyn std::any::Any + Send>>>,
}

fn hash_labels(kind: &PointKind, labels: &[String]) -> u64 {
    let mut h = std::collections::hash_map::DefaultHasher::new();
    (kind.clone() as u8 as u64).hash(&mut h);
    for l in labels {
        l.hash(&mut h);
    }
    h.finish()
}

impl PointKind {
    fn as_u8(&self) -> u8 {
        match self {
            PointKind::Sched => 0,
            PointKind::Read => 1,
            PointKind::Write => 2,
        }
    }
}

impl St {
    /// Draw the next decision among `labels.len()` alternatives.
    fn decide(&mut self, kind: PointKind, labels: Vec<String>) -> usize {
        let n = labels.len();
        let i = self.points.len();
        let mut h = std::collections::hash_map::DefaultHasher::new();
        kind.as_u8().hash(&mut h);
        for l in &labels {
            l.hash(&mut h);
        }
        let sig = h.finish();
        let chosen = if i < self.prefix.len() {
            if let Some(es) = self.expect_sigs.get(i) {
                if *es != sig && self.diverged.is_none() {
                    self.diverged = Some(format!("point {}: enabled set {:?} differs from the recorded one", i, labels));
                }
            }
            let c = self.prefix[i];
            if c >= n {
                if self.diverged.is_none() {
                    self.diverged = Some(format!("point {}: choice {} out of range ({} alternatives: {:?})", i, c, n, labels));
                }
                0
            } else {
                c
            }
        } else {
            0
        };
        self.points.push(PointRec { kind, n, chosen, sig, labels: if self.record_labels { labels } else { Vec::new() } });
        chosen
    }

    fn truthful_ready(&self) -> Ready {
        let mut r = Ready::empty();
        if !self.tr.readable.is_empty() || self.tr.eof_readable || self.tr.read_err {
            r |= Ready::readable();
        }
        if self.tr.capacity != Some(0) || self.tr.write_err {
            r |= Ready::writable();
        }
        r
    }

    fn raise(&mut self) {
        let r = self.truthful_ready();
        if let Some(sr) = &self.tr.set_readiness {
            let _ = sr.set_readiness(r);
        }
        self.io_idle = false;
    }

    fn chan_by_id(&mut self, channel_id: u16) -> Option<&mut ChanSt> {
        // the live (most recent, not dropped) slot with this id
        let mut best: Option<u64> = None;
        for (serial, c) in self.chans.iter() {
            if c.channel_id == channel_id && !c.dropped && best.map(|b| *serial > b).unwrap_or(true) {
                best = Some(*serial);
            }
        }
        best.and_then(move |s| self.chans.get_mut(&s))
    }

    fn io_gone(&self) -> bool {
        matches!(self.actors.get(IO).map(|a| &a.status), Some(Status::Finished))
    }

    fn io_exists(&self) -> bool {
        !self.actors[IO].name.is_empty()
    }

    fn actor_enabled(&self, i: usize) -> bool {
        let a = &self.actors[i];
        match &a.status {
            Status::Parked(w) => match w {
                Wait::Start => true,
                Wait::Gate => !self.io_idle && !self.io_held,
                Wait::Send { serial, kind } => {
                    if self.io_gone() {
                        return true;
                    }
                    match self.chans.get(serial) {
                        None => true,
                        Some(c) => {
                            let bound = if *kind == ChanKind::Main { c.bound } else { 1 };
                            c.dropped || c.occ.get(&kind_ix(*kind)).copied().unwrap_or(0) < bound
                        }
                    }
                }
                Wait::Recv(p, _) => unsafe { (*p.0)() },
                Wait::Join => self.io_gone() || !self.io_exists(),
                Wait::HJoin(t) => matches!(self.actors[*t].status, Status::Finished),
                Wait::ActorBlocked(t) => match &self.actors[*t].status {
                    Status::Finished => true,
                    Status::Parked(Wait::Start) => false,
                    Status::Parked(_) => !self.actor_enabled(*t),
                    Status::Running => false,
                },
                Wait::FineStep => true,
                Wait::IoQuiet => !self.io_exists() || self.io_gone() || (self.io_idle && !self.activity_since_idle && matches!(self.actors[IO].status, Status::Parked(Wait::Gate))),
            },
            _ => false,
        }
    }

    fn deliver_menu(&self) -> Vec<usize> {
        // cut menu over the pending server bytes: frame boundaries and +-1, +3, +7 after them
        let n = self.tr.pending.len();
        let mut cuts = std::collections::BTreeSet::new();
        if !self.cfg.deliver_cuts || n <= 1 {
            return vec![];
        }
        let bytes: Vec<u8> = self.tr.pending.iter().copied().collect();
        let (envs, _, _) = crate::wire::split_envelopes(&bytes);
        let mut off = 0usize;
        for e in envs.iter().take(4) {
            for d in [1usize, 3, 5, 7] {
                cuts.insert(off + d);
            }
            off += e.wire_len();
            cuts.insert(off.saturating_sub(1));
            cuts.insert(off);
        }
        let mut v: Vec<usize> = vec![n - 1, 1];
        for c in cuts {
            if c > 0 && c < n && !v.contains(&c) {
                v.push(c);
            }
        }
        v.truncate(self.cfg.deliver_cut_limit);
        v
    }

    fn choices(&self) -> Vec<Choice> {
        let mut v = Vec::new();
        let mut order: Vec<usize> = Vec::new();
        if let Some(l) = self.last_ran {
            order.push(l);
        }
        for i in 0..self.actors.len() {
            if Some(i) != self.last_ran {
                order.push(i);
            }
        }
        for i in order {
            if self.actor_enabled(i) {
                v.push(Choice::Actor(i));
            }
        }
        // environment
        if !self.tr.dropped && self.io_exists() && !self.io_gone() {
            let crash_pending = self.cfg.crash_after_inbound.as_ref().map(|(off, _)| self.tr.inbound_delivered >= *off).unwrap_or(false);
            if !self.tr.pending.is_empty() && !crash_pending {
                let n = self.tr.pending.len();
                let mut all = match &self.cfg.crash_after_inbound {
                    Some((off, _)) => n.min(off - self.tr.inbound_delivered),
                    None => n,
                };
                if let Some(c) = self.cfg.force_cuts.iter().filter(|c| **c > self.tr.inbound_delivered).min() {
                    all = all.min(c - self.tr.inbound_delivered);
                }
                v.push(Choice::Env(EnvAction::Deliver(all), format!("deliver({})", all)));
                for c in self.deliver_menu() {
                    if c < all {
                        v.push(Choice::Env(EnvAction::Deliver(c), format!("deliver({})", c)));
                    }
                }
            } else if self.tr.pending.is_empty() && self.tr.pending_eof && !self.tr.eof_delivered && !crash_pending {
                v.push(Choice::Env(EnvAction::Eof, "eof".into()));
            }
            if let Some((off, kind)) = &self.cfg.crash_after_inbound {
                if self.tr.inbound_delivered >= *off && !self.tr.crash_done {
                    v.push(Choice::Env(EnvAction::Fault(kind.clone()), format!("crash({:?})", kind)));
                }
            }
            if self.tr.capacity == Some(0) && !self.cfg.no_grants {
                if !self.cfg.no_grant_all || self.cfg.grant_menu.is_empty() {
                    v.push(Choice::Env(EnvAction::Grant(usize::MAX), "grant(all)".into()));
                }
                for g in &self.cfg.grant_menu {
                    v.push(Choice::Env(EnvAction::Grant(*g), format!("grant({})", g)));
                }
            }
            for (i, label) in self.broker.actions().into_iter().enumerate() {
                v.push(Choice::Env(EnvAction::Broker(i), format!("broker:{}", label)));
            }
            for f in &self.cfg.faults {
                if !self.tr.faults_used.contains(f) {
                    v.push(Choice::Env(EnvAction::Fault(f.clone()), format!("fault({:?})", f)));
                }
            }
        }
        // a configured crash point beyond what the server ever sends: crash at the end of
        // the stream, once nothing else can happen
        if v.is_empty() && !self.tr.dropped && self.io_exists() && !self.io_gone() {
            if let Some((_, kind)) = &self.cfg.crash_after_inbound {
                if !self.tr.crash_done && self.tr.pending.is_empty() {
                    v.push(Choice::Env(EnvAction::Fault(kind.clone()), format!("crash-at-end({:?})", kind)));
                }
            }
        }
        // time only moves at quiescence (nothing else can happen)
        let someone_waiting = self.actors.iter().skip(1).any(|a| !matches!(a.status, Status::Finished));
        if v.is_empty() && self.cfg.time && someone_waiting {
            if self.next_time().is_some() {
                v.push(Choice::Env(EnvAction::Tick, "tick".into()));
            }
        }
        v
    }

    fn next_time(&self) -> Option<u64> {
        let now = verif::clock::now_ns();
        let mut best: Option<u64> = if self.io_exists() && !self.io_gone() { verif::clock::next_deadline_after_now_ns() } else { None };
        for s in &self.sleepers {
            if *s > now {
                best = Some(best.map(|b| b.min(*s)).unwrap_or(*s));
            }
        }
        if self.io_exists() && !self.io_gone() {
            if let Some(t) = self.broker.next_time_ns() {
                let t = t.max(now);
                best = Some(best.map(|b| b.min(t)).unwrap_or(t));
            }
        }
        if let (Some(t), true) = (self.io_timeout, self.io_exists() && matches!(self.actors[IO].status, Status::Parked(Wait::Gate))) {
            let d = self.io_gate_time.saturating_add(t.as_nanos() as u64).saturating_add(1);
            best = Some(best.map(|b| b.min(d)).unwrap_or(d));
        }
        best.filter(|t| *t <= self.cfg.horizon_ns)
    }

    fn label(&self, c: &Choice) -> String {
        match c {
            Choice::Actor(i) => {
                let a = &self.actors[*i];
                let w = match &a.status {
                    Status::Parked(Wait::Start) => "start".to_string(),
                    Status::Parked(Wait::Gate) => "poll".to_string(),
                    Status::Parked(Wait::Send { kind, .. }) => format!("send{:?}", kind),
                    Status::Parked(Wait::Recv(_, what)) => format!("recv:{}", what),
                    Status::Parked(Wait::Join) => "join-io".to_string(),
                    Status::Parked(Wait::HJoin(t)) => format!("join:{}", self.actors[*t].name),
                    Status::Parked(Wait::ActorBlocked(t)) => format!("until-blocked:{}", self.actors[*t].name),
                    Status::Parked(Wait::IoQuiet) => "until-io-quiet".to_string(),
                    Status::Parked(Wait::FineStep) => "step".to_string(),
                    _ => "?".to_string(),
                };
                format!("{}:{}", a.name, w)
            }
            Choice::Env(_, l) => l.clone(),
        }
    }

    fn apply_env(&mut self, a: EnvAction) {
        match a {
            EnvAction::Deliver(k) => {
                let k = k.min(self.tr.pending.len());
                for _ in 0..k {
                    let b = self.tr.pending.pop_front().unwrap();
                    self.tr.readable.push_back(b);
                }
                self.tr.inbound_delivered += k;
                if self.cfg.eof_with_last_byte && k > 0 && self.tr.pending.is_empty() && self.tr.pending_eof && !self.tr.eof_delivered {
                    self.apply_env(EnvAction::Eof);
                    return;
                }
                if self.cfg.crash_with_last_byte && k > 0 && !self.tr.crash_done {
                    if let Some((off, kind)) = self.cfg.crash_after_inbound.clone() {
                        if self.tr.inbound_delivered >= off {
                            self.apply_env(EnvAction::Fault(kind));
                            return;
                        }
                    }
                }
                self.raise();
            }
            EnvAction::Eof => {
                self.tr.eof_delivered = true;
                match self.cfg.hangup {
                    "reset" => self.tr.read_err = true,
                    "pipe" => {
                        self.tr.eof_readable = true;
                        self.tr.write_err = true;
                    }
                    "reset+pipe" => {
                        self.tr.read_err = true;
                        self.tr.write_err = true;
                    }
                    _ => self.tr.eof_readable = true,
                }
                self.raise();
            }
            EnvAction::Grant(k) => {
                self.tr.capacity = if k == usize::MAX { None } else { Some(k) };
                self.raise();
            }
            EnvAction::Tick => {
                if let Some(t) = self.next_time() {
                    verif::clock::advance_to(t);
                    // a timer that became due raised its readiness itself; a poll timeout
                    // simply lets the I/O thread run again
                    self.io_idle = false;
                    let mut out = BrokerOut::default();
                    self.broker.on_time(t, &mut out);
                    if !out.bytes.is_empty() || out.eof {
                        // what the server sends on its own arrives at once
                        self.absorb(out);
                        let n = self.tr.pending.len();
                        self.apply_env(EnvAction::Deliver(n));
                    }
                }
            }
            EnvAction::Broker(i) => {
                let mut out = BrokerOut::default();
                self.broker.apply(i, &mut out);
                self.absorb(out);
            }
            EnvAction::Fault(f) => {
                self.tr.faults_used.push(f.clone());
                self.tr.crash_done = true;
                match f {
                    FaultKind::ReadEof => {
                        self.tr.eof_readable = true;
                        self.tr.eof_delivered = true;
                    }
                    FaultKind::ReadErr => self.tr.read_err = true,
                    FaultKind::ReadErrInterrupted => {
                        self.tr.read_err = true;
                        self.tr.read_err_interrupted = true;
                    }
                    FaultKind::WriteErr => self.tr.write_err = true,
                }
                self.raise();
            }
        }
    }

    fn absorb(&mut self, out: BrokerOut) {
        self.tr.inbound_all.extend_from_slice(&out.bytes);
        self.tr.pending.extend(out.bytes);
        if out.eof {
            self.tr.pending_eof = true;
        }
    }

    /// Called with running == 0: pick who goes next (possibly after environment actions).
    fn schedule(&mut self, world: &World) {
        loop {
            if self.finished {
                return;
            }
            self.steps += 1;
            if self.steps > self.cfg.max_steps {
                self.step_cap = true;
                self.finish(world);
                return;
            }
            let mut choices = self.choices();
            if choices.is_empty() && self.io_idle && !self.io_held && self.activity_since_idle && matches!(self.actors[IO].status, Status::Parked(Wait::Gate)) {
                // a client ran since the last empty poll (it may have dropped a sender):
                // let the I/O thread poll once more before concluding anything
                self.io_idle = false;
                self.activity_since_idle = false;
                choices = self.choices();
            }
            if choices.is_empty() {
                let clients_done = self.actors.iter().skip(1).all(|a| matches!(a.status, Status::Finished));
                let io_ok = !self.io_exists() || self.io_gone() || matches!(self.actors[IO].status, Status::Parked(Wait::Gate));
                if !(clients_done && io_ok) {
                    let who: Vec<String> = self
                        .actors
                        .iter()
                        .enumerate()
                        .filter(|(_, a)| matches!(a.status, Status::Parked(_)))
                        .map(|(i, _)| self.label(&Choice::Actor(i)))
                        .collect();
                    self.deadlock = Some(format!("nobody can run; waiting: {:?}", who));
                }
                self.finish(world);
                return;
            }
            let labels: Vec<String> = choices.iter().map(|c| self.label(c)).collect();
            let idx = self.decide(PointKind::Sched, labels);
            match choices[idx].clone() {
                Choice::Actor(i) => {
                    self.last_ran = Some(i);
                    let a = &mut self.actors[i];
                    a.status = Status::Running;
                    a.granted = true;
                    self.running += 1;
                    a.cv.notify_all();
                    return;
                }
                Choice::Env(a, _) => {
                    self.apply_env(a);
                }
            }
        }
    }

    fn finish(&mut self, world: &World) {
        self.finished = true;
        world.done.notify_all();
    }
}

impl World {
    pub fn new(prefix: Vec<usize>, expect_sigs: Vec<u64>, broker: Box<dyn Broker>, cfg: EnvConfig, record_labels: bool) -> Arc<World> {
        let io = Actor { name: String::new(), status: Status::Finished, granted: false, cv: Arc::new(Condvar::new()), log: Vec::new(), panicked: None };
        let capacity = cfg.stall_after.and_then(|n| if n == 0 { Some(0) } else { Some(n) });
        Arc::new(World {
            st: Mutex::new(St {
                actors: vec![io],
                running: 0,
                prefix,
                expect_sigs,
                points: Vec::new(),
                last_ran: None,
                io_idle: false,
                io_held: false,
                seal_stall_done: false,
                activity_since_idle: false,
                sleepers: Vec::new(),
                io_gate_time: 0,
                io_timeout: None,
                io_exit_panicking: false,
                chans: HashMap::new(),
                tr: Transport {
                    set_readiness: None,
                    interest: Ready::empty(),
                    readable: VecDeque::new(),
                    eof_readable: false,
                    read_err: false,
                    read_err_interrupted: false,
                    pending: VecDeque::new(),
                    pending_eof: false,
                    eof_delivered: false,
                    capacity,
                    accepted_total: 0,
                    write_err: false,
                    write_calls: 0,
                    wire: Vec::new(),
                    inbound_delivered: 0,
                    inbound_all: Vec::new(),
                    dropped: false,
                    registered: false,
                    faults_used: Vec::new(),
                    crash_done: false,
                    write_times: Vec::new(),
                    read_times: Vec::new(),
                },
                broker,
                cfg,
                io_events: Vec::new(),
                finished: false,
                deadlock: None,
                diverged: None,
                step_cap: false,
                steps: 0,
                max_outbuf: 0,
                gate_outbufs: Vec::new(),
                io_exit_time_ns: None,
                record_labels,
            }),
            done: Condvar::new(),
            graveyard: Mutex::new(Vec::new()),
        })
    }

    fn lock(&self) -> MutexGuard<'_, St> {
        self.st.lock().unwrap_or_else(|e| e.into_inner())
    }

    fn me() -> usize {
        ACTOR.with(|a| a.get()).unwrap_or(IO)
    }

    /// Park the calling actor until the scheduler grants it.
    fn park(&self, me: usize, wait: Wait) {
        let mut st = self.lock();
        if st.finished {
            // execution abandoned (deadlock elsewhere / cap): stay parked forever
            drop(st);
            loop {
                std::thread::park();
            }
        }
        st.actors[me].status = Status::Parked(wait);
        if me != IO {
            st.activity_since_idle = true;
        }
        st.running -= 1;
        if st.running == 0 {
            st.schedule(self);
        }
        let cv = st.actors[me].cv.clone();
        while !st.actors[me].granted {
            if st.finished {
                drop(st);
                loop {
                    std::thread::park();
                }
            }
            st = cv.wait(st).unwrap_or_else(|e| e.into_inner());
        }
        st.actors[me].granted = false;
    }

    fn actor_finished(&self, me: usize, panicked: Option<String>) {
        let mut st = self.lock();
        st.actors[me].status = Status::Finished;
        if panicked.is_some() {
            st.actors[me].panicked = panicked;
        }
        if st.finished {
            return;
        }
        if me != IO {
            st.activity_since_idle = true;
        }
        st.running -= 1;
        if st.running == 0 {
            st.schedule(self);
        }
    }

    // ---- harness-side API -----------------------------------------------------------

    pub fn register_actor(&self, name: &str) -> usize {
        let mut st = self.lock();
        st.actors.push(Actor { name: name.to_string(), status: Status::Running, granted: false, cv: Arc::new(Condvar::new()), log: Vec::new(), panicked: None });
        st.running += 1;
        st.actors.len() - 1
    }

    /// Body of every client actor thread.
    pub fn actor_main<F: FnOnce()>(self: &Arc<Self>, id: usize, f: F) {
        ACTOR.with(|a| a.set(Some(id)));
        self.park(id, Wait::Start);
        let r = std::panic::catch_unwind(std::panic::AssertUnwindSafe(f));
        let p = r.err().map(|e| {
            if let Some(s) = e.downcast_ref::<&str>() {
                s.to_string()
            } else if let Some(s) = e.downcast_ref::<String>() {
                s.clone()
            } else {
                "panic".to_string()
            }
        });
        self.actor_finished(id, p);
    }

    pub fn log(&self, line: String) {
        let me = Self::me();
        let mut st = self.lock();
        st.actors[me].log.push(line);
    }

    /// Sleep until the virtual clock reaches `t_ns`.
    pub fn sleep_until(&self, t_ns: u64) {
        {
            let mut st = self.lock();
            st.sleepers.push(t_ns);
        }
        let ready = move || verif::clock::now_ns() >= t_ns;
        self.wait_until(&format!("sleep{}", t_ns / 1_000_000), &ready);
    }

    /// Batch driver: while held the I/O thread is never scheduled, so that events pile up
    /// for a single poll.
    /// Batch driver: the stalled transport takes writes again (and says so), now.
    pub fn force_grant(&self) {
        let mut st = self.lock();
        st.tr.capacity = None;
        st.raise();
    }

    /// (the I/O thread has ended or never existed, the transport object has been dropped), now
    pub fn released(&self) -> (bool, bool) {
        let st = self.lock();
        (!st.io_exists() || st.io_gone(), st.tr.dropped || !st.io_exists())
    }

    pub fn hold_io(&self, held: bool) {
        let mut st = self.lock();
        st.io_held = held;
    }

    pub fn wait_actor_blocked(&self, target: usize) {
        self.park(Self::me(), Wait::ActorBlocked(target));
    }

    pub fn wait_io_quiet(&self) {
        self.park(Self::me(), Wait::IoQuiet);
    }

    /// Id of the calling actor.
    pub fn current_actor(&self) -> usize {
        Self::me()
    }

    /// Batch driver: let the broker perform the push with this label now and make its
    /// bytes readable at once. Returns false if no such push is currently offered.
    pub fn force_push(&self, label: &str) -> bool {
        let mut st = self.lock();
        let mut out = BrokerOut::default();
        if !st.broker.force(label, &mut out) {
            return false;
        }
        st.absorb(out);
        let n = st.tr.pending.len();
        st.apply_env(EnvAction::Deliver(n));
        true
    }

    pub fn wait_actor(&self, target: usize) {
        self.park(Self::me(), Wait::HJoin(target));
    }

    /// Block (under the scheduler) until `ready()`; used for harness-level receives.
    pub fn wait_until(&self, what: &str, ready: &(dyn Fn() -> bool + Sync)) {
        let p: *const ProbeFn = unsafe { std::mem::transmute::<&(dyn Fn() -> bool + Sync), &'static ProbeFn>(ready) };
        self.park(Self::me(), Wait::Recv(ProbePtr(p), what.to_string()));
    }

    /// Start scheduling (called by the main thread after the root actor thread was created)
    /// and wait for the execution to complete.
    pub fn run_to_completion(&self, watchdog: Duration) -> bool {
        // the watchdog measures the time without progress (no scheduling step), not the length of
        // the execution: a long execution on a busy machine is not a hang
        let mut st = self.lock();
        let mut deadline = std::time::Instant::now() + watchdog;
        let mut seen_steps = st.steps;
        while !st.finished {
            let now = std::time::Instant::now();
            if st.steps != seen_steps {
                seen_steps = st.steps;
                deadline = now + watchdog;
            }
            if now >= deadline {
                st.finished = true;
                return false;
            }
            let slice = (deadline - now).min(Duration::from_secs(1));
            let (g, _) = self.done.wait_timeout(st, slice).unwrap_or_else(|e| e.into_inner());
            st = g;
        }
        true
    }

    pub fn outcome(&self, stuck: bool) -> (Vec<PointRec>, Outcome) {
        let st = self.lock();
        let mut o = Outcome::default();
        for a in st.actors.iter().skip(1) {
            o.logs.insert(a.name.clone(), a.log.clone());
            if let Some(p) = &a.panicked {
                o.panics.push(format!("{}: {}", a.name, p));
            }
        }
        o.deadlock = st.deadlock.clone();
        o.stuck = stuck;
        o.diverged = st.diverged.clone();
        o.step_cap = st.step_cap;
        o.io_existed = st.io_exists();
        o.io_gone = st.io_exists() && st.io_gone();
        o.io_panicked = st.io_exit_panicking;
        o.transport_dropped = st.tr.dropped;
        o.wire = st.tr.wire.clone();
        o.inbound = st.tr.inbound_all.clone();
        o.inbound_delivered = st.tr.inbound_delivered;
        o.io_events = st.io_events.clone();
        o.steps = st.steps;
        o.final_time_ns = verif::clock::now_ns();
        o.write_times = st.tr.write_times.clone();
        o.read_times = st.tr.read_times.clone();
        o.max_outbuf = st.max_outbuf;
        o.gate_outbufs = st.gate_outbufs.clone();
        o.io_exit_time_ns = st.io_exit_time_ns;
        o.fault_injected = st.tr.crash_done || st.tr.write_err;
        o.faults_used = st.tr.faults_used.clone();
        (st.points.clone(), o)
    }

    // ---- transport (called from the I/O thread through MockStream) ------------------------

    pub fn tr_register(&self, set_readiness: Option<SetReadiness>, interest: Ready) {
        let mut st = self.lock();
        if let Some(sr) = set_readiness {
            st.tr.set_readiness = Some(sr);
        }
        st.tr.interest = interest;
        st.tr.registered = true;
        // like epoll_ctl: current readiness is reported against the new interest
        let r = st.truthful_ready();
        if let Some(sr) = &st.tr.set_readiness {
            let _ = sr.set_readiness(r);
        }
        if !(r & interest).is_empty() {
            st.io_idle = false;
        }
    }

    pub fn tr_pre_reregister(&self) {
        let st = self.lock();
        let r = st.truthful_ready();
        if let Some(sr) = &st.tr.set_readiness {
            let _ = sr.set_readiness(r);
        }
    }

    pub fn keep<T: Send + 'static>(&self, x: T) {
        self.graveyard.lock().unwrap_or_else(|e| e.into_inner()).push(Box::new(x));
    }

    /// Drop what `keep` collected. Only safe once the I/O thread is gone (a handle's `Drop` then
    /// fails fast instead of waiting for a reply); otherwise the handles are leaked.
    pub fn bury(&self, io_thread_gone: bool) {
        let v = std::mem::take(&mut *self.graveyard.lock().unwrap_or_else(|e| e.into_inner()));
        if io_thread_gone {
            drop(v);
        } else {
            std::mem::forget(v);
        }
    }

    /// The transport stops accepting writes from now on (until a grant, if grants are offered).
    pub fn stall_transport(&self) {
        let mut st = self.lock();
        st.tr.capacity = Some(0);
    }

    pub fn tr_dropped(&self) {
        let mut st = self.lock();
        st.tr.dropped = true;
    }

    pub fn tr_read(&self, buf: &mut [u8]) -> io::Result<usize> {
        let mut st = self.lock();
        if st.tr.readable.is_empty() {
            if st.tr.read_err {
                // Interrupted is answered once; a client that retries the read (the std::io::Read
                // convention) then meets the lasting error, one that gives up at once is done
                let kind = if st.tr.read_err_interrupted { io::ErrorKind::Interrupted } else { io::ErrorKind::ConnectionReset };
                st.tr.read_err_interrupted = false;
                return Err(io::Error::new(kind, "injected read error"));
            }
            if st.tr.eof_readable {
                return Ok(0);
            }
            return Err(io::ErrorKind::WouldBlock.into());
        }
        let avail = st.tr.readable.len().min(buf.len());
        let mut n = avail;
        if st.cfg.read_cuts && avail > 1 {
            let mut menu = vec![avail];
            for c in [1usize, 7, avail / 2, avail - 1] {
                if c > 0 && c < avail && !menu.contains(&c) {
                    menu.push(c);
                }
            }
            let labels: Vec<String> = menu.iter().map(|m| format!("read({})", m)).collect();
            let i = st.decide(PointKind::Read, labels);
            n = menu[i];
        }
        for b in buf.iter_mut().take(n) {
            *b = st.tr.readable.pop_front().unwrap();
        }
        let t = verif::clock::now_ns();
        let total = st.tr.inbound_delivered - st.tr.readable.len();
        st.tr.read_times.push((t, total));
        Ok(n)
    }

    pub fn tr_write(&self, buf: &[u8]) -> io::Result<usize> {
        let mut st = self.lock();
        let call = st.tr.write_calls;
        st.tr.write_calls += 1;
        if st.tr.write_err || st.cfg.fail_write_call == Some(call) {
            st.tr.write_err = true;
            return Err(io::Error::new(io::ErrorKind::BrokenPipe, "injected write error"));
        }
        if buf.is_empty() {
            return Ok(0);
        }
        let mut n = match st.tr.capacity {
            Some(0) => return Err(io::ErrorKind::WouldBlock.into()),
            Some(c) => buf.len().min(c),
            None => buf.len(),
        };
        if let Some(chunk) = st.cfg.write_chunk {
            n = n.min(chunk.max(1));
        }
        if st.cfg.write_cuts && st.tr.capacity.is_none() && buf.len() > 1 {
            let mut menu = vec![buf.len()];
            for c in [1usize, buf.len() - 1, 8, 3, 7, buf.len() / 2] {
                if c > 0 && c < buf.len() && !menu.contains(&c) && menu.len() <= st.cfg.write_cut_limit {
                    menu.push(c);
                }
            }
            let labels: Vec<String> = menu.iter().map(|m| format!("accept({})", m)).collect();
            let i = st.decide(PointKind::Write, labels);
            if i > 0 {
                n = menu[i];
                st.tr.capacity = Some(n); // then stalled until a grant
            }
        }
        if let Some(c) = st.tr.capacity {
            st.tr.capacity = Some(c - n);
        }
        st.tr.accepted_total += n;
        st.tr.wire.extend_from_slice(&buf[..n]);
        let t = verif::clock::now_ns();
        let wl = st.tr.wire.len();
        st.tr.write_times.push((t, wl));
        st.io_events.push(IoEvent::Wrote(wl));
        let mut out = BrokerOut::default();
        st.broker.on_client_bytes(&buf[..n], &mut out);
        st.absorb(out);
        Ok(n)
    }

    pub fn with_broker<R>(&self, f: impl FnOnce(&mut dyn Broker) -> R) -> R {
        let mut st = self.lock();
        f(st.broker.as_mut())
    }
}

impl Controller for World {
    fn point(&self, p: Point<'_>) {
        match p {
            Point::IoSpawn => {
                let mut st = self.lock();
                st.actors[IO].name = "io".to_string();
                st.actors[IO].status = Status::Running;
                st.running += 1;
            }
            Point::IoStart => {
                ACTOR.with(|a| a.set(Some(IO)));
            }
            Point::IoGate { outbuf_len, sealed, n_slots, timeout } => {
                {
                    let mut st = self.lock();
                    st.io_events.push(IoEvent::Gate { outbuf_len, sealed, n_slots });
                    st.max_outbuf = st.max_outbuf.max(outbuf_len);
                    st.gate_outbufs.push(outbuf_len);
                    st.io_timeout = timeout;
                    st.io_gate_time = verif::clock::now_ns();
                    if st.cfg.stall_on_seal && sealed && !st.seal_stall_done {
                        st.seal_stall_done = true;
                        st.tr.capacity = Some(0);
                    }
                }
                self.park(IO, Wait::Gate);
            }
            Point::IoPolled { n_events } => {
                let mut st = self.lock();
                st.io_events.push(IoEvent::Polled(n_events));
                st.io_idle = n_events == 0;
                if n_events == 0 {
                    st.activity_since_idle = false;
                }
            }
            Point::IoRecv { chan, msg } => {
                let mut st = self.lock();
                st.io_events.push(IoEvent::Recv { channel_id: chan.channel_id, kind: chan.kind, msg });
                let k = kind_ix(chan.kind);
                let c = if chan.serial != 0 { st.chans.get_mut(&chan.serial) } else { st.chan_by_id(chan.channel_id) };
                if let Some(c) = c {
                    let e = c.occ.entry(k).or_insert(0);
                    *e = e.saturating_sub(1);
                }
                let fine = st.cfg.fine;
                drop(st);
                if fine {
                    self.park(IO, Wait::FineStep);
                }
            }
            Point::IoFrame(f) => {
                let mut st = self.lock();
                st.io_events.push(IoEvent::Frame(f.clone()));
            }
            Point::IoToClient(t) => {
                let fine = {
                    let mut st = self.lock();
                    st.io_events.push(IoEvent::ToClient(t));
                    st.cfg.fine
                };
                if fine {
                    self.park(IO, Wait::FineStep);
                }
            }
            Point::IoExit { panicking } => {
                let mut st = self.lock();
                st.io_exit_panicking = panicking;
                st.io_exit_time_ns = Some(verif::clock::now_ns());
                st.io_events.push(IoEvent::Exit { panicking });
            }
            Point::IoGone => {
                self.actor_finished(IO, None);
            }
            Point::SlotNew { serial, channel_id, bound } => {
                let mut st = self.lock();
                st.chans.insert(serial, ChanSt { channel_id, bound, occ: HashMap::new(), dropped: false });
            }
            Point::SlotDropped { serial, .. } => {
                let mut st = self.lock();
                if let Some(c) = st.chans.get_mut(&serial) {
                    c.dropped = true;
                }
            }
            Point::BeforeSend { chan } => {
                let me = Self::me();
                self.park(me, Wait::Send { serial: chan.serial, kind: chan.kind });
                let mut st = self.lock();
                if let Some(c) = st.chans.get_mut(&chan.serial) {
                    if !c.dropped {
                        *c.occ.entry(kind_ix(chan.kind)).or_insert(0) += 1;
                    }
                }
                // the send that follows makes the queue readable for the I/O thread
                st.io_idle = false;
            }
            Point::BeforeRecv { what, ready } => {
                let me = Self::me();
                let p: *const ProbeFn = unsafe { std::mem::transmute::<&(dyn Fn() -> bool + Sync), &'static ProbeFn>(ready) };
                let label = match what {
                    RecvKind::Reply(_, ch) => format!("reply{}", ch),
                    RecvKind::AllocReply => "alloc".to_string(),
                    RecvKind::HandshakeDone => "handshake".to_string(),
                };
                self.park(me, Wait::Recv(ProbePtr(p), label));
            }
            Point::BeforeJoin => {
                let me = Self::me();
                self.park(me, Wait::Join);
            }
        }
    }
}
