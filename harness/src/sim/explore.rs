//! Stateless, deviation-bounded exhaustive exploration of decision sequences.
use super::broker::Broker;
use super::transport::MockStream;
use super::world::{EnvConfig, Outcome, PointKind, PointRec, World};
#[allow(unused_imports)]
use std::io::Write as _;
use crate::wire::{split_envelopes, PROTOCOL_HEADER};
use amiquip::verif;
use crossbeam_channel::{Receiver, RecvError};
use serde_json::{json, Value};
use std::collections::{BTreeMap, HashSet};
use std::hash::{Hash, Hasher};
use std::sync::Arc;
use std::time::{Duration, Instant};

#[derive(Clone)]
pub struct Ctx {
    pub world: Arc<World>,
    /// free-running mode (loopback TCP conformance runs): no controller, real blocking
    pub free: Option<Arc<FreeWorld>>,
}

/// State of a free-running execution over a real socket.
pub struct FreeWorld {
    pub addr: std::net::SocketAddr,
    pub logs: std::sync::Mutex<BTreeMap<String, Vec<String>>>,
    handles: std::sync::Mutex<Vec<Option<std::thread::JoinHandle<()>>>>,
}

thread_local! {
    static FREE_NAME: std::cell::RefCell<String> = std::cell::RefCell::new("main".to_string());
}

impl Ctx {
    pub fn stream(&self) -> MockStream {
        MockStream::new(self.world.clone())
    }

    /// Address of the loopback broker in free-running mode.
    pub fn tcp_addr(&self) -> Option<std::net::SocketAddr> {
        self.free.as_ref().map(|f| f.addr)
    }

    pub fn spawn<F: FnOnce(Ctx) + Send + 'static>(&self, name: &str, f: F) -> usize {
        if let Some(free) = &self.free {
            let ctx = self.clone();
            let n = name.to_string();
            let h = std::thread::Builder::new()
                .name(format!("actor-{}", name))
                .spawn(move || {
                    FREE_NAME.with(|x| *x.borrow_mut() = n);
                    f(ctx)
                })
                .expect("spawn");
            let mut hs = free.handles.lock().unwrap();
            hs.push(Some(h));
            return hs.len() - 1;
        }
        let id = self.world.register_actor(name);
        let w = self.world.clone();
        let ctx = Ctx { world: self.world.clone(), free: None };
        std::thread::Builder::new()
            .name(format!("actor-{}", name))
            .spawn(move || {
                let w2 = w.clone();
                w2.actor_main(id, move || f(ctx));
            })
            .expect("spawn actor");
        id
    }

    pub fn join(&self, id: usize) {
        if let Some(free) = &self.free {
            let h = free.handles.lock().unwrap()[id].take();
            if let Some(h) = h {
                let _ = h.join();
            }
            return;
        }
        self.world.wait_actor(id);
    }

    /// Blocking receive on a crossbeam receiver (consumer queues, listeners) under the
    /// scheduler.
    pub fn recv<T: Send>(&self, what: &str, rx: &Receiver<T>) -> Result<T, RecvError> {
        if self.free.is_some() {
            return rx.recv();
        }
        let ready = || verif::recv_ready(rx);
        self.world.wait_until(what, &ready);
        rx.recv()
    }

    pub fn hold_io(&self, held: bool) {
        self.world.hold_io(held);
    }

    pub fn wait_blocked(&self, actor: usize) {
        self.world.wait_actor_blocked(actor);
    }

    pub fn wait_io_quiet(&self) {
        self.world.wait_io_quiet();
    }

    /// Id of the calling actor (0 in free-running mode, where nobody waits on ids).
    pub fn me(&self) -> usize {
        if self.free.is_some() {
            return 0;
        }
        self.world.current_actor()
    }

    /// Keep a client handle alive beyond the session without running its `Drop` now (see
    /// `World::keep`); in free-running mode it is simply leaked.
    pub fn forget<T: Send + 'static>(&self, x: T) {
        if self.free.is_some() {
            std::mem::forget(x);
            return;
        }
        self.world.keep(x);
    }

    /// "io=<I/O thread gone> transport=<transport dropped>" at this moment (C05's last clause is
    /// about the moment close or drop returns, not about the end of the session)
    pub fn released(&self) -> String {
        if self.free.is_some() {
            return "io=true transport=true".into();
        }
        let (a, b) = self.world.released();
        format!("io={} transport={}", a, b)
    }

    pub fn stall_transport(&self) {
        self.world.stall_transport();
    }

    pub fn force_grant(&self) {
        self.world.force_grant();
    }

    pub fn force_push(&self, label: &str) -> bool {
        self.world.force_push(label)
    }

    pub fn log<S: Into<String>>(&self, s: S) {
        if let Some(free) = &self.free {
            let name = FREE_NAME.with(|x| x.borrow().clone());
            free.logs.lock().unwrap().entry(name).or_default().push(s.into());
            return;
        }
        self.world.log(s.into());
    }

    pub fn sleep_ms(&self, ms: u64) {
        if self.free.is_some() {
            std::thread::sleep(Duration::from_millis(ms));
            return;
        }
        let t = verif::clock::now_ns() + ms * 1_000_000;
        self.world.sleep_until(t);
    }

    pub fn now_ms(&self) -> u64 {
        verif::clock::now_ns() / 1_000_000
    }
}

pub struct Built {
    pub broker: Box<dyn Broker>,
    pub cfg: EnvConfig,
    pub root: Box<dyn FnOnce(Ctx) + Send>,
}

pub trait Scenario: Sync {
    fn name(&self) -> &'static str;
    fn property(&self) -> &'static str;
    /// Parameter sets enumerated by the outer loop.
    fn variants(&self, tier: &str) -> Vec<Value>;
    /// Deviation bound for this tier.
    fn bound(&self, tier: &str, params: &Value) -> usize;
    fn build(&self, params: &Value) -> Built;
    /// Scenario oracle: violations as (key, detail).
    fn check(&self, params: &Value, o: &Outcome, world: &World) -> Vec<(String, String)>;
    fn describe(&self) -> String;
}

pub struct Run {
    pub points: Vec<PointRec>,
    pub outcome: Outcome,
    pub violations: Vec<(String, String)>,
    pub machinery: Option<String>,
}

pub fn install_quiet_panic_hook() {
    std::panic::set_hook(Box::new(|_| {}));
}

pub fn run_once(scn: &dyn Scenario, params: &Value, prefix: &[usize], sigs: &[u64], labels: bool) -> Run {
    verif::clock::set_virtual(true);
    let built = scn.build(params);
    let world = World::new(prefix.to_vec(), sigs.to_vec(), built.broker, built.cfg, labels);
    verif::install(Some(world.clone()));
    let ctx = Ctx { world: world.clone(), free: None };
    let root = built.root;
    ctx.spawn("main", move |c| root(c));
    let ok = world.run_to_completion(Duration::from_secs(30));
    verif::install(None);
    let (points, outcome) = world.outcome(!ok);
    world.bury(ok && (outcome.io_gone || !outcome.io_existed) && outcome.deadlock.is_none());
    let mut machinery = None;
    if let Some(d) = &outcome.diverged {
        machinery = Some(format!("replay diverged: {}", d));
    } else if outcome.step_cap {
        machinery = Some("step horizon reached".to_string());
    }
    let mut violations = generic_checks(&outcome);
    if machinery.is_none() {
        violations.extend(scn.check(params, &outcome, &world));
    }
    Run { points, outcome, violations, machinery }
}

/// Checks applied to every execution of every scenario.
pub fn generic_checks(o: &Outcome) -> Vec<(String, String)> {
    let mut v = Vec::new();
    for p in &o.panics {
        v.push(("panic:actor".to_string(), format!("an actor panicked: {}", p)));
    }
    if o.io_panicked {
        v.push(("panic:io-thread".to_string(), "the I/O thread panicked".to_string()));
    }
    if let Some(d) = &o.deadlock {
        v.push(("deadlock".to_string(), d.clone()));
    }
    if o.stuck {
        v.push(("hang:watchdog".to_string(), "execution did not complete within the wall-clock watchdog (a thread is blocked or spinning outside every hook point)".to_string()));
    }
    // outbound stream: protocol header + whole frames (a prefix if the transport failed)
    if !o.wire.is_empty() {
        let n = o.wire.len().min(8);
        if o.wire[..n] != PROTOCOL_HEADER[..n] {
            v.push(("wire:bad-protocol-header".to_string(), format!("stream starts with {:?}", &o.wire[..n])));
        } else if o.wire.len() > 8 {
            let (envs, _, err) = split_envelopes(&o.wire[8..]);
            if let Some(e) = err {
                v.push(("wire:not-whole-frames".to_string(), e));
            }
            // each frame well formed: methods consume their payload exactly under the spec's
            // field layout (walker independent of the client's generator), heartbeats are empty
            // and on channel 0, content headers carry at least class, weight, size and flags
            for e in &envs {
                let bad = match e.ty {
                    1 => match crate::wire::request_bits(&e.payload) {
                        Err(m) if !m.starts_with("no schema") => Some(m),
                        _ => None,
                    },
                    2 if e.payload.len() < 14 => Some("content header shorter than 14 bytes".to_string()),
                    8 if e.chan != 0 || !e.payload.is_empty() => Some("heartbeat frame with a channel or a payload".to_string()),
                    _ => None,
                };
                if let Some(m) = bad {
                    v.push(("wire:malformed-frame".to_string(), format!("frame type {} on channel {} payload {:?}: {}", e.ty, e.chan, &e.payload[..e.payload.len().min(40)], m)));
                    break;
                }
            }
        }
    }
    v
}

pub fn outcome_hash(o: &Outcome) -> u64 {
    let mut h = std::collections::hash_map::DefaultHasher::new();
    o.logs.hash(&mut h);
    o.deadlock.is_some().hash(&mut h);
    o.panics.len().hash(&mut h);
    o.io_gone.hash(&mut h);
    // per-channel projection of the wire (insensitive to cross-channel order)
    if o.wire.len() > 8 {
        let (envs, used, _) = split_envelopes(&o.wire[8..]);
        let mut per: BTreeMap<u16, Vec<(u8, Vec<u8>)>> = BTreeMap::new();
        for e in envs {
            per.entry(e.chan).or_default().push((e.ty, e.payload));
        }
        per.hash(&mut h);
        (o.wire.len() - 8 - used).hash(&mut h);
    }
    h.finish()
}

#[derive(Default)]
pub struct Stats {
    pub executions: u64,
    pub transitions: u64,
    pub max_points: usize,
    pub states: HashSet<u64>,
    pub outcomes: BTreeMap<u64, u64>,
    pub violations: Vec<Value>,
    pub violations_total: u64,
    pub machinery: Vec<String>,
    pub capped: bool,
    pub stopped_on_violations: bool,
    pub by_cost: BTreeMap<usize, u64>,
    pub samples: Vec<Value>,
}

pub struct Explorer<'a> {
    pub scn: &'a dyn Scenario,
    pub params: &'a Value,
    pub bound: usize,
    pub shard: (usize, usize),
    pub deadline: Instant,
    pub stats: Stats,
    root_child_counter: usize,
}

impl<'a> Explorer<'a> {
    pub fn new(scn: &'a dyn Scenario, params: &'a Value, bound: usize, shard: (usize, usize), max_secs: u64) -> Self {
        Explorer { scn, params, bound, shard, deadline: Instant::now() + Duration::from_secs(max_secs), stats: Stats::default(), root_child_counter: 0 }
    }

    fn record(&mut self, prefix: &[usize], run: &Run, cost: usize) {
        self.stats.executions += 1;
        self.stats.transitions += run.points.len() as u64;
        self.stats.max_points = self.stats.max_points.max(run.points.len());
        *self.stats.by_cost.entry(cost).or_insert(0) += 1;
        let mut acc = 0u64;
        for p in &run.points {
            // state abstraction: what is enabled here, combined with the path of
            // enabled-set signatures that led here (so merged states share their past)
            let mut h = std::collections::hash_map::DefaultHasher::new();
            acc.hash(&mut h);
            p.sig.hash(&mut h);
            acc = h.finish();
            let mut h2 = std::collections::hash_map::DefaultHasher::new();
            p.sig.hash(&mut h2);
            self.stats.states.insert(h2.finish());
        }
        *self.stats.outcomes.entry(outcome_hash(&run.outcome)).or_insert(0) += 1;
        if let Some(m) = &run.machinery {
            if self.stats.machinery.len() < 5 {
                self.stats.machinery.push(format!("{} (decisions {:?})", m, prefix));
            }
        }
        for (key, detail) in &run.violations {
            self.stats.violations_total += 1;
            let same = self.stats.violations.iter().filter(|v| v["key"] == *key).count();
            if same < 2 && self.stats.violations.len() < 24 {
                let decisions: Vec<usize> = run.points.iter().map(|p| p.chosen).collect();
                self.stats.violations.push(json!({
                    "key": key,
                    "detail": detail,
                    "replay": {"engine":"simx","scenario": self.scn.name(), "params": self.params, "decisions": decisions},
                }));
            }
        }
        if self.stats.samples.len() < 2 && (cost > 0 || self.bound == 0) {
            let decisions: Vec<usize> = run.points.iter().map(|p| p.chosen).collect();
            self.stats.samples.push(json!({"scenario": self.scn.name(), "params": self.params, "decisions": decisions, "logs": run.outcome.logs}));
        }
    }

    pub fn explore(&mut self) {
        let root = run_once(self.scn, self.params, &[], &[], false);
        if self.shard.0 == 0 {
            // determinism guard: the default schedule twice, identical observations
            let again = run_once(self.scn, self.params, &[], &[], false);
            let a: Vec<u64> = root.points.iter().map(|p| p.sig).collect();
            let b: Vec<u64> = again.points.iter().map(|p| p.sig).collect();
            if a != b || outcome_hash(&root.outcome) != outcome_hash(&again.outcome) {
                self.stats.machinery.push("determinism guard: two runs of the default schedule differ".to_string());
            }
            self.record(&[], &root, 0);
        }
        self.children(&[], &root, 0, true);
    }

    fn children(&mut self, prefix: &[usize], run: &Run, cost: usize, is_root: bool) {
        if cost >= self.bound || !run.violations.is_empty() && !is_root && false {
            return;
        }
        let chosen: Vec<usize> = run.points.iter().map(|p| p.chosen).collect();
        let sigs: Vec<u64> = run.points.iter().map(|p| p.sig).collect();
        for i in prefix.len()..run.points.len() {
            let n = run.points[i].n;
            for alt in 1..n {
                if is_root {
                    let k = self.root_child_counter;
                    self.root_child_counter += 1;
                    if k % self.shard.1 != self.shard.0 {
                        continue;
                    }
                }
                if Instant::now() > self.deadline {
                    self.stats.capped = true;
                    return;
                }
                // deadlocked executions leave their parked threads behind; once a variant has
                // produced this many violations there is nothing more to learn from it
                if self.stats.violations_total >= 60 {
                    self.stats.stopped_on_violations = true;
                    return;
                }
                let mut p2: Vec<usize> = chosen[..i].to_vec();
                p2.push(alt);
                let child = run_once(self.scn, self.params, &p2, &sigs[..i + 1], false);
                self.record(&p2, &child, cost + 1);
                if child.machinery.is_none() {
                    self.children(&p2, &child, cost + 1, false);
                }
                if self.stats.capped || self.stats.stopped_on_violations {
                    return;
                }
            }
        }
    }
}

pub fn point_kind_name(k: &PointKind) -> &'static str {
    match k {
        PointKind::Sched => "sched",
        PointKind::Read => "read",
        PointKind::Write => "write",
    }
}

/// Loopback-TCP conformance: run the scenario's client program free-running (no controller,
/// real blocking, real `mio::net::TcpStream`) against the same scripted broker served by a
/// thread behind a loopback listener, and return (per-actor logs, bytes the broker read).
pub fn run_free_tcp(scn: &dyn Scenario, params: &Value) -> Result<(BTreeMap<String, Vec<String>>, Vec<u8>), String> {
    use std::io::{Read, Write};
    verif::clock::set_virtual(false);
    verif::install(None);
    let built = scn.build(params);
    let listener = std::net::TcpListener::bind("127.0.0.1:0").map_err(|e| e.to_string())?;
    let addr = listener.local_addr().map_err(|e| e.to_string())?;
    let mut broker = built.broker;
    let server = std::thread::spawn(move || -> Vec<u8> {
        let mut wire = Vec::new();
        let (mut sock, _) = match listener.accept() {
            Ok(x) => x,
            Err(_) => return wire,
        };
        let _ = sock.set_nodelay(true);
        let _ = sock.set_read_timeout(Some(Duration::from_secs(20)));
        let mut buf = vec![0u8; 65536];
        loop {
            match sock.read(&mut buf) {
                Ok(0) | Err(_) => break,
                Ok(n) => {
                    wire.extend_from_slice(&buf[..n]);
                    let mut out = super::broker::BrokerOut::default();
                    broker.on_client_bytes(&buf[..n], &mut out);
                    if !out.bytes.is_empty() && sock.write_all(&out.bytes).is_err() {
                        break;
                    }
                    if out.eof {
                        let _ = sock.shutdown(std::net::Shutdown::Both);
                        break;
                    }
                }
            }
        }
        wire
    });
    let dummy = World::new(vec![], vec![], Box::new(super::broker::StdBroker::new(super::broker::Handshake::default())), EnvConfig::default(), false);
    let free = Arc::new(FreeWorld { addr, logs: std::sync::Mutex::new(BTreeMap::new()), handles: std::sync::Mutex::new(Vec::new()) });
    let ctx = Ctx { world: dummy, free: Some(free.clone()) };
    let root = built.root;
    let (done_tx, done_rx) = crossbeam_channel::bounded::<()>(1);
    std::thread::spawn(move || {
        root(ctx);
        let _ = done_tx.send(());
    });
    if done_rx.recv_timeout(Duration::from_secs(30)).is_err() {
        return Err("free-running session did not finish within 30 s".to_string());
    }
    let wire = server.join().map_err(|_| "broker thread panicked".to_string())?;
    let logs = free.logs.lock().unwrap().clone();
    Ok((logs, wire))
}

/// Per-channel projection of a client byte stream (insensitive to cross-channel order).
pub fn per_channel(wire: &[u8]) -> BTreeMap<u16, Vec<(u8, Vec<u8>)>> {
    let mut per: BTreeMap<u16, Vec<(u8, Vec<u8>)>> = BTreeMap::new();
    if wire.len() > 8 {
        let (envs, _, _) = split_envelopes(&wire[8..]);
        for e in envs {
            // heartbeats depend on real time: not part of the comparison
            if e.ty != 8 {
                per.entry(e.chan).or_default().push((e.ty, e.payload));
            }
        }
    }
    per
}
