//! Independent AMQP frame-envelope handling (type, channel, size, payload, 0xCE) plus
//! helpers to build real frames with amq-protocol's generator.
use amq_protocol::frame::generation::gen_frame;
use amq_protocol::frame::{parse_frame, AMQPFrame};
use cookie_factory::GenError;

pub const PROTOCOL_HEADER: &[u8; 8] = b"AMQP\x00\x00\x09\x01";
pub const FRAME_END: u8 = 0xCE;

#[derive(Clone, Debug, PartialEq, Eq, Hash)]
pub struct Env {
    pub ty: u8,
    pub chan: u16,
    pub payload: Vec<u8>,
}

impl Env {
    pub fn to_bytes(&self) -> Vec<u8> {
        let mut v = Vec::with_capacity(self.payload.len() + 8);
        v.push(self.ty);
        v.extend_from_slice(&self.chan.to_be_bytes());
        v.extend_from_slice(&(self.payload.len() as u32).to_be_bytes());
        v.extend_from_slice(&self.payload);
        v.push(FRAME_END);
        v
    }
    pub fn wire_len(&self) -> usize {
        self.payload.len() + 8
    }
    /// Decode with amq-protocol (method fields etc.).
    pub fn decode(&self) -> Option<AMQPFrame> {
        let b = self.to_bytes();
        match parse_frame(&b) {
            Ok((rest, f)) if rest.is_empty() => Some(f),
            _ => None,
        }
    }
}

/// Split `bytes` into complete envelopes. Returns the envelopes, the number of bytes they
/// cover, and an error if the covered prefix is followed by something that cannot be the
/// start of a well-formed frame (bad type octet, bad frame end).
pub fn split_envelopes(bytes: &[u8]) -> (Vec<Env>, usize, Option<String>) {
    let mut out = Vec::new();
    let mut pos = 0usize;
    loop {
        let rest = &bytes[pos..];
        if rest.is_empty() {
            return (out, pos, None);
        }
        if !(1..=4).contains(&rest[0]) && rest[0] != 8 {
            return (out, pos, Some(format!("bad frame type {} at offset {}", rest[0], pos)));
        }
        if rest.len() < 7 {
            return (out, pos, None);
        }
        let chan = u16::from_be_bytes([rest[1], rest[2]]);
        let size = u32::from_be_bytes([rest[3], rest[4], rest[5], rest[6]]) as usize;
        if rest.len() < size + 8 {
            return (out, pos, None);
        }
        if rest[7 + size] != FRAME_END {
            return (out, pos, Some(format!("bad frame end at offset {}", pos + 7 + size)));
        }
        out.push(Env {
            ty: rest[0],
            chan,
            payload: rest[7..7 + size].to_vec(),
        });
        pos += size + 8;
    }
}

/// Serialize a frame with amq-protocol's generator.
pub fn frame_bytes(frame: &AMQPFrame) -> Vec<u8> {
    let mut buf = vec![0u8; 64];
    loop {
        match gen_frame((&mut buf, 0), frame) {
            Ok((_, end)) => {
                buf.truncate(end);
                return buf;
            }
            Err(GenError::BufferTooSmall(n)) => {
                let n = n.max(buf.len() * 2);
                buf.resize(n, 0);
            }
            Err(e) => panic!("gen_frame: {:?}", e),
        }
    }
}

pub fn frames_bytes(frames: &[AMQPFrame]) -> Vec<u8> {
    let mut v = Vec::new();
    for f in frames {
        v.extend_from_slice(&frame_bytes(f));
    }
    v
}

/// Short, stable, human-readable description of a frame (for traces and samples).
pub fn brief(frame: &AMQPFrame) -> String {
    match frame {
        AMQPFrame::ProtocolHeader => "ProtocolHeader".to_string(),
        AMQPFrame::Heartbeat(c) => format!("Heartbeat({})", c),
        AMQPFrame::Method(c, m) => {
            let s = format!("{:?}", m);
            // e.g. Basic(Deliver(Deliver { .. })) -> Basic.Deliver{..}
            let short: String = s.chars().take(160).collect();
            format!("M{}:{}", c, short)
        }
        AMQPFrame::Header(c, class, h) => format!("H{}:class{} size{}", c, class, h.body_size),
        AMQPFrame::Body(c, b) => format!("B{}:{}B", c, b.len()),
    }
}

/// Independent (spec-derived) layout of the client->server methods amiquip emits: field
/// kinds in order. 'S' u16, 'L' u32, 'Q' u64, 's' short string, 'B' one octet of packed
/// bits, 'T' field table (u32 length prefixed).
pub fn request_schema(class: u16, method: u16) -> Option<&'static str> {
    Some(match (class, method) {
        (10, 50) => "SsSS",   // connection.close
        (20, 10) => "s",      // channel.open
        (20, 40) => "SsSS",   // channel.close
        (40, 10) => "SssBT",  // exchange.declare: passive durable auto-delete internal nowait
        (40, 20) => "SsB",    // exchange.delete: if-unused nowait
        (40, 30) => "SsssBT", // exchange.bind: nowait
        (40, 40) => "SsssBT", // exchange.unbind: nowait
        (50, 10) => "SsBT",   // queue.declare: passive durable exclusive auto-delete nowait
        (50, 20) => "SsssBT", // queue.bind: nowait
        (50, 30) => "SsB",    // queue.purge: nowait
        (50, 40) => "SsB",    // queue.delete: if-unused if-empty nowait
        (50, 50) => "SsssT",  // queue.unbind
        (60, 10) => "LSB",    // basic.qos: global
        (60, 20) => "SssBT",  // basic.consume: no-local no-ack exclusive nowait
        (60, 30) => "sB",     // basic.cancel: nowait
        (60, 40) => "SssB",   // basic.publish: mandatory immediate
        (60, 70) => "SsB",    // basic.get: no-ack
        (60, 80) => "QB",     // basic.ack: multiple
        (60, 90) => "QB",     // basic.reject: requeue
        (60, 110) => "B",     // basic.recover: requeue
        (60, 120) => "QB",    // basic.nack: multiple requeue
        (85, 10) => "B",      // confirm.select: nowait
        _ => return None,
    })
}

/// Walk a method payload with the schema; returns (class, method, bits octet if any) and
/// checks that the payload is consumed exactly.
pub fn request_bits(payload: &[u8]) -> Result<(u16, u16, Option<u8>), String> {
    if payload.len() < 4 {
        return Err("short payload".into());
    }
    let class = u16::from_be_bytes([payload[0], payload[1]]);
    let method = u16::from_be_bytes([payload[2], payload[3]]);
    let schema = request_schema(class, method).ok_or_else(|| format!("no schema for {}.{}", class, method))?;
    let mut pos = 4usize;
    let mut bits = None;
    for k in schema.chars() {
        let need = |n: usize, pos: usize| if pos + n <= payload.len() { Ok(()) } else { Err(format!("payload too short at {}", pos)) };
        match k {
            'S' => {
                need(2, pos)?;
                pos += 2;
            }
            'L' => {
                need(4, pos)?;
                pos += 4;
            }
            'Q' => {
                need(8, pos)?;
                pos += 8;
            }
            's' => {
                need(1, pos)?;
                let n = payload[pos] as usize;
                need(1 + n, pos)?;
                pos += 1 + n;
            }
            'B' => {
                need(1, pos)?;
                bits = Some(payload[pos]);
                pos += 1;
            }
            'T' => {
                need(4, pos)?;
                let n = u32::from_be_bytes([payload[pos], payload[pos + 1], payload[pos + 2], payload[pos + 3]]) as usize;
                need(4 + n, pos)?;
                pos += 4 + n;
            }
            _ => unreachable!(),
        }
    }
    if pos != payload.len() {
        return Err(format!("{} trailing bytes after {}.{}", payload.len() - pos, class, method));
    }
    Ok((class, method, bits))
}
