//! Partial result files: one JSON object per sub-check run, merged by /verif/check.
use serde_json::{json, Map, Value};
use std::collections::BTreeMap;
use std::time::Instant;

pub struct Violation {
    /// Stable identifier of *what* fails (input / call site / history class); this is what
    /// known_findings.json entries are matched against.
    pub key: String,
    pub detail: String,
    pub replay: Value,
}

pub struct Part {
    pub property: String,
    pub part: String,
    pub engine: String,
    pub level: String,
    pub tier: String,
    pub rule: String,
    pub evaluations: u64,
    pub distinct_nontrivial: u64,
    pub states: u64,
    pub transitions: u64,
    pub traces_validated: u64,
    pub exhaustive: bool,
    pub bounds: Map<String, Value>,
    pub extra: Map<String, Value>,
    pub samples: Vec<Value>,
    pub outcomes: BTreeMap<String, u64>,
    pub violations: Vec<Violation>,
    pub violations_total: u64,
    pub caps: Vec<String>,
    pub assumptions: Vec<String>,
    start: Instant,
}

pub const MAX_RECORDED_VIOLATIONS: usize = 40;

/// The first few violations recorded by any `Part` of this process: a check whose driver
/// thread dies after it has found something (the thing found usually is why it dies) can still
/// report what it found.
pub static VIOLATION_MIRROR: std::sync::Mutex<Vec<(String, String, Value)>> = std::sync::Mutex::new(Vec::new());

impl Part {
    pub fn new(property: &str, part: &str, engine: &str, level: &str, tier: &str) -> Part {
        Part {
            property: property.to_string(),
            part: part.to_string(),
            engine: engine.to_string(),
            level: level.to_string(),
            tier: tier.to_string(),
            rule: String::new(),
            evaluations: 0,
            distinct_nontrivial: 0,
            states: 0,
            transitions: 0,
            traces_validated: 0,
            exhaustive: true,
            bounds: Map::new(),
            extra: Map::new(),
            samples: Vec::new(),
            outcomes: BTreeMap::new(),
            violations: Vec::new(),
            violations_total: 0,
            caps: Vec::new(),
            assumptions: Vec::new(),
            start: Instant::now(),
        }
    }

    pub fn outcome(&mut self, name: &str) {
        *self.outcomes.entry(name.to_string()).or_insert(0) += 1;
    }

    pub fn outcome_n(&mut self, name: &str, n: u64) {
        *self.outcomes.entry(name.to_string()).or_insert(0) += n;
    }

    pub fn sample(&mut self, v: Value) {
        if self.samples.len() < 6 {
            self.samples.push(v);
        }
    }

    /// Record a violation; only the first few per distinct key keep their replay.
    pub fn violation(&mut self, key: &str, detail: String, replay: Value) {
        if let Ok(mut m) = VIOLATION_MIRROR.lock() {
            if m.len() < 8 {
                m.push((key.to_string(), detail.clone(), replay.clone()));
            }
        }
        self.violations_total += 1;
        let same = self.violations.iter().filter(|v| v.key == key).count();
        if same < 3 && self.violations.len() < MAX_RECORDED_VIOLATIONS {
            self.violations.push(Violation {
                key: key.to_string(),
                detail,
                replay,
            });
        }
    }

    pub fn merge(&mut self, other: Part) {
        self.evaluations += other.evaluations;
        self.distinct_nontrivial += other.distinct_nontrivial;
        self.states += other.states;
        self.transitions += other.transitions;
        self.traces_validated += other.traces_validated;
        self.exhaustive &= other.exhaustive;
        for (k, v) in other.outcomes {
            *self.outcomes.entry(k).or_insert(0) += v;
        }
        for s in other.samples {
            self.sample(s);
        }
        self.violations_total += other.violations_total;
        for v in other.violations {
            let same = self.violations.iter().filter(|x| x.key == v.key).count();
            if same < 3 && self.violations.len() < MAX_RECORDED_VIOLATIONS {
                self.violations.push(v);
            }
        }
        self.caps.extend(other.caps);
    }

    pub fn to_json(&self) -> Value {
        json!({
            "property": self.property,
            "part": self.part,
            "engine": self.engine,
            "level": self.level,
            "tier": self.tier,
            "rule": self.rule,
            "evaluations": self.evaluations,
            "distinct_nontrivial": self.distinct_nontrivial,
            "states": self.states,
            "transitions": self.transitions,
            "traces_validated_against_impl": self.traces_validated,
            "exhaustive": self.exhaustive,
            "bounds": Value::Object(self.bounds.clone()),
            "extra": Value::Object(self.extra.clone()),
            "samples": self.samples,
            "outcomes": self.outcomes,
            "violations_total": self.violations_total,
            "violations": self.violations.iter().map(|v| json!({
                "key": v.key, "detail": v.detail, "replay": v.replay,
            })).collect::<Vec<_>>(),
            "caps": self.caps,
            "assumptions": self.assumptions,
            "wall_s": self.start.elapsed().as_secs_f64(),
        })
    }

    /// Write to `path` (if given) and print a one-line summary.
    pub fn finish(&self, out: Option<&str>) {
        let v = self.to_json();
        if let Some(p) = out {
            if let Some(dir) = std::path::Path::new(p).parent() {
                let _ = std::fs::create_dir_all(dir);
            }
            std::fs::write(p, serde_json::to_string_pretty(&v).unwrap()).expect("write part");
        }
        println!(
            "PART {} {} evaluations={} nontrivial={} states={} transitions={} violations={} exhaustive={} wall={:.2}s",
            self.property,
            self.part,
            self.evaluations,
            self.distinct_nontrivial,
            self.states,
            self.transitions,
            self.violations_total,
            self.exhaustive,
            self.start.elapsed().as_secs_f64()
        );
        for v in self.violations.iter().take(5) {
            println!("  violation[{}]: {}", v.key, v.detail);
        }
    }
}
