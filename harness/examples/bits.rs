use amq_protocol::frame::*;
use amq_protocol::protocol::*;
fn main() {
    let f = AMQPFrame::Method(1, AMQPClass::Basic(basic::AMQPMethod::Get(basic::Get { ticket: 0, queue: "a".into(), no_ack: true })));
    let b = vh::wire::frame_bytes(&f);
    println!("{:?}", b);
    println!("{:?}", parse_frame(&b));
    let f = AMQPFrame::Method(1, AMQPClass::Queue(queue::AMQPMethod::Declare(queue::Declare { ticket: 0, queue: "a".into(), passive: false, durable: true, exclusive:false, auto_delete: true, nowait: false, arguments: Default::default() })));
    let b = vh::wire::frame_bytes(&f);
    println!("{:?}", b);
    println!("{:?}", parse_frame(&b));
}
