#!/usr/bin/env python3
"""Regenerates MANIFEST.json from the table below (single source of truth for the interface)."""
import json, os, subprocess

ROOT = os.path.dirname(os.path.abspath(__file__))
ALL = ["C%02d" % i for i in range(1, 21)]

# id -> (category, technique, text, note, design_ref, engine)
CHECKS = {
 "C14": ("model_checking",
         "bounded-exhaustive enumeration of every confirmation history on the real ConfirmSmoother against a reference model",
         "Every valid confirmation history for up to 6 (thorough: 7) tags, five start tags incl. the u64 boundary, every early-drop pattern up to 4 tags, plus every arbitrary (duplicate/stale) sequence to depth 5 (6) for the safety half, each executed on the real public API and compared call by call with a first-cover reference model. Exhaustive inside those bounds; nothing is sampled.",
         "Bounds only: histories longer than 7 tags and arbitrary sequences deeper than 6 are not covered; tag u64::MAX itself is excluded.",
         "DESIGN.md §6 C14", "seqx"),
}

NOT_YET = "check not built yet in this round (planned, see DESIGN.md §6); not claimed"

def main():
    hooks_commits = subprocess.run(["git", "-C", "/repo", "log", "--format=%h %s", "--grep=^verif"],
                                   stdout=subprocess.PIPE, text=True).stdout.strip().splitlines()
    m = {
        "version": 1,
        "setup_cmd": "./check build",
        "hooks": {
            "guard": "amiquip_verif",
            "enable": "RUSTFLAGS='--cfg amiquip_verif' with CARGO_TARGET_DIR=/verif/target (set by ./check; harness/.cargo/config.toml carries the same)",
            "baseline_off_cmd": "cd /repo && cargo test --workspace --no-fail-fast --offline",
            "source_commits": [c.split()[0] for c in hooks_commits],
            "add_only": True,
        },
        "engines": [
            {"name": "seqx", "path": "harness/src/bin/seqx", "serves_properties": sorted(k for k, v in CHECKS.items() if "seqx" in v[5]),
             "kind_free_text": "E1: sequential bounded-exhaustive enumeration / explicit-state search over the real components through cfg(amiquip_verif) probes, with reference-model oracles"},
            {"name": "simx", "path": "harness/src/bin/simx", "serves_properties": sorted(k for k, v in CHECKS.items() if "simx" in v[5]),
             "kind_free_text": "E2: stateless deviation-bounded exhaustive exploration of a live connection (real I/O thread and client threads gated at hook points; mock transport, scripted broker, virtual clock)"},
        ],
        "checks": [],
        "not_applicable": [],
        "notes": "All checks rebuild the harness from /repo's working tree with --cfg amiquip_verif. Known findings: known_findings.json (read-only at run time).",
    }
    for pid in ALL:
        if pid in CHECKS:
            cat, tech, text, note, ref, engine = CHECKS[pid]
            m["checks"].append({
                "property_id": pid,
                "quick_cmd": "./check %s quick" % pid,
                "thorough_cmd": "./check %s thorough" % pid,
                "evidence_file": "evidence/%s.json" % pid,
                "replay_cmd_template": "./check replay {path}",
                "engine": engine,
                "level_claimed": {"category": cat, "text": text, "design_ref": ref},
                "level_note": note,
                "technique": tech,
            })
        else:
            m["not_applicable"].append({"property_id": pid, "reason": NOT_YET})
    with open(os.path.join(ROOT, "MANIFEST.json"), "w") as f:
        json.dump(m, f, indent=1)
    print("MANIFEST.json: %d checks, %d not claimed" % (len(m["checks"]), len(m["not_applicable"])))

if __name__ == "__main__":
    main()
