#!/usr/bin/env python3
"""Regenerates MANIFEST.json from the table below (single source of truth for the interface)."""
import json, os, subprocess

ROOT = os.path.dirname(os.path.abspath(__file__))
ALL = ["C%02d" % i for i in range(1, 21)]

# id -> (category, technique, text, note, design_ref, engine)
CHECKS = {
 "C01": ("model_checking",
         "bounded-exhaustive enumeration of write-fragmentation scripts (short accept / would-block / error at every offset) over the real output buffer and write_to_stream",
         "Two parts. (1) seqx: programs of up to 3 real frames (8 B to 9 KB) queued before chosen write calls, written through the real write_to_stream into a scripted transport under every placement of up to 2 (thorough: 3) cuts (short accept / would-block / error). (2) simx: a live connection with two writer threads and the connection thread over a transport that answers every write call short (then stalls until granted) or starts stalled, every decision sequence with at most 2 (thorough 3) deviations: the wire must be header + whole frames, each channel's frames exactly its program in order, nothing lost or duplicated, no stalled write (deadlock check).",
         "Bounds: 3 threads, 2 writer channels, programs of 5 operations; scheduling granularity is channel/poll operations; the transport is a model of an edge-triggered non-blocking socket (DESIGN.md 5.2).",
         "DESIGN.md §6 C01", "seqx+simx"),
 "C02": ("model_checking",
         "complete cartesian enumeration of publishes through the real Channel/ChannelHandle with the hand-over queue tapped, frames split by an independent envelope parser, plus deviation-bounded exploration of two publishers on a live connection under partial writes and stalls",
         "frame_max x 12 (thorough 18) body lengths around multiples of the payload limit x mandatory x immediate x name classes, all 2^14 property subsets, boundary property values and pairs of consecutive publishes; checks method fields, header size and properties, body concatenation, per-frame size limit, absence of empty/extra body frames and contiguity. simx scenario pubwire: two threads publish six messages each (0, 1, frame_max-8, frame_max-7, 9000 and 3 bytes at frame_max 4096, different names, flags and properties) while the transport accepts writes in part and stalls; within 2 (thorough 3) deviations the accepted byte stream must carry every message exactly as published, contiguous and in order per channel.",
         "The cartesian sweep observes the queue to the I/O thread; the write path is exercised by pubwire for one fixed set of twelve messages.",
         "DESIGN.md §6 C02", "seqx+simx"),
 "C03": ("model_checking",
         "explicit-state BFS over valid server histories through the real collector/dispatch (probe) with a reference reassembler, plus deviation-bounded exploration of frame-by-frame deliveries into a live connection",
         "seqx: complete reachable state graph (825 states, closed before the depth bound) of Deliver/GetOk/Return, Header(size 0..3, +-properties), Body(1..remaining) on two channels in every per-channel-valid continuation and every cross-channel interleaving; after every frame everything every addressee received (full message content) equals the reference. simx: five messages (a 3-byte body in every partition, 0/1/2-byte bodies, with/without properties, a never-drained consumer, a get, a return) pushed frame by frame with cross-channel interleavings and delivery cuts within 2 (thorough 3) deviations, observed through Consumer::receiver, basic_get and listen_for_returns.",
         "Body sizes up to 3 bytes in the searches (large bodies and read segmentation are C06's sweep); two channels, three consumers.",
         "DESIGN.md §6 C03", "seqx+simx"),
 "C04": ("model_checking",
         "stateless deviation-bounded exhaustive exploration of concurrent RPC on the real threads; replies carry values derived from (channel, request number) and are released per channel in every order within the bound",
         "2-3 channels on 2-3 threads, programs of 2-3 calls (declare, passive, auto-named, purge, delete, qos, recover, bind, confirm-select, get, consume+cancel, nowait variants, publishes in between); the scripted broker holds replies per channel and releases them by environment actions, so reply order across channels is part of the explored space; every decision sequence with at most 2 (thorough 3) deviations. Oracle: each call returns exactly the value generated for its own (channel, request number); nowait calls return with all replies withheld (a waiting nowait call would deadlock).",
         "Bounds: 3 channels / threads, 7 program sets; scheduling granularity is channel/poll operations.",
         "DESIGN.md §6 C04", "simx"),
 "C05": ("fault_enumeration",
         "exhaustive fault enumeration over a live connection under a controlled scheduler: every crash point x fault kind x every schedule within a deviation bound, on the real I/O thread and client threads",
         "A full session (handshake, two channels, consumer, blocked call, publishes, close) runs on the real threads gated at every channel/poll operation; EOF and read error are injected at every 3rd (thorough: every) byte offset of the server->client stream, a write error at every client write call, a malformed frame at every server frame position, plus total silence under virtual time, server Connection.Close and a client-side protocol exception; each fault is combined with every schedule reachable with 1 (non-sweep faults 2; thorough 2/3) deviations from the default schedule. Oracle: no deadlock, no panic, every call after the failure returns Err, the consumer queue terminates, Connection::close returns the mapped root cause, I/O thread gone and transport dropped.",
         "Scheduling granularity is channel/poll operations (one I/O-loop iteration is atomic); transport, broker and timer wheel are models (DESIGN.md 5.8, 5.9). Session shape is fixed (2 channels, 3 threads).",
         "DESIGN.md §6 C05", "simx"),
 "C06": ("model_checking",
         "bounded-exhaustive enumeration of read scripts (cut placements x short-read/would-block) over real AMQP byte streams through the real FrameBuffer, against an envelope-level reference, plus an exhaustive segmentation sweep of one session on a live connection",
         "Every placement of up to 2 (thorough: 3) cuts, each a short read or a would-block, over every byte offset of streams up to 300 bytes and over a boundary menu for streams up to 9 KB (frame boundaries, size-field offsets, 4096-byte quantum +-2), plus one-byte-per-read, truncation+EOF at every offset and handler failure at each frame; the frames handed on, their timing relative to the read that completed them, byte counts and the final error are compared with a reference built from the stream's construction. simx scenario segments: one fixed session (frames right behind OpenOk, a delivery in two body frames, a return, a get with content, replies, close) with the 449-byte server stream cut at every offset (thorough: every pair of offsets up to 9 apart, plus one deviation); the client's observations must be those of the unsegmented run.",
         "Bounds: at most 3 cuts per stream in the sequential sweep, 1 (thorough 2) forced cuts in the live session; streams are the 20 listed in the evidence.",
         "DESIGN.md §6 C06", "seqx+simx"),
 "C07": ("model_checking",
         "explicit-state BFS over frame sequences from a violation alphabet through the real dispatch (probe) against the statement's error classes, child-process runs for unallocatable sizes, plus a live-connection slice",
         "seqx: BFS to depth 5 (thorough 6) over 33 (thorough 45) frame symbols covering every dispatch arm on channel 0, an open channel and an unopened one, from every reachable collector state; per step no panic, the named error or a client exception (Connection.Close with the matching hard-error code as only frame, sealed, later frames ignored), nothing delivered by a violating frame; six unallocatable announced body sizes in child processes (panic/abort detection). simx: twelve representative violations pushed frame by frame into a live connection with every schedule/cut within 2 (thorough 3) deviations: close() returns the named error, never IoThreadPanic, the consumer only sees the valid delivery.",
         "'A new method while content is outstanding' is read as a new content-starting method (what the statement's collector rule rejects); Channel.CloseOk for a non-open channel is tolerated (close race); a frame in two violation classes may produce either outcome.",
         "DESIGN.md §6 C07", "seqx+simx"),
 "C08": ("model_checking",
         "stateless deviation-bounded exhaustive exploration of the close handshake on the real threads (controlled scheduler, mock transport, scripted broker), iterated over deviation bounds 0..2 (thorough 3)",
         "Client- and server-initiated close racing with a consumer, a blocked call and publishes on two other threads; CloseOk alone or followed by EOF (in the same read or later), transport stalled or not, delivery cuts; every decision sequence with at most 2 (thorough 3) deviations from the default schedule is executed. Oracle: last frame written (Close(200,goodbye) / CloseOk), close() result, first error on each channel, later calls fail, exactly one terminal consumer message, thread and transport released.",
         "Scheduling granularity is channel/poll operations; session shape fixed (2 channels, 3 client threads); reply texts limited to the listed codes. The explorer parks a caller that would block in front of its send; the blocking hand-over itself is exercised by a second part (seqx handover): real threads, a queue of one entry, the I/O side leaving each kind of terminal error (or none) and going away while a publish / nowait call / synchronous call / listener registration is blocked - 32 cases, one forced schedule each, not an exploration of schedules.",
         "DESIGN.md §6 C08", "seqx+simx"),
 "C09": ("model_checking",
         "stateless deviation-bounded exhaustive exploration of a server-initiated channel close on the real threads",
         "Three channels on three threads; the server closes channel n while it is idle, has a call in flight, has content half received, or has two consumers attached (the close is an environment action offered from the moment that state exists); the other channels keep making value-carrying calls; afterwards id n is re-opened. Every decision sequence with at most 2 (thorough 3) deviations. Oracle: ServerClosedChannel(n, code, text) on the in-flight/next call, later calls fail, consumers get exactly that terminal message, Channel.CloseOk(n) on the wire, other channels' replies intact, connection closes Ok, id reusable. A sweep over 7 reply codes x 3 texts at bound 0 (thorough 1). Second part: the ids scenario of C10, whose sequences include channels closed by the server (then dropped) and ids reopened explicitly or automatically afterwards. Third part: the throttle scenario of C18, which includes a server close of a channel while the channels are held back by the high-water mark, with the id reopened under back-pressure.",
         "Bounds: 3 channels; quick tier covers 6 (n, state) pairs, thorough all 12.",
         "DESIGN.md §6 C09", "simx"),
 "C10": ("model_checking",
         "explicit-state breadth-first search of the complete reachable state graph of the real ChannelSlots (via probe) with a reference set, counter-boundary sequences in child processes, plus deviation-bounded exploration of open/close/call sequences on a live connection",
         "Complete reachable state graph for channel_max 1..3 (thorough: 4) under open(Some(i)) for every i in 0..=max+1, open(None), close, close of a non-open id, failing slot construction and drain; every transition is judged against the statement and the open set compared with a reference set. The u16 boundary (channel_max 65535, counter at 65533..65535, all ids open) is driven by real calls in child processes with a wall limit so that a spinning allocator is a verdict. simx scenario ids: seven sequences of open_channel(None/Some), calls, closes, drops, drops by a panicking owner and server-initiated closes through the real Connection and I/O thread with channel_max 1, 2, 3 and 65535 (ids 0, max, max+1, reopened ids, exhaustion, reuse), results compared with a set-of-open-ids reference, within 1 (thorough 2) deviations; and the throttle scenario of C18 as a third part (a channel opened, used and closed while the other channels are throttled).",
         "The complete state graph is that of ChannelSlots behind a probe (channel_max <= 4); the live-connection part runs seven fixed sequences.",
         "DESIGN.md §6 C10", "seqx+simx"),
 "C11": ("model_checking",
         "explicit-state BFS over consumer lifecycle histories through the real dispatch (probe) with a reference model, plus deviation-bounded exploration with real Consumer objects",
         "seqx: BFS to depth 7 (thorough 9; 8k / 31k states) over ConsumeOk, bodyless deliveries, client cancel request, CancelOk, server Cancel (nowait or not), server/client channel close, server/client connection close on tags {a,b} x channels {1,2} in every protocol-legal order; every consumer queue compared after every event (deliveries in order, exactly one terminal of the right kind, then disconnected; CancelOk written iff not nowait). simx: real Consumer objects - cancel twice, drop, forget + channel close, cancel with CancelOk withheld while deliveries keep arriving, server cancel then client cancel, connection dropped - with three deliveries pushed at any point, within 3 (thorough 4) deviations; scenario consumer-race: two consumers on channel 1 and one on channel 2, a cancel in flight while the server closes channel 1 or the connection at any point, mem_channel_bound 1 and 16, within 2 (thorough 3) deviations - every queue carries only its own tag's deliveries, then exactly one terminal naming the true cause; variants in which the consumers are dropped (their cancel in flight when the server's close, provoked or not, or the client's own Connection::close arrives), in fine mode: the other channel and the connection are not affected.",
         "Two tags, two channels; deliveries are bodyless in the lifecycle search.",
         "DESIGN.md §6 C11", "seqx+simx"),
 "C12": ("exploration",
         "complete table of public operations x boolean option combinations x value classes on a real Channel, compared byte-for-byte with hand-written expected methods and with a spec-derived independent flag/layout decoder",
         "84 operation entries (Channel, Queue, Exchange, Consumer, Delivery, Get, Connection open_channel/close), every combination of their boolean options, 4 string classes (different per argument), 3 table classes, numeric extremes: the one method frame handed over must equal the expected method, sit on the right channel, and its class/method ids, length and packed flag octet must match an independent AMQP 0-9-1 layout; cross-channel ack/nack/reject through Delivery, Get and Consumer must panic and send nothing; returned values of sync calls equal the preloaded replies.",
         "String/table encodings are compared against amq-protocol's generator (same generator the library uses); flags, ids and lengths are checked independently.",
         "DESIGN.md §6 C12", "seqx"),
 "C13": ("model_checking",
         "explicit-state BFS over confirm/return events interleaved with listener registration, replacement and dropping through the real dispatch (probe), plus deviation-bounded exploration of real listeners on a live connection",
         "seqx: BFS to depth 7 (thorough 9) over acks, nacks, returned messages on two channels, listener registration / replacement / drop and an RPC reply; every listener queue compared after every event. simx: a publisher thread with confirm and return listeners (replaced, optionally dropped), three publishes acknowledged by the broker, a nack, a returned message and blocked/unblocked notices pushed at any point, a blocked listener registered twice; within 2 (thorough 3) deviations the listeners' queues must concatenate to the server's events in order and unchanged, replaced listeners disconnected, RPC undisturbed.",
         "Blocked-listener behaviour is only covered by the simx part.",
         "DESIGN.md §6 C13", "seqx+simx"),
 "C14": ("model_checking",
         "bounded-exhaustive enumeration of every confirmation history on the real ConfirmSmoother against a reference model",
         "Every valid confirmation history for up to 6 (thorough: 7) tags, five start tags incl. the u64 boundary, every early-drop pattern up to 4 tags, plus every arbitrary (duplicate/stale) sequence to depth 5 (6) for the safety half, each executed on the real public API and compared call by call with a first-cover reference model. Exhaustive inside those bounds; nothing is sampled.",
         "Bounds only: histories longer than 7 tags and arbitrary sequences deeper than 6 are not covered; tag u64::MAX itself is excluded.",
         "DESIGN.md §6 C14", "seqx"),
 "C15": ("model_checking",
         "complete cartesian enumeration of tuning values through the real make_tune_ok against an independent reference, plus execution of negotiated sessions on the real threads under virtual time checking that the connection behaves by the negotiated values",
         "seqx: joint boundary product of all six values (592,900; thorough adds the complete u16 x u16 products for channel_max and heartbeat, 8.6e9 evaluations) against a min-with-0-as-unlimited reference incl. the FrameMaxTooSmall floor. simx tuned: 9 (thorough 13) (client options, server Tune) pairs through a live connection: TuneOk on the wire equals the negotiated triple (or FrameMaxTooSmall and no TuneOk), open_channel(Some(channel_max)) works and Some(channel_max+1) is refused, a body of three payload limits is framed within frame_max, and over three negotiated heartbeat intervals of idleness the client writes at least every interval (nothing when the interval is 0). simx hb (C17's scenario, run here for the clause 'heartbeat timing follows the announced interval'): every timing pattern of that scenario incl. a client that asks for h against a server proposing 3h, a peer that stops reading across a tx expiry and an I/O thread that is not scheduled across the hand-over from the handshake.",
         "The 'then obeyed' half is checked on 9-13 value pairs, not on the whole product; heartbeat timing uses the virtual clock and timer stand-in.",
         "DESIGN.md §6 C15", "seqx+simx"),
 "C16": ("model_checking",
         "stateless deviation-bounded exhaustive exploration of the opening handshake on the real I/O loop against every scripted server behaviour per stage, plus a complete cartesian sweep of StartOk construction",
         "simx: at each of the three points where the client waits the broker either behaves or sends one of 12 other things (Secure, Close, wrong-stage frames, heartbeat, channel-1 method, header, body, EOF, malformed bytes, silence with a configured timeout), plus mechanism/locale lists, too small frame_max, auth/information options and transport faults injected at any point; every delivery cut/schedule with at most 2 (thorough 3) deviations. Oracle: the exact error or success, methods written strictly in reaction (StartOk content, TuneOk, Open vhost, CloseOk on a server close), server_properties, thread and transport released. seqx: 228k (mechanism list, locale list, auth, locale, information) combinations through make_start_ok with token-equality expectations.",
         "InvalidCredentials is accepted only for an end of stream while waiting for the reply to StartOk; malformed bytes, a timeout and socket errors keep their own causes there (as the statement says). Silence without a configured timeout is outside the statement and not generated. Virtual time replaces the poll timeout (DESIGN.md 3.3).",
         "DESIGN.md §6 C16", "seqx+simx"),
 "C17": ("model_checking",
         "complete enumeration of timing patterns on a virtual-time grid over the real heartbeat code in a live connection (controlled scheduler, virtual clock, timer stand-in)",
         "Negotiated h in {1,2} s (thorough +60 s) and h=0; virtual time to 6h; every pattern of up to 2 (thorough 3) server transmissions (whole heartbeat or a single byte) on a grid of h/2 plus 3 ms, 2h-6 ms, 2h-5 ms, 2h+1 ms, a server that keeps talking, client publishes at chosen times, a peer that stops reading for 0.3h across an expiry of the tx timer while a publish waits in the output buffer, an I/O thread that is not scheduled for 0.2h while OpenOk arrives and the tx timer expires (both orders): 1064 (thorough more) timing patterns, each executed on the real I/O thread; time advances only at quiescence. Oracle (constraints): client writes at least every h while alive; MissedServerHeartbeats iff inbound silence reaches 2h, within [2h-5 ms, 2h+10 ms]; any inbound byte counts; with h=0 no heartbeat frame and silence is never fatal.",
         "The mio-extras timer wheel (100 ms ticks, wake-up thread) is replaced by an exact virtual-time stand-in and Instant by a virtual clock (DESIGN.md 3.3); real-time jitter is out of scope.",
         "DESIGN.md §6 C17", "simx"),
 "C18": ("model_checking",
         "stateless deviation-bounded exhaustive exploration of publishers against a stalling transport on the real threads",
         "Two publisher threads and the connection thread (opening/closing a channel meanwhile) over a transport that stalls after a chosen number of bytes and is re-opened in grants; five tunings (bound, high, low) incl. bound 0 and high 0; every decision sequence with at most 1-2 (thorough 2-3) deviations. Oracle: buffered output at every poll gate within high + channels*(bound+1)*frame + 64, no deadlock (every blocked publisher resumes), every message on the wire exactly once in per-channel order.",
         "Bounds: 3 channels, 3 publishes each; one I/O-loop iteration is atomic with respect to client sends except in the fine-mode variants (a publisher refilling its queue during a drain); variants closing the connection behind a buffered backlog over a trickling peer keep the high-water mark out of reach (DESIGN.md 9).",
         "DESIGN.md §6 C18", "simx"),
 "C19": ("exploration",
         "complete cartesian enumeration of URLs assembled from component alphabets through the real URL decoding, oracle = the components (never re-parsed)",
         "1.68 million URLs (thorough: more hosts and all ordered triples of valid parameters) assembled from scheme x userinfo x host x port x path x query alphabets; decoded host, port, credentials, vhost, heartbeat, channel_max, connection_timeout, auth mechanism or the specific error compared with the tuple the URL was built from; Connection::open on every accepted amqp:// shape must answer InsecureUrl.",
         "Decoding is observed through a probe that runs the same three calls Connection::open runs before touching the network; a loopback slice (simx urlslice) opens twelve URLs (IPv4 literal, name and bracketed IPv6 literal hosts) with the real Connection::insecure_open against the scripted broker behind a TCP listener and compares what the broker receives.",
         "DESIGN.md §6 C19", "seqx+simx"),
 "C20": ("model_checking",
         "complete enumeration of ordered event subsets made pending in one poll batch of the real I/O thread (batch driver on the controlled scheduler), with a differential oracle against every serial handling",
         "After a default-schedule setup the I/O thread is held at its gate while every ordered subset (up to 4, thorough 5 events) of {server Connection.Close, server Channel.Close, one channel-0 request (open_channel / listen_for_connection_blocked / Connection::close), publish and/or call on the closed channel, call on another channel} is made pending in that order (readiness order = batch order), then one poll handles them together; also with the transport stalled so the closing state spans batches, with the client's own Channel::close among the events, and with [reply to a call in flight, server close] arriving in one read at mem_channel_bound 1 and 16. 1916 (thorough more) batches. Oracle: no panic, every request returns, Connection::close reports the server's close, and the results equal those of some serial (one event per batch) handling of the same events.",
         "Event alphabet and sizes as listed; server frames share the byte stream so only stream-consistent orders are generated.",
         "DESIGN.md §6 C20", "simx"),
}

NOT_YET = "check not built yet in this round (planned, see DESIGN.md §6); not claimed"

# variant families added after the eleventh round of seeded changes (DESIGN.md section 6, last block)
ADDED_R11 = {
 "C02": "a 140 000-byte message (35 body frames) through a queue of one entry while the server cancels the channel's consumer at any point.",
 "C03": "the channel's topology declared with the nowait variants (queue, exchange, binding) before anything is consumed.",
 "C04": "seqx backpressure (real threads, not an exploration): a publish / nowait call / synchronous call / listener registration made while the queue to the I/O thread (bound 1 and 2) is full must go through, once, behind the queued messages, when the I/O side takes the queue - 16 cases, one forced schedule each.",
 "C05": "80 000 bytes buffered behind a peer that stopped reading when the server closes / a client exception is raised / the client closes; a server that resets the socket, breaks the pipe or stops reading right behind its Connection.Close (the close must still be reported as the server's).",
 "C06": "the short closing session with the server hanging up behind its Close (end of stream or reset), in a pass of its own or in the same pass as the last byte, every cut.",
 "C10": "channels closed by both sides at once, then re-opened by number and by the automatic allocation (two sequences).",
 "C11": "a consumer on a recycled id opened by number while every id of the connection (channel_max 2) is in use, and one more open_channel(None).",
 "C12": "all 40 320 orders of the eight ConnectionOptions builders, each with a non-default value, against the StartOk / TuneOk / Open built from them.",
 "C16": "Connection.Close instead of OpenOk followed by a reset and / or a broken pipe.",
 "C18": "a pile-up (the I/O thread held while both publishers hand over and the transport becomes writable: channel 1, channel 2 and the transport in one wake-up, both channel orders, two tunings); Connection::close while the channels are held back above the high-water mark (accepted messages must still go out); seqx backpressure as under C04.",
 "C19": "virtual hosts whose names begin or end with a slash or a blank (%2Fprod, %2f%2f, prod%2F, %20v%20), also through two more loopback sessions.",
 "C20": "oracle on the wire: what the I/O thread accepted from a channel before the connection's close point is written, in whole frames, once the client's last frame is.",
}

ADDED_R13 = {
 "C04": "the six synchronous exchange operations (declare, passive declare, bind, unbind, bind through a handle, delete) as one program step, replies held and released in every order.",
 "C06": "a bad frame-end octet on every kind of frame (body, empty body, header, heartbeat, Deliver), not only on a method frame.",
 "C15": "(tuned) bodies of exactly two and three payload limits.",
 "C18": "(throttle) close right after the transport takes everything again: 'writable' and the close request in one wake-up, the buffer empty when the close is taken.",
 "C19": "(urlslice) amqps://localhost?connection_timeout=400 against a peer that accepts and stays silent must end in ConnectionTimeout (real time: 10 s allowed, one retry).",
}
ADDED_R14 = {
 "C03": "(dispatch-content) the server cancels one of the two consumers on channel 1: the other consumers go on receiving, in order.",
 "C17": "(hb) the server breaks the protocol and then falls silent: MissedServerHeartbeats 2h behind its last byte when the client's Close is stuck behind a peer that stopped reading; an end by ClientException once the Close is out is not a liveness verdict.",
 "C20": "(batch) absolute oracle next to the differential one: Channel::close returns Ok only if the server's CloseOk for that channel was read.",
}
ADDED_R12 = {
 "C02": "a high-water mark below one message (default low-water mark), with and without a stalled transport: throttling episodes while the messages go out.",
 "C03": "what the server still had in its pipe when the client's Connection.Close reached it (a delivery, a returned message, ahead of its CloseOk) still reaches its addressee.",
 "C04": "a high-water mark below one publish: every publish is a throttling episode and the calls behind it still get their own replies.",
 "C06": "the first session with the client's output stuck behind a peer that takes nothing while the server's messages arrive (every fifth cut): they are handed on when they arrive.",
 "C09": "the closed channel had a consumer earlier that the client cancelled and dropped (states idle and inflight).",
 "C12": "the ids scenario of C10 run as a second part (methods for channel 65535 and reused ids reach the wire on that channel).",
 "C15": "(through hb) an I/O thread that is not scheduled for two whole intervals while the server keeps sending: the rx timer's expiry and the waiting bytes are found in one wake-up; the server was never silent.",
 "C16": "a virtual host with %-sequences, '+' and '/' in the handshake sessions; 15 virtual-host spellings through make_open (nothing is decoded or trimmed on the way to Connection.Open).",
 "C17": "an I/O thread that is not scheduled for two whole intervals while the server keeps sending every 0.9h (liveness reference from the arrival instants).",
 "C18": "seqx tuning-builders: every sequence of up to 3 (thorough 4) ConnectionTuning builder calls over 7 boundary values - the fields equal the last arguments (9 724 / 204 k sequences).",
 "C19": "connection_timeout=0 over loopback (the attempt times out at once); a vhost whose name contains a literal %2F.",
 "C20": "the server's Connection.Close with reply code 200 and 0 in five batches.",
}


def main():
    hooks_commits = subprocess.run(["git", "-C", "/repo", "log", "--format=%h %s", "--grep=^verif"],
                                   stdout=subprocess.PIPE, text=True).stdout.strip().splitlines()
    m = {
        "version": 1,
        "setup_cmd": "./check build",
        "hooks": {
            "guard": "amiquip_verif",
            "enable": "RUSTFLAGS='--cfg amiquip_verif' with CARGO_TARGET_DIR=/verif/target (set by ./check; harness/.cargo/config.toml carries the same)",
            "baseline_off_cmd": "cd /repo && cargo test --workspace --no-fail-fast --offline",
            "source_commits": [c.split()[0] for c in hooks_commits],
            "add_only": True,
        },
        "engines": [
            {"name": "seqx", "path": "harness/src/bin/seqx", "serves_properties": sorted(k for k, v in CHECKS.items() if "seqx" in v[5]),
             "kind_free_text": "E1: sequential bounded-exhaustive enumeration / explicit-state search over the real components through cfg(amiquip_verif) probes, with reference-model oracles"},
            {"name": "simx", "path": "harness/src/bin/simx", "serves_properties": sorted(k for k, v in CHECKS.items() if "simx" in v[5]),
             "kind_free_text": "E2: stateless deviation-bounded exhaustive exploration of a live connection (real I/O thread and client threads gated at hook points; mock transport, scripted broker, virtual clock)"},
        ],
        "checks": [],
        "not_applicable": [],
        "notes": "All checks rebuild the harness from /repo's working tree with --cfg amiquip_verif. Known findings: known_findings.json (read-only at run time).",
    }
    for pid in ALL:
        if pid in CHECKS:
            cat, tech, text, note, ref, engine = CHECKS[pid]
            if pid in ADDED_R11:
                text = text + " Added in round 11: " + ADDED_R11[pid]
                if pid in ("C04", "C18") and "seqx" not in engine:
                    engine = "seqx+" + engine
            if pid in ADDED_R12:
                text = text + " Added in round 12: " + ADDED_R12[pid]
            if pid in ADDED_R13:
                text = text + " Added in round 13: " + ADDED_R13[pid]
            if pid in ADDED_R14:
                text = text + " Added in round 14: " + ADDED_R14[pid]
            if pid == "C12":
                # the clause "on the right channel" is decided on a live connection (simx ids)
                cat, engine = "model_checking", "seqx+simx"
                tech = tech + ", plus stateless deviation-bounded exploration of open / call / close sequences on a live connection for the clause 'on the right channel' (ids 1, 65534, 65535, reused ids)"
            m["checks"].append({
                "property_id": pid,
                "quick_cmd": "./check %s quick" % pid,
                "thorough_cmd": "./check %s thorough" % pid,
                "evidence_file": "evidence/%s.json" % pid,
                "replay_cmd_template": "./check replay {path}",
                "engine": engine,
                "level_claimed": {"category": cat, "text": text, "design_ref": ref},
                "level_note": note,
                "technique": tech,
            })
        else:
            m["not_applicable"].append({"property_id": pid, "reason": NOT_YET})
    with open(os.path.join(ROOT, "MANIFEST.json"), "w") as f:
        json.dump(m, f, indent=1)
    print("MANIFEST.json: %d checks, %d not claimed" % (len(m["checks"]), len(m["not_applicable"])))

if __name__ == "__main__":
    main()
