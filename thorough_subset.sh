#!/bin/bash
# usage: thorough_subset.sh C04 C06 ...   - the thorough tier of some properties, one after another;
# exit status 1 if any of them reported a violation, 2 on a machinery error
cd "$(dirname "$0")"
rc=0
for id in "$@"; do ./check "$id" thorough; r=$?; [ $r -gt $rc ] && rc=$r; done
exit $rc
